/-
C06 — print and equity output re-reads to an equivalent journal.

Model: Model/Print.lean (print.cc print_xact / post_has_simple_amount /
format_account_name / print_note; textual.cc parse_xact / parse_post on the
printed text; filters.cc posts_as_equity).  `c : Codec` is the amount and date
text layer (C04 / C14), a parameter; `c.Lawful` are the hypotheses on it.
`xactOk` is the explicit, decidable well-formedness predicate on the free text
(payee, accounts, code, notes) and on the amounts (in the codec's domain, not
display-zero, costs with a finite expansion).  `L : Layout` are the widths
(`Gen.printAccountWidth` … are the values found in the source).

Where the code violates the full statement, the full statement is a `def …Full :
Prop`, refuted on a concrete witness (`…_counterexample`), and the `…_partial`
theorem carries the exact excluded guard.
-/
import LedgerModel.Lemmas.Print
import LedgerModel.Lemmas.Equity
import LedgerModel.Lemmas.PrintToy
import LedgerModel.Lemmas.PrintInst
import LedgerModel.Model.PrintPinned
import LedgerModel.Gen.Print

namespace Ledger

open Print

/-! ### tie to the source -/

/-- the bodies of print_xact, post_has_simple_amount, format_account_name, print_note,
    posts_as_equity::report_subtotal, subtotal_posts::operator(), handle_value, parse_xact,
    parse_post (without its balance-assignment block), next_element, skip_ws and the AMOUNT case
    of value_t::print are the ones this model was written against. -/
theorem C06.print_fns_pinned : Gen.printFns = Pinned.printFns := rfl

/-- the default widths of print_xact (account 36, amount 12, columns 80). -/
theorem C06.layout_pinned :
    (Gen.printAccountWidth, Gen.printAmountWidth, Gen.printColumns) =
    (Pinned.printAccountWidth, Pinned.printAmountWidth, Pinned.printColumns) := rfl

/-- the widths found in the source with given rule switches. -/
def C06.layoutWith (mark elide pad : Bool) : Layout :=
  { accountWidth := Gen.printAccountWidth, amountWidth := Gen.printAmountWidth, columns := Gen.printColumns,
    markWhenDiffers := mark, elideChecksMustBalance := elide, padOnlyWithAmount := pad }

/-- what `ledger print` of the current source does without options: the widths and the form of
    the three statements recognised by tools/extract_print.py. -/
def C06.sourceLayout : Layout :=
  C06.layoutWith Gen.printMarkWhenStateDiffers Gen.printElideChecksMustBalance Gen.printPadsOnlyWithAmount

/-! ### print, then read -/

/-- Re-reading the printed lines of any well-formed finalised transaction succeeds and
    yields `norm x`. -/
theorem C06.parse_render (c : Codec) (hc : c.Lawful) (L : Layout) (x : PXact)
    (hx : xactOk c x = true) :
    parseXactText c (renderXact c L x) = .ok (norm c L x) :=
  Print.parse_render c hc L x hx

/-- the same for the widths found in the source, on `String` lines. -/
theorem C06.parse_render_string (c : Codec) (hc : c.Lawful) (x : PXact)
    (hx : xactOk c x = true) :
    parseXactTextS c (renderXactS c C06.sourceLayout x) = .ok (norm c C06.sourceLayout x) := by
  unfold parseXactTextS renderXactS
  rw [List.map_map]
  have : (String.toList ∘ String.ofList) = (id : Str → Str) := by
    funext l; simp [Function.comp, String.toList_ofList]
  rw [this, List.map_id]
  exact Print.parse_render c hc _ x hx

/-- `norm` forgets only layout (1): the header is unchanged. -/
theorem C06.norm_header (c : Codec) (L : Layout) (x : PXact) :
    (norm c L x).date = x.date ∧ (norm c L x).aux = x.aux ∧ (norm c L x).state = x.state ∧
    (norm c L x).code = x.code ∧ (norm c L x).payee = x.payee ∧
    (norm c L x).note.map (·.lines) = x.note.map (·.lines) := by
  refine ⟨rfl, rfl, rfl, rfl, rfl, ?_⟩
  cases h : x.note <;> simp [norm, normNote, h]

/-- `norm` forgets only layout (2): posting by posting, account, kind and note lines are
    unchanged; a written amount and an assertion come back as their displayed quantity
    (`c.disp`, the identity on amounts with no more decimals than the display precision:
    "to display precision" for amounts ledger computed from a balance assignment). -/
theorem C06.norm_posting (c : AmtCodec) (L : Layout) (xs : ItemState) (w : Nat) (e : Bool) (p : PPost) :
    (normPost c L xs w e p).account = p.account ∧ (normPost c L xs w e p).kind = p.kind ∧
    (normPost c L xs w e p).note.map (·.lines) = p.note.map (·.lines) ∧
    (e = false → (normPost c L xs w e p).amount = p.amount.map c.disp) ∧
    (p.amount.isSome → (normPost c L xs w e p).assigned = p.assigned.map c.disp) := by
  refine ⟨rfl, rfl, ?_, ?_, ?_⟩
  · cases h : p.note <;> simp [normPost, normNote, h]
  · intro he; simp [normPost, he]
  · intro hs
    cases h : p.amount with
    | none => simp [h] at hs
    | some a => simp [normPost, h]

/-- (3) the postings of `norm x` are those of `x`, in order. -/
theorem C06.norm_posts (c : Codec) (L : Layout) (x : PXact) :
    (norm c L x).posts = (x.posts.zip (elideFlags L x)).map
      (fun pe => normPost c.toAmtCodec L x.state (accountWidth L x) pe.2 pe.1) ∧
    (norm c L x).posts.length = x.posts.length := by
  refine ⟨rfl, ?_⟩
  simp [norm, List.length_zip, elideFlags_length]

/-! ### costs -/

/-- textual.cc 1612-1627 then print.cc 270-274: the per-unit price reconstructed as
    `(given_cost / amount).abs()` is exactly the written one, for every non-zero amount;
    a total cost `@@` is printed as given. -/
theorem C06.per_unit_cost_exact (a u : Qty) (ha : a.q ≠ 0) (hu : 0 ≤ u.q) :
    printedCost (mkGiven a u false) a false = u ∧ printedCost (mkGiven a u true) a true = u :=
  ⟨printedCost_mkGiven a u false ha hu, printedCost_mkGiven a u true ha hu⟩

/-- the stored cost survives print | re-read exactly when the amount was written with no more
    decimals than the display precision (`c.disp a = a`) and the cost came from the reader
    (`k.given = mkGiven a u k.inFull` for a non-negative written price `u`). -/
theorem C06.cost_preserved (c : AmtCodec) (L : Layout) (xs : ItemState) (w : Nat) (p : PPost) (a u : Qty) (k : PCost)
    (ha : p.amount = some a) (hk : p.cost = some k) (hex : c.disp a = a) (hnz : a.q ≠ 0) (hu : 0 ≤ u.q)
    (hgiven : k.given = mkGiven a u k.inFull) :
    (normPost c L xs w false p).cost = some k := by
  simp only [normPost, ha, hk, hex]
  rw [hgiven, printedCost_mkGiven a u k.inFull hnz hu, ← hgiven]

/-! ### printing again -/

/-- FULL statement (false for the pinned code): printing the re-read transaction
    reproduces the text byte for byte. -/
def C06.RenderFixpointFull (L : Layout) : Prop :=
  ∀ (c : Codec), c.Lawful → ∀ (x : PXact), xactOk c x = true →
    renderXact c L (norm c L x) = renderXact c L x

/-- it holds whenever print did not write padding blanks after an elided second amount
    (print.cc 256-257 pads even when `amt` is empty; the guard fails only for a
    two-posting transaction whose second account name is within one column of the
    account width). -/
theorem C06.render_fixpoint_partial (c : Codec) (hc : c.Lawful) (L : Layout) (x : PXact)
    (hx : xactOk c x = true) (hpad : trailingPad L x = false) :
    renderXact c L (norm c L x) = renderXact c L x :=
  Print.render_fixpoint c hc L x hx hpad

/-- and so print ∘ read ∘ print = print on such transactions. -/
theorem C06.print_read_print (c : Codec) (hc : c.Lawful) (L : Layout) (x : PXact)
    (hx : xactOk c x = true) (hpad : trailingPad L x = false) :
    (parseXactText c (renderXact c L x)).map (renderXact c L) = .ok (renderXact c L x) := by
  rw [Print.parse_render c hc L x hx]
  simp [Except.map, Print.render_fixpoint c hc L x hx hpad]

/-- the full statement for the repaired padding rule (`! amt.empty() &&`). -/
theorem C06.render_fixpoint (L : Layout) (hL : L.padOnlyWithAmount = true) : C06.RenderFixpointFull L := by
  intro c hc x hx
  apply Print.render_fixpoint c hc L x hx
  unfold trailingPad
  split <;> simp [hL]

def C06.mkP (acct : String) (kind : PostKind) (state : Nat) (q : Int) : PPost :=
  { account := acct.toList, kind := kind, state := state, amount := some { q := (q : Rat), comm := "" },
    cost := none, assigned := none, note := none }

def C06.mkX (state : Nat) (posts : List PPost) : PXact :=
  { date := 3, aux := none, state := state, code := none, payee := "p".toList, note := none, posts := posts }

/-- witness: `A  1` / a 35-character account `-1` (print writes two blanks after the second name). -/
def C06.wPad : PXact :=
  C06.mkX 0 [C06.mkP "A" .real 0 1, C06.mkP "Assets:Thirty-five chars account name" .real 0 (-1)]

/-- the pinned padding rule violates the full statement (whatever form the other two statements have). -/
theorem C06.render_fixpoint_counterexample (mark elide : Bool) :
    ¬ C06.RenderFixpointFull (C06.layoutWith mark elide false) := by
  intro h
  have := h toyCodec toyCodec_lawful C06.wPad (by decide +kernel)
  revert this
  cases mark <;> cases elide <;> decide +kernel

/-- … in particular the current source, as long as tools/extract_print.py finds the pinned form. -/
theorem C06.render_fixpoint_source_counterexample (h : Gen.printPadsOnlyWithAmount = false) :
    ¬ C06.RenderFixpointFull C06.sourceLayout := by
  unfold C06.sourceLayout
  rw [h]
  exact C06.render_fixpoint_counterexample _ _

/-! ### state marks -/

/-- what parse_post guarantees of every transaction ledger holds (textual.cc 1482-1484): under a
    cleared or pending transaction no posting is uncleared. -/
def C06.statesInherited (x : PXact) : Prop := x.state ≠ 0 → ∀ p ∈ x.posts, p.state ≠ 0

/-- FULL statement (false for the pinned code): every posting keeps its state. -/
def C06.StateMarksFull (L : Layout) : Prop :=
  ∀ (c : Codec), c.Lawful → ∀ (x : PXact), xactOk c x = true → C06.statesInherited x →
    ∀ y, parseXactText c (renderXact c L x) = .ok y → y.posts.map (·.state) = x.posts.map (·.state)

/-- witness: `* p` with posting `! A  1` (the candidate defect of DESIGN §9-9):
    format_account_name writes the posting's mark only under an uncleared transaction. -/
def C06.wState : PXact :=
  C06.mkX 1 [C06.mkP "A" .real 2 1, C06.mkP "B" .real 1 (-2), C06.mkP "C" .real 1 1]

theorem C06.state_marks_counterexample (elide pad : Bool) :
    ¬ C06.StateMarksFull (C06.layoutWith false elide pad) := by
  intro h
  have := h toyCodec toyCodec_lawful C06.wState (by decide +kernel) (by unfold C06.statesInherited; decide +kernel) _
    (Print.parse_render toyCodec toyCodec_lawful _ _ (by decide +kernel))
  revert this
  cases elide <;> cases pad <;> decide +kernel

theorem C06.state_marks_source_counterexample (h : Gen.printMarkWhenStateDiffers = false) :
    ¬ C06.StateMarksFull C06.sourceLayout := by
  unfold C06.sourceLayout
  rw [h]
  exact C06.state_marks_counterexample _ _

/-- the state a posting re-reads with. -/
theorem C06.normPost_state (c : AmtCodec) (L : Layout) (xs : ItemState) (w : Nat) (e : Bool) (p : PPost)
    (h : (L.markWhenDiffers = true ∧ (xs ≠ 0 → p.state ≠ 0)) ∨ xs = 0 ∨ p.state = xs) :
    (normPost c L xs w e p).state = p.state := by
  simp only [normPost, marked]
  rcases h with ⟨hL, hi⟩ | h | h
  · by_cases h1 : p.state = xs <;> by_cases h2 : p.state = 0 <;> by_cases h3 : xs = 0 <;> simp_all
  · by_cases hL : L.markWhenDiffers = true <;> by_cases h2 : p.state = 0 <;> simp_all
  · by_cases hL : L.markWhenDiffers = true <;> by_cases h2 : p.state = 0 <;> simp_all

theorem C06.states_of_norm (c : Codec) (L : Layout) (x : PXact)
    (h : ∀ p ∈ x.posts, (L.markWhenDiffers = true ∧ (x.state ≠ 0 → p.state ≠ 0)) ∨ x.state = 0 ∨ p.state = x.state) :
    (norm c L x).posts.map (·.state) = x.posts.map (·.state) := by
  have h1 : (norm c L x).posts = (x.posts.zip (elideFlags L x)).map
      (fun pe => normPost c.toAmtCodec L x.state (accountWidth L x) pe.2 pe.1) := rfl
  rw [h1, List.map_map]
  have h2 : (x.posts.zip (elideFlags L x)).map
      ((fun p => p.state) ∘ fun pe => normPost c.toAmtCodec L x.state (accountWidth L x) pe.2 pe.1) =
      (x.posts.zip (elideFlags L x)).map (fun pe => pe.1.state) := by
    apply List.map_congr_left
    intro pe hpe
    simp only [Function.comp]
    exact C06.normPost_state _ L _ _ _ _ (h pe.1 (List.of_mem_zip hpe).1)
  rw [h2]
  have h3 : (x.posts.zip (elideFlags L x)).map (fun pe => pe.1.state) =
      ((x.posts.zip (elideFlags L x)).map Prod.fst).map (fun p => p.state) := by
    rw [List.map_map]; rfl
  rw [h3, flagged_fst]

/-- the state marks that survive under the pinned rule: all of them when the transaction is
    uncleared, and otherwise those equal to the transaction's (every other posting re-reads with
    the transaction's state). -/
theorem C06.state_marks_partial (c : Codec) (hc : c.Lawful) (L : Layout) (x : PXact)
    (hx : xactOk c x = true)
    (hguard : x.state = 0 ∨ ∀ p ∈ x.posts, p.state = x.state) :
    ∀ y, parseXactText c (renderXact c L x) = .ok y → y.posts.map (·.state) = x.posts.map (·.state) := by
  intro y hy
  rw [Print.parse_render c hc L x hx] at hy
  cases hy
  apply C06.states_of_norm
  intro p hp
  rcases hguard with h | h
  · exact Or.inr (Or.inl h)
  · exact Or.inr (Or.inr (h p hp))

/-- the full statement for the repaired rule (`post->state() != xact.state()`). -/
theorem C06.state_marks (L : Layout) (hL : L.markWhenDiffers = true) : C06.StateMarksFull L := by
  intro c hc x hx hinh y hy
  rw [Print.parse_render c hc L x hx] at hy
  cases hy
  apply C06.states_of_norm
  intro p hp
  exact Or.inl ⟨hL, fun h => hinh h p hp⟩

/-- what happens otherwise under the pinned rule: under a cleared or pending transaction every
    posting re-reads with the transaction's state. -/
theorem C06.state_marks_dropped (c : AmtCodec) (L : Layout) (hL : L.markWhenDiffers = false)
    (xs : ItemState) (w : Nat) (e : Bool) (p : PPost)
    (h : xs ≠ 0) : (normPost c L xs w e p).state = xs := by
  simp [normPost, marked, hL, h]

/-! ### the elided second amount -/

/-- xact.cc 158-199, 355-374, 388-418 for a two-posting transaction whose second posting has no
    amount and whose first carries no cost: the null posting receives the negated amount when
    both postings must balance; a null amount on (or against) a posting that need not balance
    stays null and the transaction is rejected ("There cannot be null amounts after balancing a
    transaction"). -/
def C06.inferSecond (p1 p2 : PPost) : Option Qty :=
  match p1.amount with
  | some a1 => if p1.kind ≠ .virtual ∧ p2.kind ≠ .virtual then some a1.neg else none
  | none => none

/-- an accepted two-posting transaction with simple amounts of one commodity: the postings
    that must balance sum to zero. -/
def C06.accepted2 (p1 p2 : PPost) (a1 a2 : Qty) : Prop :=
  (p1.kind ≠ .virtual ∧ p2.kind ≠ .virtual → a1.q + a2.q = 0) ∧
  (p1.kind ≠ .virtual ∧ p2.kind = .virtual → a1.q = 0) ∧
  (p1.kind = .virtual ∧ p2.kind ≠ .virtual → a2.q = 0)

/-- FULL statement (false for the pinned code): whenever print elides the second amount,
    re-reading infers exactly the original amount. -/
def C06.ElideSecondFull (L : Layout) : Prop :=
  ∀ (c : Codec), c.Lawful → ∀ (x : PXact) (p1 p2 : PPost) (a1 a2 : Qty),
    xactOk c x = true → x.posts = [p1, p2] → p1.amount = some a1 → p2.amount = some a2 →
    c.disp a1 = a1 → C06.accepted2 p1 p2 a1 a2 → elideSecond L x = true →
    ∃ q1 q2, (norm c L x).posts = [q1, q2] ∧ q2.amount = none ∧ C06.inferSecond q1 q2 = some a2

/-- witness: `(A)  10` / `(B)  5`: both simple, same commodity, neither must balance; print
    writes `(B)` without its amount and the text is not a valid journal. -/
def C06.wVirtual : PXact := C06.mkX 0 [C06.mkP "A" .virtual 0 10, C06.mkP "B" .virtual 0 5]

theorem C06.elide_second_amount_counterexample (mark pad : Bool) :
    ¬ C06.ElideSecondFull (C06.layoutWith mark false pad) := by
  intro h
  obtain ⟨q1, q2, hq, _, hinf⟩ := h toyCodec toyCodec_lawful C06.wVirtual
    (C06.mkP "A" .virtual 0 10) (C06.mkP "B" .virtual 0 5) { q := 10, comm := "" } { q := 5, comm := "" }
    (by decide +kernel) rfl rfl rfl (by decide +kernel)
    (by refine ⟨?_, ?_, ?_⟩ <;> (intro h; simp [C06.mkP] at h)) (by cases mark <;> cases pad <;> decide +kernel)
  have hn : ∀ L : Layout, elideSecond L C06.wVirtual = true →
      (norm toyCodec L C06.wVirtual).posts =
      [normPost toyAmt L 0 (accountWidth L C06.wVirtual) false (C06.mkP "A" .virtual 0 10),
       normPost toyAmt L 0 (accountWidth L C06.wVirtual) true (C06.mkP "B" .virtual 0 5)] := by
    intro L he
    have hf : elideFlags L C06.wVirtual = [false, true] := by
      have : elideFlags L C06.wVirtual = [false, elideSecond L C06.wVirtual] := rfl
      rw [this, he]
    have hn' : (norm toyCodec L C06.wVirtual).posts = (C06.wVirtual.posts.zip (elideFlags L C06.wVirtual)).map
        (fun pe => normPost toyCodec.toAmtCodec L C06.wVirtual.state (accountWidth L C06.wVirtual) pe.2 pe.1) := rfl
    rw [hn', hf]
    rfl
  rw [hn _ (by cases mark <;> cases pad <;> decide +kernel)] at hq
  simp only [List.cons.injEq, and_true] at hq
  obtain ⟨h1, h2⟩ := hq
  subst h1 h2
  simp [C06.inferSecond, normPost, C06.mkP] at hinf

theorem C06.elide_second_amount_source_counterexample (h : Gen.printElideChecksMustBalance = false) :
    ¬ C06.ElideSecondFull C06.sourceLayout := by
  unfold C06.sourceLayout
  rw [h]
  exact C06.elide_second_amount_counterexample _ _

/-- when both postings must balance (the guard print.cc 230-234 does not test), the elision is
    sound: the re-read transaction has the second amount missing and finalize infers exactly
    the original amount - same commodity, exact negation of the first. -/
theorem C06.elide_second_amount_sound_partial (c : Codec) (hc : c.Lawful) (L : Layout) (x : PXact)
    (p1 p2 : PPost) (a1 a2 : Qty)
    (hx : xactOk c x = true) (hps : x.posts = [p1, p2])
    (h1 : p1.amount = some a1) (h2 : p2.amount = some a2) (hex : c.disp a1 = a1)
    (hacc : C06.accepted2 p1 p2 a1 a2) (he : elideSecond L x = true)
    (hmb : p1.kind ≠ .virtual ∧ p2.kind ≠ .virtual) :
    ∃ q1 q2, (norm c L x).posts = [q1, q2] ∧ q2.amount = none ∧ C06.inferSecond q1 q2 = some a2 := by
  refine ⟨normPost c.toAmtCodec L x.state (accountWidth L x) false p1,
    normPost c.toAmtCodec L x.state (accountWidth L x) true p2, ?_, by simp [normPost], ?_⟩
  · simp [norm, elideFlags, hps, he]
  · have hcomm : a1.comm = a2.comm := by
      unfold elideSecond at he
      simp only [hps, h1, h2, Bool.and_eq_true, beq_iff_eq] at he
      exact he.1.2
    have hsum := hacc.1 hmb
    have hk1 : (normPost c.toAmtCodec L x.state (accountWidth L x) false p1).kind = p1.kind := rfl
    have hk2 : (normPost c.toAmtCodec L x.state (accountWidth L x) true p2).kind = p2.kind := rfl
    have ham : (normPost c.toAmtCodec L x.state (accountWidth L x) false p1).amount = some a1 := by
      simp [normPost, h1, hex]
    unfold C06.inferSecond
    rw [ham, hk1, hk2]
    simp only
    rw [if_pos hmb]
    simp only [Qty.neg]
    congr 1
    cases a2 with
    | mk q2 c2 =>
      simp only at hcomm hsum
      simp only [Qty.mk.injEq]
      exact ⟨by grind, hcomm⟩

/-- the full statement for the repaired rule (both postings must balance). -/
theorem C06.elide_second_amount_sound (L : Layout) (hL : L.elideChecksMustBalance = true) :
    C06.ElideSecondFull L := by
  intro c hc x p1 p2 a1 a2 hx hps h1 h2 hex hacc he
  apply C06.elide_second_amount_sound_partial c hc L x p1 p2 a1 a2 hx hps h1 h2 hex hacc he
  unfold elideSecond at he
  simp only [hps, hL, Bool.not_true, Bool.false_or, Bool.and_eq_true, decide_eq_true_eq] at he
  exact he.2

/-! ### the three repaired statements of print.cc are in the source

`tools/extract_print.py` recognises, in the working tree, which of two forms three statements of
print.cc have.  They were repaired (f798b3e, bf17db1, affa0b1); these obligations break as soon as
any of them regresses to the defective form, and the full statements below are then no longer
available for `C06.sourceLayout`. -/

/-- format_account_name writes a posting's state mark whenever it differs from the transaction's. -/
theorem C06.source_marks_when_state_differs : Gen.printMarkWhenStateDiffers = true := by decide

/-- print_xact elides the second amount only when both postings must balance. -/
theorem C06.source_elision_checks_must_balance : Gen.printElideChecksMustBalance = true := by decide

/-- print_xact writes the padding blanks only in front of an amount. -/
theorem C06.source_pads_only_with_amount : Gen.printPadsOnlyWithAmount = true := by decide

/-- hence, for what `ledger print` of the current source does: every posting keeps its state, -/
theorem C06.state_marks_source : C06.StateMarksFull C06.sourceLayout :=
  C06.state_marks _ C06.source_marks_when_state_differs

/-- an elided second amount is always re-inferred exactly, -/
theorem C06.elide_second_amount_sound_source : C06.ElideSecondFull C06.sourceLayout :=
  C06.elide_second_amount_sound _ C06.source_elision_checks_must_balance

/-- and printing the re-read transaction reproduces the text byte for byte. -/
theorem C06.render_fixpoint_source : C06.RenderFixpointFull C06.sourceLayout :=
  C06.render_fixpoint _ C06.source_pads_only_with_amount

/-! ### equity -/

/-- posts_as_equity: the Opening Balances transaction carries, for every account other than
    `Equity:Opening Balances` and every commodity, exactly the sum of the journal's postings -
    a fold identity over the posting list, any length, any order.  `zero` is the zero test
    used to drop entries; it must not drop a non-zero entry of the accumulated map. -/
theorem C06.equity_reproduces_balances (zero : Qty → Bool) (ps : List EPost)
    (hz : ∀ e ∈ collect ps, ∀ kq ∈ e.bal, zero { q := kq.2, comm := kq.1 } = true → kq.2 = 0)
    (a : Str) (k : Comm) (ha : a ≠ equityAccount) :
    balOfP (equityXact zero ps).posts a k = balOf ps a k :=
  Print.equity_balances zero ps hz a k ha

/-- in particular with an exact zero test. -/
theorem C06.equity_reproduces_balances_exact (ps : List EPost) (a : Str) (k : Comm) (ha : a ≠ equityAccount) :
    balOfP (equityXact (fun q => decide (q.q = 0)) ps).posts a k = balOf ps a k :=
  Print.equity_balances _ ps (by intro e _ kq _ h; simpa using h) a k ha

/-- `amount_t::is_zero` as equity uses it: zero at display precision. -/
def C06.dispZero (c : AmtCodec) : Qty → Bool := fun q => decide ((c.disp q).q = 0)

/-- FULL statement (false for the current code): the equity transaction, printed and read back,
    reproduces every account's exact per-commodity balance. -/
def C06.EquityThroughTextFull : Prop :=
  ∀ (c : Codec), c.Lawful → ∀ (L : Layout) (ps : List EPost),
    xactOk c (equityXact (C06.dispZero c.toAmtCodec) ps) = true →
    ∀ y, parseXactText c (renderXact c L (equityXact (C06.dispZero c.toAmtCodec) ps)) = .ok y →
    ∀ (a : Str) (k : Comm), a ≠ equityAccount → balOfP y.posts a k = balOf ps a k

/-- witness: an account holding 1/2 in a commodity displayed without decimals (in ledger: an
    elided amount computed from a cost with more decimals than the display precision). -/
def C06.wEquity : List EPost :=
  [{ account := "A".toList, virt := false, mustBal := false, amt := { q := (1 : Rat) / 2, comm := "" }, date := 3 },
   { account := "B".toList, virt := false, mustBal := false, amt := { q := -(1 : Rat) / 2, comm := "" }, date := 3 }]

theorem C06.equity_through_text_counterexample : ¬ C06.EquityThroughTextFull := by
  intro h
  have := h toyCodec toyCodec_lawful C06.sourceLayout C06.wEquity (by decide +kernel) _
    (Print.parse_render toyCodec toyCodec_lawful _ _ (by decide +kernel)) "A".toList "" (by decide)
  revert this
  decide +kernel

/-- through the text it holds when every accumulated balance is display-exact and the account
    asked about is not the one whose amount print elides (print elides the second amount of a
    two-posting Opening Balances transaction). -/
theorem C06.equity_through_text_partial (c : Codec) (hc : c.Lawful) (L : Layout) (ps : List EPost)
    (hx : xactOk c (equityXact (C06.dispZero c.toAmtCodec) ps) = true)
    (hexact : ∀ e ∈ collect ps, ∀ kq ∈ e.bal, c.disp { q := kq.2, comm := kq.1 } = { q := kq.2, comm := kq.1 })
    (hexactT : ∀ kq ∈ equityTotal (collect ps), c.disp { q := -kq.2, comm := kq.1 } = { q := -kq.2, comm := kq.1 })
    (a : Str) (k : Comm) (ha : a ≠ equityAccount)
    (hel : elidedAccount L (equityXact (C06.dispZero c.toAmtCodec) ps) ≠ some a) :
    ∀ y, parseXactText c (renderXact c L (equityXact (C06.dispZero c.toAmtCodec) ps)) = .ok y →
      balOfP y.posts a k = balOf ps a k := by
  intro y hy
  rw [Print.parse_render c hc L _ hx] at hy
  cases hy
  rw [balOfP_norm c L _ a k ?_ hel]
  · apply Print.equity_balances _ ps _ a k ha
    intro e he kq hkq hz
    have := hexact e he kq hkq
    simp only [C06.dispZero, decide_eq_true_eq] at hz
    rw [this] at hz
    exact hz
  · intro p hp q hq
    simp only [equityXact, List.mem_append] at hp
    rcases hp with hp | hp
    · obtain ⟨e, he, kq, hkq, hpa⟩ := acctPosts_amounts _ ps _ p hp
      rw [hpa] at hq
      cases hq
      exact hexact e he kq hkq
    · simp only [balancingPosts, List.mem_map, List.mem_filter] at hp
      obtain ⟨kq, ⟨hkq, _⟩, rfl⟩ := hp
      simp only [mkPost, Option.some.injEq] at hq
      subst hq
      exact hexactT kq hkq

/-! ### with ledger's own amount and date text layers (C04, C14)

`ledgerCodec env cur` prints amounts with `AmountText.printAmount` (amount_t::print) and reads them
with `AmountText.parseAmount` (amount_t::parse) for the commodity pool `env`, prints dates with
`DateParse.formatDate "%Y/%m/%d"` and reads them with `DateParse.parseDate`.  Its lawfulness is
proved from C04's and C14's round-trip theorems (Lemmas/PrintInst.lean), so for this text layer the
amount and date hypotheses are discharged; what remains in `xactOk` is decidable: free text
well-formed, every amount in `ledgerDom` (symbol admitted by C04's `SymOK`, number within
parse_quantity's buffer, printed text free of `;` `@` `=`, no negative display-zero), costs with
a finite decimal expansion, dates in the years 1400..9999. -/

theorem C06.ledger_text_layers_lawful (env : Comm → AmountText.CommInfo) (cur : Int × Int) :
    (ledgerCodec env cur).Lawful := ledgerCodec_lawful env cur

theorem C06.parse_render_ledger (env : Comm → AmountText.CommInfo) (cur : Int × Int) (L : Layout) (x : PXact)
    (hx : xactOk (ledgerCodec env cur) x = true) :
    parseXactText (ledgerCodec env cur) (renderXact (ledgerCodec env cur) L x) =
      .ok (norm (ledgerCodec env cur) L x) :=
  Print.parse_render _ (ledgerCodec_lawful env cur) L x hx

theorem C06.render_fixpoint_ledger_partial (env : Comm → AmountText.CommInfo) (cur : Int × Int) (L : Layout) (x : PXact)
    (hx : xactOk (ledgerCodec env cur) x = true) (hpad : trailingPad L x = false) :
    renderXact (ledgerCodec env cur) L (norm (ledgerCodec env cur) L x) = renderXact (ledgerCodec env cur) L x :=
  Print.render_fixpoint _ (ledgerCodec_lawful env cur) L x hx hpad

/-- a pool with `$` (prefix, thousands marks, 2 decimals) and `EUR` (suffix, separated, 2 decimals). -/
def C06.demoEnv : Comm → AmountText.CommInfo := fun k =>
  if k = "$" then { style := { thousands := true }, prec := 2 }
  else if k = "EUR" then { style := { suffixed := true, separated := true }, prec := 2 }
  else {}

/-- `2020/01/15=2020/01/20 * (c 1) Café Zoë  ; hn` with a cost, a virtual posting and an elided amount. -/
def C06.demoLedger : PXact :=
  { date := 18276, aux := some 18281, state := 1, code := some "c 1".toList, payee := "Café Zoë".toList,
    note := some { lines := [" hn".toList], nextLine := false },
    posts :=
      [{ account := "Expenses:Food".toList, kind := .real, state := 1,
         amount := some { q := 10, comm := "EUR" },
         cost := some { given := { q := 12345 / 1000, comm := "$" }, inFull := false }, assigned := none,
         note := some { lines := [" pn".toList], nextLine := false } },
       { account := "Budget".toList, kind := .virtual, state := 1, amount := some { q := -12345678 / 100, comm := "$" },
         cost := none, assigned := none, note := none },
       { account := "Assets:Cash".toList, kind := .real, state := 1, amount := none, cost := none,
         assigned := none, note := none }] }

example : xactOk (ledgerCodec C06.demoEnv (2020, 1)) C06.demoLedger = true := by decide +kernel

/-- what `ledger print` writes for it (checked against the binary by hand: same four lines). -/
example : renderXact (ledgerCodec C06.demoEnv (2020, 1)) C06.sourceLayout C06.demoLedger =
    ["2020/01/15=2020/01/20 * (c 1) Café Zoë  ; hn".toList,
     "    Expenses:Food                          10.00 EUR @ $1.2345  ; pn".toList,
     "    (Budget)                            $-123,456.78".toList,
     "    Assets:Cash".toList] := by decide +kernel

/-! ### non-vacuity: a concrete transaction with a cost, a virtual posting, posting states,
    notes on the transaction and on a posting, an aux date and a code satisfies the
    hypotheses; the theorems apply to it and their conclusions are checked by evaluation. -/

def C06.demo : PXact :=
  { date := 5, aux := some 7, state := 0, code := some "c 1".toList, payee := "Café Zoë".toList,
    note := some { lines := [" first".toList, " :tag:".toList], nextLine := true },
    posts :=
      [{ account := "Expenses:Food".toList, kind := .real, state := 1,
         amount := some { q := 10, comm := "" },
         cost := some { given := { q := 30, comm := "" }, inFull := false }, assigned := none,
         note := some { lines := [" pn".toList], nextLine := false } },
       { account := "Budget".toList, kind := .virtual, state := 2, amount := some { q := 3, comm := "" },
         cost := none, assigned := some { q := 4, comm := "" }, note := none },
       { account := "Assets:Cash".toList, kind := .real, state := 0, amount := none, cost := none,
         assigned := none, note := none }] }

example : xactOk toyCodec C06.demo = true := by decide +kernel

example : parseXactText toyCodec (renderXact toyCodec C06.sourceLayout C06.demo) =
    .ok (norm toyCodec C06.sourceLayout C06.demo) :=
  C06.parse_render toyCodec toyCodec_lawful _ _ (by decide +kernel)

example : (renderXact toyCodec C06.sourceLayout C06.demo).length = 6 := by decide +kernel

example : trailingPad C06.sourceLayout C06.demo = false := by decide +kernel

example : renderXact toyCodec C06.sourceLayout (norm toyCodec C06.sourceLayout C06.demo) =
    renderXact toyCodec C06.sourceLayout C06.demo :=
  C06.render_fixpoint_partial toyCodec toyCodec_lawful _ _ (by decide +kernel) (by decide +kernel)

/-- the guards of the partial theorems fail exactly on the witnesses. -/
example : trailingPad (C06.layoutWith false false false) C06.wPad = true := by decide +kernel
example : ¬ (C06.wState.state = 0 ∨ ∀ p ∈ C06.wState.posts, p.state = C06.wState.state) := by decide +kernel
example : elideSecond (C06.layoutWith false false false) C06.wVirtual = true := by decide +kernel

/-- a balanced two-posting transaction: the elision applies and is sound. -/
def C06.demo2 : PXact := C06.mkX 1 [C06.mkP "A" .real 1 10, C06.mkP "B" .bvirtual 1 (-10)]

example : ∃ q1 q2, (norm toyCodec C06.sourceLayout C06.demo2).posts = [q1, q2] ∧ q2.amount = none ∧
    C06.inferSecond q1 q2 = some { q := -10, comm := "" } :=
  C06.elide_second_amount_sound_partial toyCodec toyCodec_lawful _ C06.demo2 _ _ { q := 10, comm := "" } _
    (by decide +kernel) rfl rfl rfl (by decide +kernel)
    (by refine ⟨fun _ => by decide +kernel, ?_, ?_⟩ <;> (intro h; simp [C06.mkP] at h))
    (by decide +kernel) (by simp [C06.mkP])

example : (1 : Rat) ≠ 0 ∧ (0 : Rat) ≤ 3 := by decide +kernel

/-- equity over a journal with three accounts, one of them (virtual) only. -/
def C06.demoPosts : List EPost :=
  [{ account := "B".toList, virt := false, mustBal := false, amt := { q := -5, comm := "" }, date := 3 },
   { account := "A".toList, virt := false, mustBal := false, amt := { q := 5, comm := "" }, date := 3 },
   { account := "A".toList, virt := false, mustBal := false, amt := { q := 2, comm := "" }, date := 4 },
   { account := "C".toList, virt := true, mustBal := false, amt := { q := 7, comm := "" }, date := 2 }]

example : balOfP (equityXact (fun q => decide (q.q = 0)) C06.demoPosts).posts "A".toList "" = 7 ∧
    (equityXact (fun q => decide (q.q = 0)) C06.demoPosts).posts.length = 4 ∧
    (equityXact (fun q => decide (q.q = 0)) C06.demoPosts).date = 4 := by decide +kernel

end Ledger
