/-
C07 — filters select exactly the matching postings and never alter them.

Model: Model/Query.lean (predicate trees, `evalPred`, `filterPosts`, printing,
the report.h option templates) and Model/QueryParse.lean (query.cc lexer and
parser over an argument list, query trees and their canonical rendering).
boost::regex is the parameter `m : Matcher`; the value-expression parser that
`expr TEXT` hands its text to is the parameter `exprOf`.  Every theorem is for
all matchers, all predicates / query trees and all posting lists.

An evaluation error (value.cc "Cannot compare …") aborts a report at the
posting where it occurs; `filterPosts` returns the rows already passed on and
the error.  `filter_partition` and `error_aborts_both` state that case
explicitly; the multiset laws for `&`/`|` are stated where evaluation succeeds
(`NoErr`), which `welltyped_total` shows is the whole fragment of well-typed
comparisons.

Tie to the source: the `*_pinned` theorems (tables and function bodies
re-extracted from query.cc, report.h, report.cc, chain.cc, filters.h, op.cc,
item.cc, post.cc on every run), `begin_end_split` stated over the generated
templates, and the differential check tools/props/c07.py.
-/
import LedgerModel.Lemmas.Query
import LedgerModel.Lemmas.QueryParse
import LedgerModel.Model.QueryKeywordsPinned
import LedgerModel.Model.BeginEndPinned
import LedgerModel.Model.QueryFnsPinned
import LedgerModel.Gen.QueryFns

namespace Ledger
open Query

/-! ### the source is the one the model was written against -/

/-- query.cc lexer tables (single-character tokens, `=` rule, quotes, identifier
    stops, keyword chain, `expr` consuming the next argument). -/
theorem C07.lexer_tables_pinned :
    (Gen.queryQuoteChars, Gen.queryWhitespace, Gen.queryIdentWhitespace, Gen.queryCharTokens,
     Gen.queryEqTokens, Gen.queryIdentStops, Gen.queryKeywords, Gen.queryNextArgKeywords) =
    (Pinned.queryQuoteChars, Pinned.queryWhitespace, Pinned.queryIdentWhitespace, Pinned.queryCharTokens,
     Pinned.queryEqTokens, Pinned.queryIdentStops, Pinned.queryKeywords, Pinned.queryNextArgKeywords) := rfl

/-- query.cc parser shape: `or` loops over `and` loops over unary over term,
    juxtaposition builds O_OR, context identifiers, section keywords. -/
theorem C07.grammar_pinned :
    (Gen.queryLadder, Gen.queryJuxtaposition, Gen.queryContextIdents, Gen.queryMetaFunction,
     Gen.queryContextTokens, Gen.queryStopTokens, Gen.querySections) =
    (Pinned.queryLadder, Pinned.queryJuxtaposition, Pinned.queryContextIdents, Pinned.queryMetaFunction,
     Pinned.queryContextTokens, Pinned.queryStopTokens, Pinned.querySections) := rfl

/-- report.h / report.cc option templates, `--limit` combination, chain.cc filter
    stages, filters.h pass-through shape. -/
theorem C07.begin_end_pinned :
    (Gen.beginPredicate, Gen.endPredicate, Gen.periodBeginPredicate, Gen.periodEndPredicate,
     Gen.limitOptions, Gen.limitCombine, Gen.filterStages, Gen.filterPostsPassesUnchanged) =
    (Pinned.beginPredicate, Pinned.endPredicate, Pinned.periodBeginPredicate, Pinned.periodEndPredicate,
     Pinned.limitOptions, Pinned.limitCombine, Pinned.filterStages, Pinned.filterPostsPassesUnchanged) := rfl

/-- normalised bodies of the C++ functions the model mirrors. -/
theorem C07.query_fns_pinned : Gen.queryFns = Pinned.queryFns := rfl

/-! ### filters only select -/

/-- `--limit P` and `--limit 'not P'`: the two runs fail or succeed together
    (with the same error); the rows they pass on are together a permutation of
    the postings looked at before the abort — of all postings when nothing
    fails —; no posting is in both; and each output is a sub-list of the input
    (same postings, same order, nothing altered or invented). -/
theorem C07.filter_partition (m : Matcher) (p : Pred) (ps : List PostCtx) :
    (filterPosts m p ps).2 = (filterPosts m (.not p) ps).2 ∧
    ((filterPosts m p ps).1 ++ (filterPosts m (.not p) ps).1).Perm (processed m p ps) ∧
    ((filterPosts m p ps).2 = none →
      ((filterPosts m p ps).1 ++ (filterPosts m (.not p) ps).1).Perm ps) ∧
    (∀ c, c ∈ (filterPosts m p ps).1 → c ∉ (filterPosts m (.not p) ps).1) ∧
    (filterPosts m p ps).1.Sublist ps ∧ (filterPosts m (.not p) ps).1.Sublist ps := by
  simp only [filterPosts_eq, processed_not, firstErr_not]
  have hperm : ((processed m p ps).filter (holds m p) ++ (processed m p ps).filter (holds m (.not p))).Perm
      (processed m p ps) :=
    filter_compl_perm _ _ _ (fun c hc => by
      obtain ⟨b, hb⟩ := processed_ok m p ps c hc
      exact holds_not_of_ok hb)
  refine ⟨trivial, hperm, ?_, ?_, ?_, ?_⟩
  · intro h
    have := (processed_of_noErr (noErr_of_firstErr h)).1
    rw [this] at hperm ⊢
    exact hperm
  · intro c hc hc'
    have h1 := (List.mem_filter.mp hc).2
    have h2 := (List.mem_filter.mp hc').2
    rw [holds_not] at h2
    simp only [holds, decide_eq_true_eq] at h1 h2
    rw [h1] at h2; cases h2
  · exact List.filter_sublist.trans (processed_sublist m p ps)
  · exact List.filter_sublist.trans (processed_sublist m p ps)

/-- The error case, stated on its own: a predicate whose evaluation fails on
    some posting aborts the run under `P` and the run under `not P` at the same
    posting with the same error. -/
theorem C07.error_aborts_both (m : Matcher) (p : Pred) (ps : List PostCtx) :
    (filterPosts m p ps).2 = (filterPosts m (.not p) ps).2 ∧
    processed m p ps = processed m (.not p) ps ∧
    ((filterPosts m p ps).2 = none ↔ NoErr m p ps) := by
  simp only [filterPosts_eq, processed_not, firstErr_not, true_and]
  exact ⟨noErr_of_firstErr, fun h => (processed_of_noErr h).2⟩

/-- Without an evaluation error the filter is `List.filter`. -/
theorem C07.filter_is_selection (m : Matcher) (p : Pred) (ps : List PostCtx) (h : NoErr m p ps) :
    filterPosts m p ps = (ps.filter (holds m p), none) := filterPosts_of_noErr h

/-- Well-typed predicates (amount against an amount literal, date against a date
    literal, any matches / tags / flags, any nesting) never fail to evaluate. -/
theorem C07.welltyped_total (m : Matcher) (p : Pred) (hw : p.wellTyped = true) (c : PostCtx) :
    ∃ b, evalPred m p c = .ok b := by
  induction p with
  | matchF f pat => exact ⟨_, rfl⟩
  | hasTag t v => exact ⟨_, rfl⟩
  | flag f => exact ⟨_, rfl⟩
  | cmp s op rhs =>
    cases s <;> cases rhs <;> simp only [Pred.wellTyped, Bool.false_eq_true] at hw
    · rename_i a
      simp only [evalPred, cmpValues]
      have hcmp : ∀ x y : Amount, ¬ (x.hasComm = true ∧ y.hasComm = true ∧ x.comm ≠ y.comm) →
          ∃ o, Amount.cmp x y = .ok o := by
        intro x y h; unfold Amount.cmp; rw [if_neg h]; exact ⟨_, rfl⟩
      have key : ∀ v : Value, (v = c.amount) → ∀ w : Value, w = .amt a →
          (∃ b, liftVal (Value.lt v w) = .ok b) ∧ (∃ b, liftVal (Value.lt w v) = .ok b) ∧
          (∃ b, liftVal (Value.eq v w) = .ok b) := by
        intro v hv w hw'
        subst hw'
        unfold PostCtx.amount at hv
        cases hpa : c.post.amount with
        | none =>
          simp only [hpa] at hv; subst hv
          refine ⟨?_, ?_, ?_⟩
          · obtain ⟨o, ho⟩ := hcmp a (Amount.ofInt 0) (by simp [Amount.ofInt, Amount.hasComm])
            simp [Value.lt, ho, liftVal, Except.map]
          · obtain ⟨o, ho⟩ := hcmp a (Amount.ofInt 0) (by simp [Amount.ofInt, Amount.hasComm])
            simp [Value.lt, ho, liftVal, Except.map]
          · simp [Value.eq, liftVal]
        | some x =>
          simp only [hpa] at hv; subst hv
          refine ⟨?_, ?_, ?_⟩
          · simp only [Value.lt]
            split
            · rename_i hc
              obtain ⟨o, ho⟩ := hcmp x a (by
                rintro ⟨h1, h2, h3⟩
                rcases hc with hc | hc | hc
                · exact h3 hc
                · exact hc h1
                · exact hc h2)
              simp [ho, liftVal, Except.map]
            · simp [liftVal]
          · simp only [Value.lt]
            split
            · rename_i hc
              obtain ⟨o, ho⟩ := hcmp a x (by
                rintro ⟨h1, h2, h3⟩
                rcases hc with hc | hc | hc
                · exact h3 hc
                · exact hc h1
                · exact hc h2)
              simp [ho, liftVal, Except.map]
            · simp [liftVal]
          · simp [Value.eq, liftVal]
      obtain ⟨⟨b1, h1⟩, ⟨b2, h2⟩, ⟨b3, h3⟩⟩ := key c.amount rfl (.amt a) rfl
      have lm : ∀ r : Res Bool, (∃ b, liftVal r = .ok b) → ∃ b, liftVal (r.map (!·)) = .ok b := by
        intro r ⟨b, hb⟩
        cases r with
        | ok v => exact ⟨!v, by simp [liftVal, Except.map]⟩
        | error e => simp [liftVal] at hb
      cases op
      · exact ⟨b3, by simpa [cmpVal] using h3⟩
      · exact ⟨b1, by simpa [cmpVal] using h1⟩
      · simpa [cmpVal, Value.le] using lm _ ⟨b2, h2⟩
      · exact ⟨b2, by simpa [cmpVal, Value.gt] using h2⟩
      · simpa [cmpVal, Value.ge] using lm _ ⟨b1, h1⟩
    · simp [evalPred, cmpValues]
  | not p ih =>
    obtain ⟨b, hb⟩ := ih hw
    exact ⟨!b, by simp [evalPred, hb]⟩
  | and p q ihp ihq =>
    simp only [Pred.wellTyped, Bool.and_eq_true] at hw
    obtain ⟨b, hb⟩ := ihp hw.1
    obtain ⟨b', hb'⟩ := ihq hw.2
    cases b <;> simp [evalPred, hb, hb']
  | or p q ihp ihq =>
    simp only [Pred.wellTyped, Bool.and_eq_true] at hw
    obtain ⟨b, hb⟩ := ihp hw.1
    obtain ⟨b', hb'⟩ := ihq hw.2
    cases b <;> simp [evalPred, hb, hb']

/-- `P and Q` selects the intersection: it is filtering by `Q` what filtering by
    `P` kept (which is also what `--limit P --limit Q` does, report.h 748-753);
    as multisets, every posting occurs `min` of its two multiplicities; a
    posting is kept iff both keep it. -/
theorem C07.filter_and (m : Matcher) (p q : Pred) (ps : List PostCtx)
    (hp : NoErr m p ps) (hq : NoErr m q ps) :
    filterPosts m (.and p q) ps = ((filterPosts m q (filterPosts m p ps).1).1, none) ∧
    (∀ c, (filterPosts m (.and p q) ps).1.count c =
          min ((filterPosts m p ps).1.count c) ((filterPosts m q ps).1.count c)) ∧
    (∀ c, c ∈ (filterPosts m (.and p q) ps).1 ↔
          c ∈ (filterPosts m p ps).1 ∧ c ∈ (filterPosts m q ps).1) := by
  have hq' : NoErr m q (ps.filter (holds m p)) := fun c hc => hq c (List.mem_filter.mp hc).1
  have e : ps.filter (holds m (.and p q)) = ps.filter (fun c => holds m p c && holds m q c) :=
    filter_congr_mem _ _ _ (fun c hc => by
      obtain ⟨b, hb⟩ := hp c hc
      obtain ⟨b', hb'⟩ := hq c hc
      exact holds_and_of_ok hb hb')
  rw [filterPosts_of_noErr (noErr_and hp hq), filterPosts_of_noErr hp, filterPosts_of_noErr hq,
    filterPosts_of_noErr hq', e]
  refine ⟨?_, ?_, ?_⟩
  · simp only [List.filter_filter]
    congr 1
    exact filter_congr_mem _ _ _ (fun c _ => Bool.and_comm _ _)
  · intro c
    simp only [count_filter_eq]
    cases holds m p c <;> cases holds m q c <;> simp
  · intro c
    simp only [List.mem_filter, Bool.and_eq_true]
    exact ⟨fun ⟨h, a, b⟩ => ⟨⟨h, a⟩, h, b⟩, fun ⟨⟨h, a⟩, _, b⟩ => ⟨h, a, b⟩⟩

/-- `P or Q` selects the union: multiplicities are the `max`; together with the
    intersection it accounts for exactly the rows of the two single runs; a
    posting is kept iff one of them keeps it. -/
theorem C07.filter_or (m : Matcher) (p q : Pred) (ps : List PostCtx)
    (hp : NoErr m p ps) (hq : NoErr m q ps) :
    (filterPosts m (.or p q) ps).2 = none ∧
    (∀ c, (filterPosts m (.or p q) ps).1.count c =
          max ((filterPosts m p ps).1.count c) ((filterPosts m q ps).1.count c)) ∧
    ((filterPosts m (.or p q) ps).1 ++ (filterPosts m (.and p q) ps).1).Perm
      ((filterPosts m p ps).1 ++ (filterPosts m q ps).1) ∧
    (∀ c, c ∈ (filterPosts m (.or p q) ps).1 ↔
          c ∈ (filterPosts m p ps).1 ∨ c ∈ (filterPosts m q ps).1) := by
  have e : ps.filter (holds m (.or p q)) = ps.filter (fun c => holds m p c || holds m q c) :=
    filter_congr_mem _ _ _ (fun c hc => by
      obtain ⟨b, hb⟩ := hp c hc
      obtain ⟨b', hb'⟩ := hq c hc
      exact holds_or_of_ok hb hb')
  have e' : ps.filter (holds m (.and p q)) = ps.filter (fun c => holds m p c && holds m q c) :=
    filter_congr_mem _ _ _ (fun c hc => by
      obtain ⟨b, hb⟩ := hp c hc
      obtain ⟨b', hb'⟩ := hq c hc
      exact holds_and_of_ok hb hb')
  rw [filterPosts_of_noErr (noErr_or hp hq), filterPosts_of_noErr (noErr_and hp hq),
    filterPosts_of_noErr hp, filterPosts_of_noErr hq, e, e']
  refine ⟨rfl, ?_, filter_or_and_perm _ _ _, ?_⟩
  · intro c
    simp only [count_filter_eq]
    cases holds m p c <;> cases holds m q c <;> simp
  · intro c
    simp only [List.mem_filter, Bool.or_eq_true]
    exact ⟨fun ⟨h, ab⟩ => ab.elim (fun a => Or.inl ⟨h, a⟩) (fun b => Or.inr ⟨h, b⟩),
           fun h => h.elim (fun ⟨h, a⟩ => ⟨h, Or.inl a⟩) (fun ⟨h, b⟩ => ⟨h, Or.inr b⟩)⟩

/-- a double negation filters like the predicate itself (errors included). -/
theorem C07.filter_not_not (m : Matcher) (p : Pred) (ps : List PostCtx) :
    filterPosts m (.not (.not p)) ps = filterPosts m p ps := by
  have h : ∀ c, evalPred m (.not (.not p)) c = evalPred m p c := by
    intro c
    simp only [evalPred_not]
    cases evalPred m p c with
    | ok b => simp
    | error e => rfl
  induction ps with
  | nil => rfl
  | cons c cs ih => simp only [filterPosts, h, ih]

/-! ### command-line queries -/

/-- The predicate tree built for a query tree evaluates, on every posting, to the
    query's meaning (patterns against the field of their context, `%` for tags,
    juxtaposition and `or` as alternatives, `and`, `not`), in every ambient
    context and for every expression parser. -/
theorem C07.query_expr_equiv (m : Matcher) (exprOf : String → Option Pred) (q : Q) (ctx : Ctx) (c : PostCtx) :
    (q.toPred exprOf ctx).map (fun p => evalPred m p c) = q.eval m exprOf ctx c := by
  induction q generalizing ctx with
  | term pat => cases ctx <;> simp [Q.toPred, Q.eval, evalPred, PostCtx.field]
  | tag n v => simp [Q.toPred, Q.eval, evalPred]
  | expr t => simp [Q.toPred, Q.eval]
  | ctx k q ih => simpa [Q.toPred, Q.eval] using ih k.toCtx
  | not q ih =>
    simp only [Q.toPred, Q.eval, ← ih ctx, Option.map_map]
    cases q.toPred exprOf ctx with
    | none => rfl
    | some P =>
      simp only [Option.map_some, Function.comp, evalPred_not]
      cases evalPred m P c <;> rfl
  | and a b iha ihb =>
    simp only [Q.toPred, Q.eval, ← iha ctx, ← ihb ctx]
    cases a.toPred exprOf ctx <;> cases b.toPred exprOf ctx <;> simp [evalPred]
    rename_i Pa Pb
    cases evalPred m Pa c with
    | error e => rfl
    | ok v => cases v <;> rfl
  | or a b iha ihb =>
    simp only [Q.toPred, Q.eval, ← iha ctx, ← ihb ctx]
    cases a.toPred exprOf ctx <;> cases b.toPred exprOf ctx <;> simp [evalPred]
    rename_i Pa Pb
    cases evalPred m Pa c with
    | error e => rfl
    | ok v => cases v <;> rfl
  | juxt a b iha ihb =>
    simp only [Q.toPred, Q.eval, ← iha ctx, ← ihb ctx]
    cases a.toPred exprOf ctx <;> cases b.toPred exprOf ctx <;> simp [evalPred]
    rename_i Pa Pb
    cases evalPred m Pa c with
    | error e => rfl
    | ok v => cases v <;> rfl

/-- Parsing the canonical command-line rendering of a query tree (fewest
    parentheses; `and` over `or` over juxtaposition; operators associate to the
    left; `not` and the context prefixes `@ # = %` take a term) returns exactly
    the tree's predicate — for every tree whose patterns are plain words and
    whose `expr` texts parse. -/
theorem C07.query_parse_print (exprOf : String → Option Pred) (q : Q) (hw : q.wf exprOf = true) :
    Query.parse exprOf (q.args 0) = .ok (q.toPred exprOf .account) ∧
    (q.toPred exprOf .account).isSome = true := by
  obtain ⟨P, hP⟩ := toPred_isSome exprOf q hw .account (by simp)
  simp [Query.parse, parseAll_canonical exprOf q hw P hP, hP]

/-- The canonical token stream parses to the tree at every binding strength
    (the precedence and associativity facts behind `query_parse_print`):
    rendered as a term it is one term; rendered at strength 0 it is the whole
    juxtaposition. -/
theorem C07.query_tokens_parse (exprOf : String → Option Pred) (q : Q) (ctx : Ctx) (P : Pred)
    (hP : q.toPred exprOf ctx = some P) (rest : List Tok) (hr : Follow0 rest) :
    parseTerm exprOf ctx (q.toks 4 ++ rest) = .ok (some P, rest) ∧
    parseUnary exprOf ctx (q.toks 3 ++ rest) = .ok (some P, rest) ∧
    parseAnd exprOf ctx (q.toks 2 ++ rest) = .ok (some P, rest) ∧
    parseOr exprOf ctx (q.toks 1 ++ rest) = .ok (some P, rest) := by
  obtain ⟨h4, h3, h2, h1, _⟩ := toks_spec exprOf q ctx P hP
  refine ⟨h4 rest hr.to1.to2, h3 rest hr.to1.to2, ?_, ?_⟩
  · rw [h2 rest hr.to1.to2, andLoop_stop exprOf ctx P rest hr.to1]
  · rw [h1 rest hr.to1, orLoop_stop exprOf ctx P rest hr]

/-! ### --begin / --end and the state / kind options -/

/-- `--begin D` keeps exactly the postings dated on or after `D`, `--end D`
    exactly those dated before `D` (neither can fail); together they are a
    permutation of the journal's postings and no posting is in both — for every
    `D` and every posting list, over the templates currently in report.h. -/
theorem C07.begin_end_split (m : Matcher) (d : Int) (ps : List PostCtx) :
    ∃ b e, beginPred d = some b ∧ endPred d = some e ∧
      filterPosts m b ps = (ps.filter (fun c => decide (d ≤ c.date)), none) ∧
      filterPosts m e ps = (ps.filter (fun c => decide (c.date < d)), none) ∧
      ((filterPosts m b ps).1 ++ (filterPosts m e ps).1).Perm ps ∧
      (∀ c, c ∈ (filterPosts m b ps).1 → c ∉ (filterPosts m e ps).1) := by
  refine ⟨.cmp .date .ge (.date d), .cmp .date .lt (.date d), rfl, rfl, ?_⟩
  have nb : NoErr m (.cmp .date .ge (.date d)) ps := fun c _ => by simp [evalPred, cmpValues]
  have ne : NoErr m (.cmp .date .lt (.date d)) ps := fun c _ => by simp [evalPred, cmpValues]
  have hb : ∀ c, holds m (.cmp .date .ge (.date d)) c = decide (d ≤ c.date) := by
    intro c; simp [holds, evalPred, cmpValues, cmpDate]
  have he : ∀ c, holds m (.cmp .date .lt (.date d)) c = decide (c.date < d) := by
    intro c; simp [holds, evalPred, cmpValues, cmpDate]
  rw [filterPosts_of_noErr nb, filterPosts_of_noErr ne]
  have e1 : ps.filter (holds m (.cmp .date .ge (.date d))) = ps.filter (fun c => decide (d ≤ c.date)) :=
    filter_congr_mem _ _ _ (fun c _ => hb c)
  have e2 : ps.filter (holds m (.cmp .date .lt (.date d))) = ps.filter (fun c => decide (c.date < d)) :=
    filter_congr_mem _ _ _ (fun c _ => he c)
  rw [e1, e2]
  refine ⟨rfl, rfl, ?_, ?_⟩
  · exact filter_compl_perm _ _ _ (fun c _ => by
      by_cases h : d ≤ c.date
      · have : ¬ c.date < d := by omega
        simp [h, this]
      · have : c.date < d := by omega
        simp [h, this])
  · intro c h1 h2
    have a1 := (List.mem_filter.mp h1).2
    have a2 := (List.mem_filter.mp h2).2
    simp only [decide_eq_true_eq] at a1 a2
    omega

/-- `--real` and a `virtual` limit, `--cleared` and `--uncleared` (which report.h
    expands to `uncleared|pending`) each split the postings in two (states are
    0, 1 or 2). -/
theorem C07.option_splits (m : Matcher) (ps : List PostCtx) (hs : ∀ c ∈ ps, c.state ≤ 2) :
    ∃ r cl un, optionPred "real" = some r ∧ optionPred "cleared" = some cl ∧ optionPred "uncleared" = some un ∧
      ((filterPosts m r ps).1 ++ (filterPosts m (.flag .virtual) ps).1).Perm ps ∧
      ((filterPosts m cl ps).1 ++ (filterPosts m un ps).1).Perm ps ∧
      (∀ c, c ∈ (filterPosts m cl ps).1 → c ∉ (filterPosts m un ps).1) := by
  refine ⟨.flag .real, .flag .cleared, .or (.flag .uncleared) (.flag .pending), by decide, by decide, by decide, ?_⟩
  have n1 : ∀ f, NoErr m (.flag f) ps := fun f c _ => ⟨_, rfl⟩
  have n2 : NoErr m (.or (.flag .uncleared) (.flag .pending)) ps := noErr_or (n1 _) (n1 _)
  rw [filterPosts_of_noErr (n1 .real), filterPosts_of_noErr (n1 .virtual), filterPosts_of_noErr (n1 .cleared),
    filterPosts_of_noErr n2]
  have hun : ∀ c ∈ ps, holds m (.or (.flag .uncleared) (.flag .pending)) c = !holds m (.flag .cleared) c := by
    intro c hc
    simp only [holds, evalPred, PostCtx.flag]
    have h3 : c.state = 0 ∨ c.state = 1 ∨ c.state = 2 :=
      (fun (n : Nat) (h : n ≤ 2) => (by omega : n = 0 ∨ n = 1 ∨ n = 2)) c.state (hs c hc)
    rcases h3 with h | h | h <;> simp [h]
  refine ⟨?_, ?_, ?_⟩
  · exact filter_compl_perm _ _ _ (fun c _ => by
      simp only [holds, evalPred, PostCtx.flag]
      by_cases h : c.isVirtual = true <;> simp [h])
  · exact filter_compl_perm _ _ _ hun
  · intro c h1 h2
    have a1 := (List.mem_filter.mp h1)
    have a2 := (List.mem_filter.mp h2).2
    rw [hun c a1.1, a1.2] at a2
    cases a2

/-- a second `--limit` (and command-line query terms after a `--limit`) is and-ed
    to the first (report.h 748-753): filtering by the combination is filtering
    twice. -/
theorem C07.limit_twice (m : Matcher) (p q : Pred) (ps : List PostCtx)
    (hp : NoErr m p ps) (hq : NoErr m q ps) :
    ∃ pq, combinePred p q = some pq ∧
      filterPosts m pq ps = ((filterPosts m q (filterPosts m p ps).1).1, none) :=
  ⟨.and p q, by unfold combinePred; rw [if_pos (by decide)], (C07.filter_and m p q ps hp hq).1⟩

/-! ### non-vacuity -/

namespace C07ex

def exPost (acct : String) (line : Nat) (st : Nat) (k : PostKind) (q : Rat) : Posting :=
  { account := acct, kind := k, state := st, amount := some ⟨q, 2, false, "EUR"⟩, cost := none,
    assert := none, note := "", line := line }

def exXact (d : Int) (payee code : String) (st : Nat) : Xact :=
  { date := d, aux := none, state := st, code := code, payee := payee, note := "", posts := [], line := 1, endLine := 3 }

def exPs : List PostCtx :=
  [ { post := exPost "Assets:Cash" 2 0 .real 10, xact := exXact 100 "shop" "c1" 1 },
    { post := exPost "Expenses:Food" 3 2 .virtual (-10), xact := exXact 100 "shop" "c1" 1 },
    { post := exPost "Assets:Bank" 6 0 .real 5, xact := exXact 200 "work" "" 0, tags := [("tg", some "v1")] } ]

/-- case-insensitive substring search (what the checks run the model with). -/
def exMatch : Matcher := substrMatcher

-- a predicate that selects a proper non-empty subset, and its complement
example : ((filterPosts exMatch (.matchF .account "Assets") exPs).1.map (·.post.line),
           (filterPosts exMatch (.not (.matchF .account "Assets")) exPs).1.map (·.post.line)) = ([2, 6], [3]) := by
  decide +kernel

-- and / or
example : (filterPosts exMatch (.and (.matchF .account "Assets") (.flag .cleared)) exPs).1.map (·.post.line) = [2] := by
  decide +kernel
example : (filterPosts exMatch (.or (.matchF .payee "work") (.flag .pending)) exPs).1.map (·.post.line) = [3, 6] := by
  decide +kernel

-- an evaluation error aborts both runs after the same rows were looked at
example : (filterPosts exMatch (.or (.flag .real) (.cmp .date .gt (.amt ⟨5, 0, false, ""⟩))) exPs).2 = some .cannotCompare ∧
          (filterPosts exMatch (.not (.or (.flag .real) (.cmp .date .gt (.amt ⟨5, 0, false, ""⟩)))) exPs).2 = some .cannotCompare ∧
          ((filterPosts exMatch (.or (.flag .real) (.cmp .date .gt (.amt ⟨5, 0, false, ""⟩))) exPs).1.map (·.post.line)) = [2] := by
  decide +kernel

-- the hypotheses of filter_and / filter_or hold on a non-trivial list
example : NoErr exMatch (.cmp .amount .gt (.amt ⟨6, 0, false, "EUR"⟩)) exPs :=
  fun c _ => C07.welltyped_total exMatch _ rfl c

-- --begin / --end at a boundary date: the posting dated exactly D is on the begin side
example : ((exPs.filter (fun c => decide ((200 : Int) ≤ c.date))).map (·.post.line),
           (exPs.filter (fun c => decide (c.date < (200 : Int)))).map (·.post.line)) = ([6], [2, 3]) := by
  decide +kernel

def exExpr (s : String) : Option Pred :=
  if s = "amount > 6 EUR" then some (.cmp .amount .gt (.amt ⟨6, 0, false, "EUR"⟩)) else none

def exQ : Q := .and (.juxt (.term "Assets") (.ctx .payee (.term "work")))
                    (.not (.or (.tag "tg" (some "v1")) (.expr "amount > 6 EUR")))

example : exQ.wf exExpr = true := by decide +kernel
example : exQ.args 0 = ["(", "Assets", "@", "work", ")", "and", "not", "(", "%tg=v1", "or", "expr", "amount > 6 EUR", ")"] := by
  decide +kernel
example : (exQ.toPred exExpr .account).map render =
    some "(((account =~ /Assets/) | (payee =~ /work/)) & (! (has_tag(((/tg/, /v1/))) | (amount > {6 EUR}))))" := by
  decide +kernel

-- precedence: `a b or c and d` is a | (b | (c & d))
example : (Q.juxt (.term "a") (.or (.term "b") (.and (.term "c") (.term "d")))).args 0 = ["a", "b", "or", "c", "and", "d"] := by
  decide +kernel

end C07ex

end Ledger
