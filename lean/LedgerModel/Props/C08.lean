/-
C08 — aggregate reports do not depend on input order or file layout.

Model: Model/OrderFree.lean (`OF.load`: fold of the directive step; `OF.loadFile`: the
same over a virtual file tree with include directives; `OF.ownBalance`,
`OF.familyBalance`: `balance_t +=` over an account's postings; `OF.sortByDate`:
the stable date sort of the register; `OF.Pool`: learned commodity styles).

The fragment is the decidable predicate `OF.orderFree` (only plain transactions —
no assertion/assignment, automated transaction, apply/alias/bucket/year
directive — and `OF.styleConsistent` amounts).  All theorems quantify over ALL
journals of the fragment and ALL permutations (`List.Perm`); nothing is bounded.

Two hypotheses are forced by the code and are shown necessary on concrete
witnesses that the check replays on the real binary (they are documented excluded
points of the property's "order-free fragment", not findings):

* `styleConsistent` — amount parsing consults the DECIMAL_COMMA flag learned so
  far (amount.cc 1107-1172): `C08.style_guard_needed`;
* `exactlyBalanced` (only for the ACCEPTANCE statement) — `finalize` tests the
  balance at the display precision learned so far (xact.cc 377, amount.cc
  832-865): `C08.accept_order_dependent`; the full statement
  `C08.LoadPermAcceptedFull` is kept visible and refuted, the guarded one is
  `C08.load_perm_accepted_partial`.  Equality of balances needs no such guard
  (`C08.load_perm_balances`: whenever both orders are accepted).

Rows of the register are compared as denotations (sums per date, account and
commodity): a cancelled commodity kept as a zero entry by `balance_t +=` makes the
PRESENCE of a zero-amount generated row depend on the posting order (known finding
C08:zero-row:balance-keeps-zero-entry, root cause C03:zero-entry-balance), which a
sum does not see.
-/
import LedgerModel.Lemmas.OrderFree
import LedgerModel.Gen.OrderFree
import LedgerModel.Model.OrderFreePinned

namespace Ledger
open OF

/-! ### Tie to the source -/

/-- The C++ this model mirrors (include_directive, add_xact, add_post, amount_t::parse,
    finalize, sort_posts, sorted_amounts, assign_glob, …) is the text it was written against. -/
theorem C08.source_pinned : Gen.orderFreeFns = Pinned.orderFreeFns := rfl

/-- include_directive visits the matched files in sorted order (textual.cc 789-795). -/
theorem C08.include_order_is_sorted : Gen.includeSorted = true := rfl

/-- the commodity precision only ever grows to the precision of an observed amount (amount.cc 1193-1194). -/
theorem C08.precision_migrates_to_max : Gen.precMigrateIsMax = true := rfl

/-- observed style flags are OR-ed into the commodity (amount.cc 1191, flags.h). -/
theorem C08.flags_are_ored : Gen.flagsOred = true := rfl

/-! ### Sums are permutation invariant -/

/-- Per-account per-commodity sums over a posting list do not depend on its order. -/
theorem C08.coeff_perm {es es' : List Entry} (h : es'.Perm es) (a : String) (c : Comm) :
    coeff es' a c = coeff es a c := sumDen_perm _ c h

/-- The balance ledger accumulates for an account (`balance_t +=` over its postings in
    load order, zero entries and insertion order included) denotes exactly that sum. -/
theorem C08.balance_is_sum (es : List Entry) (a : String) (c : Comm) :
    (ownBalance es a).den c = coeff es a c := ownBalance_den es a c

/-! ### Permuting the transactions -/

/-- In the order-free fragment the postings of the loaded journal are a permutation of
    each other for any two orders of the transactions that are both accepted. -/
theorem C08.load_perm_entries {ds ds' : List Dir} (hf : orderFree ds = true) (hp : ds'.Perm ds)
    {s s' : State} (h : load ds = .ok s) (h' : load ds' = .ok s') : s'.entries.Perm s.entries := by
  rw [(load_ok hf (fun d hd => hd) h).1, (load_ok hf (fun d hd => hp.mem_iff.mp hd) h').1]
  exact hp.flatMap_right _

/-- `balances (load (perm ds)) = balances (load ds)`: every account's own balance and its
    total including sub-accounts have the same exact quantity in every commodity. -/
theorem C08.load_perm_balances {ds ds' : List Dir} (hf : orderFree ds = true) (hp : ds'.Perm ds)
    {s s' : State} (h : load ds = .ok s) (h' : load ds' = .ok s') (a : String) (c : Comm) :
    (ownBalance s'.entries a).den c = (ownBalance s.entries a).den c ∧
    (familyBalance s'.entries a).den c = (familyBalance s.entries a).den c := by
  have hperm := C08.load_perm_entries hf hp h h'
  rw [ownBalance_den, ownBalance_den, familyBalance_den, familyBalance_den]
  exact ⟨sumDen_perm _ c hperm, sumDen_perm _ c hperm⟩

/-- The internal precision counter ledger keeps for a commodity in an account's balance
    (`amount_t::operator+=` takes the larger counter of the two operands, amount.cc 436-438;
    zero amounts are skipped by `balance_t +=`) is the maximum over the account's nonzero
    postings of that commodity — this is what an amount WITHOUT commodity is displayed with. -/
theorem C08.balance_prec_is_max (es : List Entry) (a : String) (c : Comm) :
    balPrec (ownBalance es a) c = maxPrec c (es.filter (fun e => e.account = a)) 0 ∧
    balPrec (familyBalance es a) c = maxPrec c (es.filter (fun e => accountUnder e.account a)) 0 :=
  ⟨ownBalance_prec es a c, familyBalance_prec es a c⟩

/-- … hence independent of the order of the transactions: a commodity-less total such as
    1.5 + 0.25 is displayed with two decimals whichever posting was seen first. -/
theorem C08.load_perm_prec {ds ds' : List Dir} (hf : orderFree ds = true) (hp : ds'.Perm ds)
    {s s' : State} (h : load ds = .ok s) (h' : load ds' = .ok s') (a : String) (c : Comm) :
    balPrec (ownBalance s'.entries a) c = balPrec (ownBalance s.entries a) c ∧
    balPrec (familyBalance s'.entries a) c = balPrec (familyBalance s.entries a) c := by
  have hperm := C08.load_perm_entries hf hp h h'
  rw [ownBalance_prec, ownBalance_prec, familyBalance_prec, familyBalance_prec]
  exact ⟨maxPrec_perm c (hperm.filter _) 0, maxPrec_perm c (hperm.filter _) 0⟩

/-- The full acceptance statement: a rearrangement of an accepted journal of the fragment is accepted. -/
def C08.LoadPermAcceptedFull : Prop :=
  ∀ ds ds' : List Dir, orderFree ds = true → ds'.Perm ds → (load ds).isOk = true → (load ds').isOk = true

/-- Acceptance is order independent once every transaction balances exactly or has one
    elided posting (`exactlyBalanced`, decidable): every rearrangement is accepted. -/
theorem C08.load_perm_accepted_partial {ds ds' : List Dir} (hf : orderFree ds = true)
    (hx : exactlyBalanced ds = true) (hp : ds'.Perm ds) : ∃ s', load ds' = .ok s' := by
  obtain ⟨hc, hd⟩ := orderFree_hyps hf
  have hx' := List.all_eq_true.mp hx
  exact loadFrom_accept hc ds' State.init rfl (Inv_nil _)
    (fun d h => hd d (hp.mem_iff.mp h))
    (fun d h x hdx => by
      have := hx' d (hp.mem_iff.mp h)
      subst hdx
      simpa using this)

/-! ### Permuting the postings inside a transaction -/

/-- Replacing a transaction by one with the same postings in another order changes no
    sum of posting amounts selected by date and account — in particular no own
    balance, no family total, no per-date per-account register sum and no running
    total at a date boundary — whatever else is in the journal. -/
theorem C08.posting_perm_within_xact {pre post : List Dir} {x x' : WXact}
    (hf : orderFree (pre ++ .xact x :: post) = true) (hd : x'.date = x.date) (hp : x'.posts.Perm x.posts)
    {s s' : State} (h : load (pre ++ .xact x :: post) = .ok s) (h' : load (pre ++ .xact x' :: post) = .ok s')
    (P : Int → String → Bool) (c : Comm) :
    sumDen (fun e => P e.date e.account) c s'.entries = sumDen (fun e => P e.date e.account) c s.entries := by
  obtain ⟨hc, hdirs⟩ := orderFree_hyps hf
  have hx := hdirs (.xact x) (by simp)
  have hd' : ∀ d ∈ pre ++ .xact x' :: post,
      d.plain = true ∧ ∀ wm ∈ amtsOfDir d, wm ∈ allAmounts (pre ++ .xact x :: post) := by
    intro d hmem
    simp only [List.mem_append, List.mem_cons] at hmem
    rcases hmem with hm | hm | hm
    · exact hdirs d (by simp [hm])
    · subst hm
      refine ⟨?_, ?_⟩
      · have := hx.1
        simp only [Dir.plain, List.all_eq_true] at this ⊢
        exact fun p hp' => this p (hp.mem_iff.mp hp')
      · intro wm hwm
        apply hx.2
        simp only [amtsOfDir, List.mem_flatMap] at hwm ⊢
        obtain ⟨p, hp', hw⟩ := hwm
        exact ⟨p, hp.mem_iff.mp hp', hw⟩
    · exact hdirs d (by simp [hm])
  rw [(load_ok hf (fun d hd => hd) h).1, (load_ok_of hc hd' h').1]
  simp only [List.flatMap_append, List.flatMap_cons, sumDen_append, entD]
  rw [entC_posts_perm x x' hd hp P c]

/-- The same as balances. -/
theorem C08.posting_perm_balances {pre post : List Dir} {x x' : WXact}
    (hf : orderFree (pre ++ .xact x :: post) = true) (hd : x'.date = x.date) (hp : x'.posts.Perm x.posts)
    {s s' : State} (h : load (pre ++ .xact x :: post) = .ok s) (h' : load (pre ++ .xact x' :: post) = .ok s')
    (a : String) (c : Comm) :
    (ownBalance s'.entries a).den c = (ownBalance s.entries a).den c ∧
    (familyBalance s'.entries a).den c = (familyBalance s.entries a).den c := by
  rw [ownBalance_den, ownBalance_den, familyBalance_den, familyBalance_den]
  exact ⟨C08.posting_perm_within_xact hf hd hp h h' (fun _ acct => acct = a) c,
         C08.posting_perm_within_xact hf hd hp h h' (fun _ acct => accountUnder acct a) c⟩

/-! ### File layout -/

/-- Loading a virtual file tree (nested include directives, globs expanded in sorted
    order, one shared journal) is loading its flattening. -/
theorem C08.include_flatten (t : Tree) (fuel : Nat) (f : File) (ds : List Dir)
    (h : flattenFile t fuel f = .ok ds) : loadFile t fuel State.init f = load ds :=
  loadFile_flatten t fuel State.init f ds h

/-- Hence any two ways of cutting the same transactions into files — whose flattenings
    are then rearrangements of each other — give the same postings up to order, and so
    the same balances. -/
theorem C08.cut_irrelevant (t t' : Tree) (n n' : Nat) (f f' : File) {ds ds' : List Dir}
    (hfl : flattenFile t n f = .ok ds) (hfl' : flattenFile t' n' f' = .ok ds')
    (hf : orderFree ds = true) (hp : ds'.Perm ds) {s s' : State}
    (h : loadFile t n State.init f = .ok s) (h' : loadFile t' n' State.init f' = .ok s')
    (a : String) (c : Comm) :
    s'.entries.Perm s.entries ∧
    (ownBalance s'.entries a).den c = (ownBalance s.entries a).den c ∧
    (familyBalance s'.entries a).den c = (familyBalance s.entries a).den c := by
  rw [C08.include_flatten t n f ds hfl] at h
  rw [C08.include_flatten t' n' f' ds' hfl'] at h'
  exact ⟨C08.load_perm_entries hf hp h h', C08.load_perm_balances hf hp h h' a c⟩

/-! ### Commodity precision and style -/

/-- The style a commodity has after loading is the join (max precision, OR of flags)
    of the styles exhibited by its style-learning amounts, read canonically. -/
theorem C08.style_is_join {ds : List Dir} (hf : orderFree ds = true) {s : State} (h : load ds = .ok s)
    (c : Comm) : s.pool.get c = joinObs Style.zero (ds.flatMap obsD) c := by
  rw [(load_ok hf (fun d hd => hd) h).2, Pool.get_learnAll]; rfl

/-- … where the precision is the maximum and each flag the disjunction over the observed amounts. -/
theorem C08.style_max_or {ds : List Dir} (hf : orderFree ds = true) {s : State} (h : load ds = .ok s)
    (c : Comm) :
    let obs := (ds.flatMap obsD).filter (fun o => o.1 = c)
    (s.pool.get c).prec = (obs.map (fun o => o.2.prec)).foldl max 0 ∧
    (s.pool.get c).suffixed = obs.any (fun o => o.2.suffixed) ∧
    (s.pool.get c).separated = obs.any (fun o => o.2.separated) ∧
    (s.pool.get c).thousands = obs.any (fun o => o.2.thousands) ∧
    (s.pool.get c).decimalComma = obs.any (fun o => o.2.decimalComma) := by
  rw [C08.style_is_join hf h c]
  have hp := joinObs_prec Style.zero (ds.flatMap obsD) c
  have hfl := joinObs_flags Style.zero (ds.flatMap obsD) c
  simp only [Style.zero, Bool.false_or] at hp hfl
  exact ⟨hp, hfl⟩

/-- Display precision and style flags do not depend on the order in which the amounts were seen. -/
theorem C08.style_order_free {ds ds' : List Dir} (hf : orderFree ds = true) (hp : ds'.Perm ds)
    {s s' : State} (h : load ds = .ok s) (h' : load ds' = .ok s') (c : Comm) :
    s'.pool.get c = s.pool.get c := by
  rw [(load_ok hf (fun d hd => hd) h).2, (load_ok hf (fun d hd => hp.mem_iff.mp hd) h').2,
      Pool.get_learnAll, Pool.get_learnAll]
  exact joinObs_perm (hp.flatMap_right _) c

/-! ### The date-sorted register -/

/-- After the STABLE date sort of two rearrangements of the same postings:
    (1) the rows of each date form the same multiset;
    (2) the running total when a date group ends is the same exact quantity per commodity;
    (3) inside one date the rows keep their input order (so byte equality is only
        claimed between date groups). -/
theorem C08.sorted_register_groups {es es' : List Entry} (h : es'.Perm es) (d : Int) :
    ((sortByDate es').filter (fun e => e.date = d)).Perm ((sortByDate es).filter (fun e => e.date = d)) ∧
    (∀ c, sumDen (fun _ => true) c ((sortByDate es').takeWhile (fun e => e.date ≤ d)) =
          sumDen (fun _ => true) c ((sortByDate es).takeWhile (fun e => e.date ≤ d))) ∧
    (sortByDate es).filter (fun e => e.date = d) = es.filter (fun e => e.date = d) := by
  refine ⟨?_, ?_, sortByDate_group es d⟩
  · rw [sortByDate_group, sortByDate_group]; exact h.filter _
  · intro c
    rw [takeWhile_eq_filter_of_sorted d _ (sortByDate_sorted es'),
        takeWhile_eq_filter_of_sorted d _ (sortByDate_sorted es)]
    exact sumDen_perm _ c ((((sortByDate_perm es').trans h).trans (sortByDate_perm es).symm).filter _)

/-- The register of a rearranged journal of the fragment: same per-date multisets of
    rows and same running totals at date boundaries. -/
theorem C08.sorted_register_load {ds ds' : List Dir} (hf : orderFree ds = true) (hp : ds'.Perm ds)
    {s s' : State} (h : load ds = .ok s) (h' : load ds' = .ok s') (d : Int) :
    ((sortByDate s'.entries).filter (fun e => e.date = d)).Perm
      ((sortByDate s.entries).filter (fun e => e.date = d)) ∧
    (∀ c, sumDen (fun _ => true) c ((sortByDate s'.entries).takeWhile (fun e => e.date ≤ d)) =
          sumDen (fun _ => true) c ((sortByDate s.entries).takeWhile (fun e => e.date ≤ d))) :=
  let r := C08.sorted_register_groups (C08.load_perm_entries hf hp h h') d
  ⟨r.1, r.2.1⟩

/-! ### The guards are necessary (witnesses replayed on the binary by the check) -/

namespace C08W

def w (comm text : String) (neg : Bool := false) : WAmt :=
  { comm := comm, neg := neg, text := text, suffixed := true, separated := true }

def post (acct : String) (a : Option WAmt) (cost : Option WCost := none) : WPost :=
  { account := acct, kind := .real, amount := a, cost := cost, assert := none }

/-- `A  1,5 EUR` / `B` -/
def xComma : Dir := .xact { date := 18262, posts := [post "A" (some (w "EUR" "1,5")), post "B" none] }
/-- `C  1.000 EUR` / `D` -/
def xPeriod : Dir := .xact { date := 18263, posts := [post "C" (some (w "EUR" "1.000")), post "D" none] }
/-- `A  10 AAA @ 0.3333 EUR` / `B  -3.33 EUR` -/
def xSlack : Dir := .xact { date := 18262, posts :=
  [post "A" (some (w "AAA" "10")) (some { amt := w "EUR" "0.3333", perUnit := true }),
   post "B" (some (w "EUR" "3.33" true))] }
/-- `C  1.000 EUR` / `D  -1.000 EUR` -/
def xThree : Dir := .xact { date := 18263, posts :=
  [post "C" (some (w "EUR" "1.000")), post "D" (some (w "EUR" "1.000" true))] }

def balQ (r : Except LoadErr State) (a : String) (c : Comm) : Option Rat :=
  match r with
  | .ok s => some (((ownBalance s.entries a).find? c).map (·.q) |>.getD 0)
  | .error _ => none

end C08W

open C08W in
/-- Without `styleConsistent`: `1,5 EUR` then `1.000 EUR` books 1000 EUR on C, the reverse order 1 EUR. -/
theorem C08.style_guard_needed :
    balQ (load [xComma, xPeriod]) "C" "EUR" = some 1000 ∧
    balQ (load [xPeriod, xComma]) "C" "EUR" = some 1 ∧
    [xComma, xPeriod].all Dir.plain = true ∧ orderFree [xComma, xPeriod] = false := by
  decide +kernel

open C08W in
/-- Acceptance depends on the order when a transaction balances only at the display
    precision: `10 AAA @ 0.3333 EUR / -3.33 EUR` is accepted before EUR has been seen
    with three decimals and rejected after. -/
theorem C08.accept_order_dependent :
    orderFree [xSlack, xThree] = true ∧ exactlyBalanced [xSlack, xThree] = false ∧
    (load [xSlack, xThree]).isOk = true ∧ load [xThree, xSlack] = .error .unbalanced := by
  decide +kernel

open C08W in
/-- so the unguarded acceptance statement is false. -/
theorem C08.load_perm_accepted_full_false : ¬ C08.LoadPermAcceptedFull := by
  intro hfull
  have h := C08.accept_order_dependent
  have := hfull [xSlack, xThree] [xThree, xSlack] h.1 (List.Perm.swap _ _ _) h.2.2.1
  rw [h.2.2.2] at this
  cases this

/-! ### Non-vacuity -/

namespace C08W

/-- `A:x  1,234.50 $` … a small journal of the fragment: three commodities, a cost, an
    elided posting that receives two commodities, a virtual posting. -/
def j1 : List Dir :=
  [ .xact { date := 18263, posts := [post "Assets:Cash" (some (w "EUR" "1,234.50")), post "Income" none] },
    .xact { date := 18262, posts :=
      [post "Assets:Broker" (some (w "AAA" "10")) (some { amt := w "EUR" "2.5", perUnit := true }),
       post "Assets:Cash" (some (w "EUR" "25.00" true))] },
    .xact { date := 18262, posts :=
      [post "Expenses" (some (w "EUR" "7.125")), post "Expenses" (some (w "BTC" "0.5")),
       { account := "Budget", kind := .virtual, amount := some (w "EUR" "9"), cost := none, assert := none },
       post "Assets:Cash" none] } ]

end C08W

open C08W in
example : orderFree j1 = true ∧ exactlyBalanced j1 = true ∧ (load j1).isOk = true ∧
    balQ (load j1) "Assets:Cash" "EUR" = some ((1234.5 : Rat) - 25 - 7.125) ∧
    balQ (load j1) "Assets:Cash" "BTC" = some (-(1/2 : Rat)) ∧
    balQ (load j1.reverse) "Assets:Cash" "EUR" = some ((1234.5 : Rat) - 25 - 7.125) ∧
    ((load j1).toOption.map (fun s => s.pool.get "EUR")) =
      some { prec := 3, suffixed := true, separated := true, thousands := true, decimalComma := false } := by
  decide +kernel

open C08W in
/-- a file tree with a glob include and a nested include flattens and loads. -/
example :
    let t : Tree :=
      [ { dir := [], name := "main.ledger", items := [.incl ["inc"] "*.dat", .dir (j1.getD 0 xComma)] },
        { dir := ["inc"], name := "b.dat", items := [.dir (j1.getD 2 xComma)] },
        { dir := ["inc"], name := "a.dat", items := [.incl ["sub"] "n.dat"] },
        { dir := ["inc", "sub"], name := "n.dat", items := [.dir (j1.getD 1 xComma)] } ]
    (flattenFile t 4 (t.getD 0 ⟨[], "", []⟩)).toOption = some [j1.getD 1 xComma, j1.getD 2 xComma, j1.getD 0 xComma] ∧
    (loadFile t 4 State.init (t.getD 0 ⟨[], "", []⟩)).isOk = true := by
  decide +kernel

end Ledger
