/-
C09 — balance assertions and assignments use the true running balance in file order.

Model: Model/Assert.lean (`checkPost` = the `= AMOUNT` block of textual.cc
parse_post as the working tree has it; `run` = a whole journal). Specification:
`Assert.specRunning c log earlier acct v` = the sum in commodity `c` of every
earlier posting to that very account in file order (`log`: the postings of the
transactions accepted so far, `earlier`: the preceding postings of the same
transaction), ordinary postings only for an ordinary asserting posting, ordinary
and virtual ones for a virtual one.  All theorems hold for logs, transactions and
journals of any length.

Standing hypotheses of the step theorems
* `FineLog / FinePosts / fine`: every amount's precision counter is within its
  commodity's display precision, so that `is_zero` is the exact test (true of all
  parsed amounts; `C09.log_fine` shows the model's own run preserves it);
* `NoElidedEarlier`: no earlier posting of the same transaction to this account
  is still waiting for its amount (ledger errors out there; the property does not
  say what such a posting would count as).

The pinned source violates the full statements in two ways, each read from the
source as a flag of `Gen.Assert` and each refuted below on a concrete witness:
1. `virtualCountsSameXactReal = false` (textual.cc 1714): an assertion or
   assignment on a VIRTUAL posting ignores earlier ORDINARY postings of the same
   transaction to the same account;
2. `ownAmountBeforeRestriction = false` (textual.cc 1752): the posting's own
   amount is subtracted after the restriction to AMOUNT's commodity, so an
   assertion whose own amount is of another commodity is always rejected.
The `_partial` theorems carry exactly these two guards (`Assert.guardVirt`,
`Assert.guardComm`, both decidable) and hold for the source as it is; the
unguarded theorems are proved for a source in which the flags are repaired.
-/
import LedgerModel.Lemmas.AssertWitness
import LedgerModel.Model.AssertPinned
import LedgerModel.Gen.AssertFns
import LedgerModel.Model.AssertFnsPinned

namespace Ledger
open Assert

/-! ## Tie to the source text -/

/-- The `= AMOUNT` block of parse_post and the permissive wiring found in the working
    tree are the ones the model was written against (the two interpreted statements
    are abstracted into `Gen.Assert.virtualCountsSameXactReal` / `ownAmountBeforeRestriction`). -/
theorem C09.source_pinned :
    (Gen.Assert.block, Gen.Assert.permissiveWiring) = (Pinned.Assert.block, Pinned.Assert.permissiveWiring) := rfl

/-- account_t::amount / add_post, post_t::add_to_value, add_or_set_value, commodity_amount,
    balance is_zero / to_amount / operator=, xact_base_t::finalize / add_post, journal_t::add_xact,
    instance_t::xact_directive are the ones the model was written against. -/
theorem C09.assert_fns_pinned : Gen.assertFns = Pinned.assertFns := rfl

/-! ## The refinement: code path = specification -/

/-- `diff`, after the account total (`real_total` / `total`) and the earlier postings of
    the transaction have been subtracted, is AMOUNT minus the specification's running
    balance — in every commodity, for every log and every transaction prefix. -/
theorem C09.code_path_eq_spec_partial (log : List Entry) (earlier : List Posting) (p : Posting)
    (amt : Amount) (d : Balance)
    (hg : guardVirt Gen.Assert.virtualCountsSameXactReal earlier p = true)
    (h : codeDiff Gen.Assert.virtualCountsSameXactReal log earlier p.account (virt p) amt = .ok d) (c : Comm) :
    d.den c = amt.den c - specRunning c log earlier p.account (virt p) :=
  (codeDiff_spec (env := fun _ => 0) _ log earlier p amt d h).1 hg c

/-- The same without any guard once the source counts ordinary postings for a virtual assertion. -/
theorem C09.code_path_eq_spec (hf : Gen.Assert.virtualCountsSameXactReal = true)
    (log : List Entry) (earlier : List Posting) (p : Posting) (amt : Amount) (d : Balance)
    (h : codeDiff Gen.Assert.virtualCountsSameXactReal log earlier p.account (virt p) amt = .ok d) (c : Comm) :
    d.den c = amt.den c - specRunning c log earlier p.account (virt p) :=
  C09.code_path_eq_spec_partial log earlier p amt d (by simp [guardVirt, hf]) h c

/-! ## Assertions -/

/-- FULL STATEMENT: a posting `ACCT  a = amt` (amt commoditized) is accepted exactly when the
    specification's running balance plus the posting itself equals AMOUNT in AMOUNT's commodity. -/
def C09.AssertIffSpec : Prop :=
  ∀ (cx : Ctx) (log : List Entry) (earlier : List Posting) (p : Posting) (a amt : Amount),
    cx.permissive = false → p.amount = some a → p.assert = some amt → amt.hasComm = true →
    NoElidedEarlier earlier p.account →
    FineLog cx.env log → FinePosts cx.env earlier → fine cx.env a → fine cx.env amt →
    (checkPost cx log earlier p = .ok p ↔
      specRunning amt.comm log earlier p.account (virt p) + qtyIn amt.comm a = amt.q)

/-- The full statement with the two guards, for the source as it is. -/
theorem C09.assert_iff_spec_partial
    (cx : Ctx) (log : List Entry) (earlier : List Posting) (p : Posting) (a amt : Amount)
    (hperm : cx.permissive = false) (hpa : p.amount = some a) (hpas : p.assert = some amt)
    (hc : amt.hasComm = true) (hn : NoElidedEarlier earlier p.account)
    (hl : FineLog cx.env log) (hp : FinePosts cx.env earlier) (ha : fine cx.env a) (hamt : fine cx.env amt)
    (hg1 : guardVirt Gen.Assert.virtualCountsSameXactReal earlier p = true)
    (hg2 : guardComm Gen.Assert.ownAmountBeforeRestriction a amt = true) :
    checkPost cx log earlier p = .ok p ↔
      specRunning amt.comm log earlier p.account (virt p) + qtyIn amt.comm a = amt.q := by
  have := assert_core _ _ cx log earlier p a amt hperm hpa hpas hn hl hp ha hamt hg1 (fun _ => hg2)
  simpa [checkPost, hc, qtyIn_eq_den] using this

/-- For an ORDINARY posting whose own amount is in AMOUNT's commodity the statement holds
    as it stands, whatever the flags. -/
theorem C09.assert_iff_spec_ordinary
    (cx : Ctx) (log : List Entry) (earlier : List Posting) (p : Posting) (a amt : Amount)
    (hperm : cx.permissive = false) (hpa : p.amount = some a) (hpas : p.assert = some amt)
    (hc : amt.hasComm = true) (hn : NoElidedEarlier earlier p.account)
    (hl : FineLog cx.env log) (hp : FinePosts cx.env earlier) (ha : fine cx.env a) (hamt : fine cx.env amt)
    (hreal : virt p = false) (hsame : a.comm = amt.comm) :
    checkPost cx log earlier p = .ok p ↔
      specRunning amt.comm log earlier p.account false + qtyIn amt.comm a = amt.q := by
  have := C09.assert_iff_spec_partial cx log earlier p a amt hperm hpa hpas hc hn hl hp ha hamt
    (by simp [guardVirt, hreal]) (by simp [guardComm, hsame])
  rw [hreal] at this; exact this

/-- The full statement holds for a source in which both interpreted statements are repaired. -/
theorem C09.assert_iff_spec (h1 : Gen.Assert.virtualCountsSameXactReal = true)
    (h2 : Gen.Assert.ownAmountBeforeRestriction = true) : C09.AssertIffSpec := by
  intro cx log earlier p a amt hperm hpa hpas hc hn hl hp ha hamt
  exact C09.assert_iff_spec_partial cx log earlier p a amt hperm hpa hpas hc hn hl hp ha hamt
    (by simp [guardVirt, h1]) (by simp [guardComm, h2])

/-- Witness 1 (DESIGN §9-7): A holds $10, `A  $5` then `(A)  $1 = $16` in one transaction.
    The assertion is true (10 + 5 + 1) and the pinned code path rejects it. -/
theorem C09.assert_iff_spec_refuted_virtual (h1 : Gen.Assert.virtualCountsSameXactReal = false) :
    ¬ C09.AssertIffSpec := by
  intro H
  have key := H W.cx W.log W.earlier W.pVirt (W.usd 1) (W.usd 16) rfl rfl rfl (by decide) W.noElided
    W.fineLog W.finePosts (W.fine_usd _) (W.fine_usd _)
  have hs : specRunning (W.usd 16).comm W.log W.earlier W.pVirt.account (virt W.pVirt)
      + qtyIn (W.usd 16).comm (W.usd 1) = (W.usd 16).q := by decide +kernel
  have hok := key.mpr hs
  have hbad : ∀ f2, checkPostF false f2 W.cx W.log W.earlier W.pVirt = .error .assertOff := by decide +kernel
  unfold checkPost at hok
  rw [h1, hbad] at hok
  cases hok

/-- Witness 2: A holds $10; `A  5 EUR = $10` is true (the $ balance of A is $10 after the
    posting) and the pinned code path rejects it ("off by -5 EUR"). -/
theorem C09.assert_iff_spec_refuted_commodity (h2 : Gen.Assert.ownAmountBeforeRestriction = false) :
    ¬ C09.AssertIffSpec := by
  intro H
  have key := H W.cx W.log [] W.pComm (W.eur 5) (W.usd 10) rfl rfl rfl (by decide) (W.noElidedNil _)
    W.fineLog W.finePostsNil (W.fine_eur _) (W.fine_usd _)
  have hs : specRunning (W.usd 10).comm W.log [] W.pComm.account (virt W.pComm)
      + qtyIn (W.usd 10).comm (W.eur 5) = (W.usd 10).q := by decide +kernel
  have hok := key.mpr hs
  have hbad : ∀ f1, checkPostF f1 false W.cx W.log [] W.pComm = .error .assertOff := by decide +kernel
  unfold checkPost at hok
  rw [h2, hbad] at hok
  cases hok

/-! ## Assignments -/

/-- FULL STATEMENT: a posting with only `= amt` receives exactly the amount, in AMOUNT's
    commodity, that makes the assertion true. -/
def C09.AssignMakesTrue : Prop :=
  ∀ (cx : Ctx) (log : List Entry) (earlier : List Posting) (p : Posting) (amt : Amount),
    p.amount = none → p.assert = some amt → amt.hasComm = true → NoElidedEarlier earlier p.account →
    FineLog cx.env log → FinePosts cx.env earlier → fine cx.env amt →
    ∃ x, checkPost cx log earlier p = .ok { p with amount := some x } ∧ x.comm = amt.comm ∧
      specRunning amt.comm log earlier p.account (virt p) + x.q = amt.q

theorem C09.assign_makes_true_partial
    (cx : Ctx) (log : List Entry) (earlier : List Posting) (p : Posting) (amt : Amount)
    (hpa : p.amount = none) (hpas : p.assert = some amt) (hc : amt.hasComm = true)
    (hn : NoElidedEarlier earlier p.account)
    (hl : FineLog cx.env log) (hp : FinePosts cx.env earlier) (hamt : fine cx.env amt)
    (hg1 : guardVirt Gen.Assert.virtualCountsSameXactReal earlier p = true) :
    ∃ x, checkPost cx log earlier p = .ok { p with amount := some x } ∧ x.comm = amt.comm ∧
      specRunning amt.comm log earlier p.account (virt p) + x.q = amt.q := by
  obtain ⟨x, h1, h2, h3, _⟩ := assign_core Gen.Assert.virtualCountsSameXactReal
    Gen.Assert.ownAmountBeforeRestriction cx log earlier p amt hpa hpas hc hn hl hp hamt hg1
  exact ⟨x, h1, h2, h3⟩

/-- The amount is determined: any amount of AMOUNT's commodity that makes the equality true is
    the assigned one. -/
theorem C09.assign_unique (c : Comm) (r t : Rat) (x y : Amount) (hx : x.comm = c) (hy : y.comm = c)
    (h1 : r + x.q = t) (h2 : r + y.q = t) : x.q = y.q ∧ x.comm = y.comm := by
  refine ⟨?_, by rw [hx, hy]⟩
  grind

theorem C09.assign_makes_true (h1 : Gen.Assert.virtualCountsSameXactReal = true) : C09.AssignMakesTrue := by
  intro cx log earlier p amt hpa hpas hc hn hl hp hamt
  exact C09.assign_makes_true_partial cx log earlier p amt hpa hpas hc hn hl hp hamt (by simp [guardVirt, h1])

/-- Witness: A holds $10, `A  $5` then `(A)  = $16`: the posting must receive $1, the pinned
    code path gives it $6. -/
theorem C09.assign_makes_true_refuted_virtual (h1 : Gen.Assert.virtualCountsSameXactReal = false) :
    ¬ C09.AssignMakesTrue := by
  intro H
  obtain ⟨x, hx, _, hs⟩ := H W.cx W.log W.earlier W.pVirtAssign (W.usd 16) rfl rfl (by decide) W.noElided
    W.fineLog W.finePosts (W.fine_usd _)
  have hcode : ∀ f2, checkPostF false f2 W.cx W.log W.earlier W.pVirtAssign
      = .ok { W.pVirtAssign with amount := some (W.usd 6) } := by decide +kernel
  unfold checkPost at hx
  rw [h1, hcode] at hx
  have hx6 : x = W.usd 6 := by
    injection hx with hx
    have := congrArg Posting.amount hx
    simpa using this.symm
  subst hx6
  have : ¬ (specRunning (W.usd 16).comm W.log W.earlier W.pVirtAssign.account (virt W.pVirtAssign)
      + (W.usd 6).q = (W.usd 16).q) := by decide +kernel
  exact this hs

/-! ## Bare `0` -/

/-- Asserting a bare `0` requires every commodity of the account to be zero (the posting itself
    counted). -/
theorem C09.bare_zero_all_commodities_partial
    (cx : Ctx) (log : List Entry) (earlier : List Posting) (p : Posting) (a amt : Amount)
    (hperm : cx.permissive = false) (hpa : p.amount = some a) (hpas : p.assert = some amt)
    (hc : amt.hasComm = false) (hq : amt.q = 0) (hn : NoElidedEarlier earlier p.account)
    (hl : FineLog cx.env log) (hp : FinePosts cx.env earlier) (ha : fine cx.env a)
    (hg1 : guardVirt Gen.Assert.virtualCountsSameXactReal earlier p = true) :
    checkPost cx log earlier p = .ok p ↔
      ∀ c, specRunning c log earlier p.account (virt p) + qtyIn c a = 0 := by
  have hamt : fine cx.env amt := Or.inl hc
  have hg2 : amt.hasComm = true → guardComm Gen.Assert.ownAmountBeforeRestriction a amt = true :=
    fun h => absurd h (by simp [hc])
  have := assert_core _ _ cx log earlier p a amt hperm hpa hpas hn hl hp ha hamt hg1 hg2
  have hden : ∀ c, amt.den c = 0 := by intro c; simp [Amount.den, hq]
  simpa [checkPost, hc, qtyIn_eq_den, hden] using this

/-- For an ordinary posting (no guard needed), and for every posting once the source is repaired. -/
theorem C09.bare_zero_all_commodities_ordinary
    (cx : Ctx) (log : List Entry) (earlier : List Posting) (p : Posting) (a amt : Amount)
    (hperm : cx.permissive = false) (hpa : p.amount = some a) (hpas : p.assert = some amt)
    (hc : amt.hasComm = false) (hq : amt.q = 0) (hn : NoElidedEarlier earlier p.account)
    (hl : FineLog cx.env log) (hp : FinePosts cx.env earlier) (ha : fine cx.env a) (hreal : virt p = false) :
    checkPost cx log earlier p = .ok p ↔ ∀ c, specRunning c log earlier p.account false + qtyIn c a = 0 := by
  have := C09.bare_zero_all_commodities_partial cx log earlier p a amt hperm hpa hpas hc hq hn hl hp ha
    (by simp [guardVirt, hreal])
  rw [hreal] at this; exact this

theorem C09.bare_zero_all_commodities (h1 : Gen.Assert.virtualCountsSameXactReal = true)
    (cx : Ctx) (log : List Entry) (earlier : List Posting) (p : Posting) (a amt : Amount)
    (hperm : cx.permissive = false) (hpa : p.amount = some a) (hpas : p.assert = some amt)
    (hc : amt.hasComm = false) (hq : amt.q = 0) (hn : NoElidedEarlier earlier p.account)
    (hl : FineLog cx.env log) (hp : FinePosts cx.env earlier) (ha : fine cx.env a) :
    checkPost cx log earlier p = .ok p ↔ ∀ c, specRunning c log earlier p.account (virt p) + qtyIn c a = 0 :=
  C09.bare_zero_all_commodities_partial cx log earlier p a amt hperm hpa hpas hc hq hn hl hp ha
    (by simp [guardVirt, h1])

/-- A posting with only `= 0`: whatever amount it receives zeroes every commodity of the account
    (when two or more commodities are non-zero no single amount can, and the block fails with
    "Cannot convert a balance with multiple commodities to an amount"). -/
theorem C09.bare_zero_assign_partial
    (cx : Ctx) (log : List Entry) (earlier : List Posting) (p : Posting) (amt x : Amount)
    (hpa : p.amount = none) (hpas : p.assert = some amt) (hc : amt.hasComm = false) (hq : amt.q = 0)
    (hl : FineLog cx.env log) (hp : FinePosts cx.env earlier)
    (hg1 : guardVirt Gen.Assert.virtualCountsSameXactReal earlier p = true)
    (h : checkPost cx log earlier p = .ok { p with amount := some x }) :
    ∀ c, specRunning c log earlier p.account (virt p) + qtyIn c x = 0 :=
  assign_bare_core _ _ cx log earlier p amt x hpa hpas hc hq hl hp (Or.inl hc) hg1 h

/-! ## What never enters: dates, sub-accounts, other accounts -/

/-- No date enters: replacing the dates (and auxiliary dates) of the transactions by anything
    at all, without touching the file order, changes neither the errors nor the posting log. -/
theorem C09.date_irrelevant (cx : Ctx) (xs : List Xact) (d : Xact → Int) (a : Xact → Option Int) :
    run cx (xs.map (fun x => { x with date := d x, aux := a x })) = run cx xs := by
  unfold run
  rw [List.foldl_map]
  rfl

/-- Postings to sub-accounts of the asserted account (in the log or earlier in the same
    transaction) do not enter: the outcome is the same with and without them. -/
theorem C09.subaccounts_excluded (cx : Ctx) (l1 l2 : List Entry) (e : Entry) (e1 e2 : List Posting)
    (q p : Posting) (sub1 sub2 : String)
    (he : e.account = p.account ++ ":" ++ sub1) (hq : q.account = p.account ++ ":" ++ sub2) :
    checkPost cx (l1 ++ e :: l2) (e1 ++ q :: e2) p = checkPost cx (l1 ++ l2) (e1 ++ e2) p := by
  unfold checkPost
  rw [checkPostF_insert_other_log _ _ cx l1 l2 e _ p (by rw [he]; exact subaccount_ne _ _),
    checkPostF_insert_other_earlier _ _ cx _ e1 e2 q p (by rw [hq]; exact subaccount_ne _ _)]

/-- Nor does any posting to any other account name (parents included). -/
theorem C09.other_accounts_excluded (cx : Ctx) (l1 l2 : List Entry) (e : Entry) (e1 e2 : List Posting)
    (q p : Posting) (he : e.account ≠ p.account) (hq : q.account ≠ p.account) :
    checkPost cx (l1 ++ e :: l2) (e1 ++ q :: e2) p = checkPost cx (l1 ++ l2) (e1 ++ e2) p := by
  unfold checkPost
  rw [checkPostF_insert_other_log _ _ cx l1 l2 e _ p he, checkPostF_insert_other_earlier _ _ cx _ e1 e2 q p hq]

/-! ## The permissive option -/

/-- With the permissive option an assertion is never compared: the posting is accepted whatever AMOUNT is. -/
theorem C09.permissive_skips (cx : Ctx) (hperm : cx.permissive = true) (log : List Entry)
    (earlier : List Posting) (p : Posting) (a amt : Amount) (hpa : p.amount = some a)
    (hpas : p.assert = some amt) (hn : NoElidedEarlier earlier p.account) :
    checkPost cx log earlier p = .ok p :=
  checkPostF_permissive_ok _ _ cx hperm log earlier p a amt hpa hpas hn

/-- … so no journal of any length ever reports "Balance assertion off by" under the permissive option … -/
theorem C09.permissive_never_off (cx : Ctx) (hperm : cx.permissive = true) (xs : List Xact) :
    ∀ e ∈ (run cx xs).errors, e.2 ≠ .assertOff :=
  foldl_step_errors cx (fun e => e.2 ≠ .assertOff) (fun log x e h => runXact_error_permissive cx hperm log x e h)
    xs ⟨[], []⟩ (fun e he => by cases he)

/-- … while assignments are computed exactly as without it. -/
theorem C09.permissive_leaves_assignments (cx : Ctx) (log : List Entry) (earlier : List Posting)
    (p : Posting) (hpa : p.amount = none) (b : Bool) :
    checkPost { cx with permissive := b } log earlier p = checkPost cx log earlier p :=
  checkPostF_permissive_assign _ _ cx log earlier p hpa b

/-! ## The posting log is the file order -/

/-- Reading more of the file only appends to the log: what an assertion sees of the earlier
    transactions is never reordered or altered later. -/
theorem C09.log_in_file_order (cx : Ctx) (xs ys : List Xact) : (run cx xs).log <+: (run cx (xs ++ ys)).log := by
  unfold run
  rw [List.foldl_append]
  exact foldl_step_log_prefix cx ys _

/-- An accepted transaction appends exactly its postings, in posting order … -/
theorem C09.accepted_appends (cx : Ctx) (xs : List Xact) (x : Xact) (es : List Entry)
    (h : runXact cx (run cx xs).log x = .ok es) : (run cx (xs ++ [x])).log = (run cx xs).log ++ es := by
  unfold run at h ⊢
  rw [List.foldl_append]
  simp only [List.foldl_cons, List.foldl_nil, step, h]

/-- … and a rejected one (failed assertion, does not balance) leaves no trace in any account. -/
theorem C09.rejected_leaves_no_trace (cx : Ctx) (xs : List Xact) (x : Xact) (e : Nat × AErr)
    (h : runXact cx (run cx xs).log x = .error e) :
    (run cx (xs ++ [x])).log = (run cx xs).log ∧ (run cx (xs ++ [x])).errors = (run cx xs).errors ++ [e] := by
  unfold run at h ⊢
  rw [List.foldl_append]
  simp only [List.foldl_cons, List.foldl_nil, step, h, and_self]

/-- The standing exactness hypothesis is an invariant of the run: in a journal (of any length)
    whose written amounts are within their display precision and which carries no costs, every
    posting that ever reaches an account — written, assigned or filled in for an elided amount —
    is exact, so `FineLog` holds for the log every later assertion sees. -/
theorem C09.log_fine (cx : Ctx) (xs : List Xact) (h : ∀ x ∈ xs, XFine cx.env x) : FineLog cx.env (run cx xs).log :=
  foldl_step_fine cx xs h ⟨[], []⟩ (fun e he => by cases he)

/-! ## Non-vacuity: concrete histories satisfying the hypotheses -/

-- A holds $10 (A:B $7); `A  $5` then `A  $1 = $16`: true, accepted; `= $17`: false, rejected.
example : checkPost W.cx W.log W.earlier W.pReal = .ok W.pReal := by decide +kernel
example : checkPost W.cx W.log W.earlier W.pRealFalse = .error .assertOff := by decide +kernel
-- the hypotheses of `C09.assert_iff_spec_ordinary` are satisfiable and its right-hand side is true here
example : specRunning "$" W.log W.earlier "A" false + qtyIn "$" (W.usd 1) = (W.usd 16).q := by decide +kernel
example : NoElidedEarlier W.earlier W.pReal.account ∧ FineLog W.cx.env W.log ∧ FinePosts W.cx.env W.earlier :=
  ⟨W.noElided, W.fineLog, W.finePosts⟩
-- assignment: `A  = $16` receives $1
example : checkPost W.cx W.log W.earlier W.pRealAssign = .ok { W.pRealAssign with amount := some (W.usd 1) } := by
  decide +kernel
-- bare zero: `A  $-15 = 0` is true
example : checkPost W.cx W.log W.earlier W.pZero = .ok W.pZero := by decide +kernel
-- guards: true of the benign postings, false of the witnesses exactly when the flags are unrepaired
example : guardVirt false W.earlier W.pReal = true ∧ guardVirt false W.earlier W.pVirt = false := by decide
example : guardComm false (W.usd 1) (W.usd 16) = true ∧ guardComm false (W.eur 5) (W.usd 10) = false := by
  decide +kernel
-- the permissive option
example : checkPost { W.cx with permissive := true } W.log W.earlier W.pRealFalse = .ok W.pRealFalse := by
  decide +kernel

end Ledger
