/-
C10 — market valuation uses the most recent price not after the valuation date.

The model (Model/Prices.lean) keeps ledger's data structures: one sorted map per
commodity pair with overwrite on equal moments, `upper_bound`-then-step-back lookup,
path search over the edges that have a price point at the moment, product of the edge
prices with inversion, `price × quantity`.  The theorems below are about *every* history
(a list of recorded prices of any length, any dates, any order, any commodities) and
every valuation moment; they are proved through the refinement
`recentEdge_eq_latestOn` (the map machinery computes a fold over the insertion-ordered
history) and by induction on the history / the path.

Tie to the source: `C10.source_pinned` (the code text of the twenty-odd statements the
model mirrors, re-extracted on every run) and `C10.flags` (the comparison operators and
rules the model's definitions *use*, read from the source: `upper_bound` vs
`lower_bound`, overwrite on equal moment, `when <= moment`, which commodity a price marks
PRIMARY, whether -V skips PRIMARY commodities, costs recorded at midnight).  A change of
`upper_bound` to `lower_bound` in history.cc flips `Gen.Prices.boundInclusive`, and
`notAfter_iff` — on which every theorem here rests — no longer compiles.

Proved fragment for the path: graphs on which the search is forced (`ChainFrom`: at each
commodity of the path the only unvisited neighbour is the next one) — single edges,
reversed edges, simple chains, walks through forests.  ledger's Dijkstra on graphs with
several routes is outside it.

-V (no target commodity): `C10.MarketFutureIrrelevant` — the property's last sentence for
-V — is FALSE for the code as it stands; `C10.market_future_irrelevant_false` proves the
negation on a concrete history (a price dated after the valuation date marks a commodity
PRIMARY and thereby stops its revaluation) and `C10.market_future_reorders_neighbours`
shows the second way (a later price creates an edge earlier and wins an equal-date tie).
`C10.market_future_irrelevant_partial` is what holds, with both situations excluded by
explicit decidable guards.  Both witnesses are replayed on the binary by the check
(fingerprints C10:-V:future-price-marks-primary, C10:-V:future-price-reorders-neighbours).
-/
import LedgerModel.Lemmas.Prices
import LedgerModel.Lemmas.PriceRoute
import LedgerModel.Model.PricesPinned

namespace Ledger
open Prices

/-! ### tie to the source -/

/-- The statements found in the working tree are the ones the model mirrors. -/
theorem C10.source_pinned : Gen.Prices.shapes = Pinned.Prices.shapes := rfl

/-- The operators and rules read from the source have the values the proofs need. -/
theorem C10.flags :
    Gen.Prices.boundInclusive = true ∧ Gen.Prices.equalDateOverwrites = true ∧
    Gen.Prices.listingInclusive = true ∧ Gen.Prices.priceUnitIsPrimary = true ∧
    Gen.Prices.marketSkipsPrimary = true ∧ Gen.Prices.costPriceAtMidnight = true := by
  decide

/-! ### which price is chosen -/

/-- The price point chosen for the pair {a,b} at moment `D` is a recorded price of that
    pair dated not after `D`, and no recorded price of the pair lies in `(chosen, D]`. -/
theorem C10.recent_is_latest_le (hist : List Entry) (a b : Comm) (D : Int) (e : Entry)
    (h : recentEdge hist a b D = some e) :
    e ∈ hist ∧ e.onPair a b ∧ e.date ≤ D ∧
    ∀ x ∈ hist, x.onPair a b → x.date ≤ D → x.date ≤ e.date :=
  recentEdge_sound h

/-- There is no price point exactly when every recorded price of the pair is dated
    after `D`. -/
theorem C10.recent_none_iff (hist : List Entry) (a b : Comm) (D : Int) :
    recentEdge hist a b D = none ↔ ∀ x ∈ hist, x.onPair a b → D < x.date :=
  recentEdge_none_iff hist a b D

/-- Equal moments: of the recorded prices of a pair that carry the greatest date not
    after `D`, the one recorded last is chosen (it overwrote the others), whichever
    way round each was quoted. -/
theorem C10.equal_date_last_wins (pre post : List Entry) (e : Entry) (a b : Comm) (D : Int)
    (hp : e.onPair a b) (he : e.date ≤ D)
    (h1 : ∀ x ∈ pre, x.onPair a b → x.date ≤ D → x.date ≤ e.date)
    (h2 : ∀ x ∈ post, x.onPair a b → x.date ≤ D → x.date < e.date) :
    recentEdge (pre ++ e :: post) a b D = some e := by
  rw [recentEdge_eq_latestOn]
  unfold latestOn
  have : onEdge (pre ++ e :: post) a b = onEdge pre a b ++ e :: onEdge post a b := by
    simp [onEdge, hp]
  rw [this]
  apply pick_foldl_last_wins _ _ _ he
  · intro x hx; exact h1 x (mem_onEdge.mp hx).1 (mem_onEdge.mp hx).2
  · intro x hx; exact h2 x (mem_onEdge.mp hx).1 (mem_onEdge.mp hx).2

/-- In particular a second price for the same pair and the same moment replaces the first. -/
theorem C10.equal_date_overwrites (hist : List Entry) (e1 e2 : Entry) (a b : Comm) (D : Int)
    (hp2 : e2.onPair a b) (hd : e1.date = e2.date) (he : e2.date ≤ D)
    (h : ∀ x ∈ hist, x.onPair a b → x.date ≤ D → x.date ≤ e2.date) :
    recentEdge (hist ++ [e1, e2]) a b D = some e2 := by
  have := C10.equal_date_last_wins (hist ++ [e1]) [] e2 a b D hp2 he
    (by
      intro x hx hxp hxD
      rcases List.mem_append.mp hx with hx | hx
      · exact h x hx hxp hxD
      · simp at hx; subst hx; omega)
    (by simp)
  simpa using this

/-! ### prices dated after the valuation date -/

/-- Dropping every price dated after `D` does not change any price point at `D`. -/
theorem C10.recent_future_irrelevant (hist : List Entry) (a b : Comm) (D : Int) :
    recentEdge (hist.filter (fun e => e.date ≤ D)) a b D = recentEdge hist a b D :=
  recentEdge_filter_date hist a b D

/-- Prices dated after `D` never influence a conversion into a target commodity as of `D`
    (`-X tgt`), for every history, vertex set, holding and target. -/
theorem C10.future_irrelevant (V : List Comm) (hist : List Entry) (D : Int) (tgt : Comm) (h : Holding) :
    valueX V (hist.filter (fun e => e.date ≤ D)) D tgt h = valueX V hist D tgt h := by
  unfold valueX
  congr 1
  funext a b
  exact C10.recent_future_irrelevant hist a b D

/-! ### the converted value is exact -/

/-- A price quoted in the wanted commodity is used as it is … -/
theorem C10.rate_direct (e : Entry) (to : Comm) (h : e.tgt = to) : rate e to = e.price := by
  simp [rate, h]

/-- … and one quoted the other way round is inverted. -/
theorem C10.rate_reversed (e : Entry) (to : Comm) (h : e.tgt ≠ to) : rate e to = 1 / e.price := by
  simp [rate, h, Rat.div_def]

/-- Along a path the factors multiply. -/
theorem C10.rate_along_step (re : Comm → Comm → Option Entry) (a b : Comm) (rest : List Comm)
    (e : Entry) (r : Rat) (he : re a b = some e) (hr : rateAlong re (b :: rest) = some r) :
    rateAlong re (a :: b :: rest) = some (rate e b * r) := by
  simp [rateAlong, he, hr]

/-- Whatever the history: a holding is either left exactly as it is, or it is turned into
    the target commodity with quantity `q × Π` of the factors along a path from its
    commodity to the target, every step of which uses the price point of that pair
    at `D` (which by `C10.recent_is_latest_le` is the latest not after `D`). -/
theorem C10.value_exact (V : List Comm) (hist : List Entry) (D : Int) (tgt : Comm) (h : Holding) :
    valueX V hist D tgt h = (h.q, h.comm) ∨
    ∃ (p : List Comm) (r : Rat),
      p.head? = some h.comm ∧ p.getLast? = some tgt ∧
      Linked (fun a b => recentEdge hist a b D) p ∧
      rateAlong (fun a b => recentEdge hist a b D) p = some r ∧
      valueX V hist D tgt h = (h.q * r, tgt) := by
  unfold valueX valueWith
  split
  · exact Or.inl rfl
  · split
    · exact Or.inl rfl
    · rename_i p hp
      have hs := dfs_sound _ V tgt _ _ _ _ hp
      obtain ⟨r, hr⟩ := rateAlong_of_linked _ p hs.2.2
      right
      exact ⟨p, r, hs.1, hs.2.1, hs.2.2, hr, by simp [hr]⟩

/-- Simple chains (and every graph on which the walk is forced): the holding is converted
    along exactly that chain, `q × Π pᵢ^{±1}`. -/
theorem C10.value_exact_chain (V : List Comm) (hist : List Entry) (D : Int) (tgt : Comm) (h : Holding)
    (n : Comm) (rest : List Comm)
    (hc : ChainFrom (fun a b => (recentEdge hist a b D).isSome) V [] h.comm (n :: rest))
    (hlen : (n :: rest).length ≤ V.length)
    (hl : (h.comm :: n :: rest).getLast? = some tgt) :
    ∃ r, rateAlong (fun a b => recentEdge hist a b D) (h.comm :: n :: rest) = some r ∧
      valueX V hist D tgt h = (h.q * r, tgt) := by
  have hpath := dfs_chain _ V tgt (n :: rest) [] h.comm (V.length + 1) hc (by omega) hl
  have hne : h.comm ≠ tgt := by
    intro heq
    have hm : tgt ∈ n :: rest := by
      rw [List.getLast?_cons_cons] at hl
      exact List.mem_of_getLast? hl
    exact chainFrom_fresh _ _ _ hc tgt hm (by simp [heq])
  have hs := dfs_sound (fun a b => recentEdge hist a b D) V tgt _ _ _ _ hpath
  obtain ⟨r, hr⟩ := rateAlong_of_linked _ _ hs.2.2
  refine ⟨r, hr, ?_⟩
  unfold valueX valueWith findPath
  simp [hne, hpath, hr]

/-- Single edge, quoted in the target commodity: `q × p`. -/
theorem C10.value_exact_direct (V : List Comm) (hist : List Entry) (D : Int) (tgt : Comm) (h : Holding)
    (e : Entry)
    (hc : ChainFrom (fun a b => (recentEdge hist a b D).isSome) V [] h.comm [tgt])
    (hV : 1 ≤ V.length) (he : recentEdge hist h.comm tgt D = some e) (hq : e.tgt = tgt) :
    valueX V hist D tgt h = (h.q * e.price, tgt) := by
  obtain ⟨r, hr, hv⟩ := C10.value_exact_chain V hist D tgt h tgt [] hc (by simpa using hV) (by simp)
  simp [rateAlong, he, rate, hq] at hr
  rw [hv, ← hr]

/-- Reversed edge, only the price of the target in the holding's commodity is known: `q / p`. -/
theorem C10.value_exact_reversed (V : List Comm) (hist : List Entry) (D : Int) (tgt : Comm) (h : Holding)
    (e : Entry)
    (hc : ChainFrom (fun a b => (recentEdge hist a b D).isSome) V [] h.comm [tgt])
    (hV : 1 ≤ V.length) (he : recentEdge hist h.comm tgt D = some e) (hq : e.tgt ≠ tgt) :
    valueX V hist D tgt h = (h.q / e.price, tgt) := by
  obtain ⟨r, hr, hv⟩ := C10.value_exact_chain V hist D tgt h tgt [] hc (by simpa using hV) (by simp)
  simp [rateAlong, he, rate, hq] at hr
  rw [hv, ← hr]
  simp [Rat.div_def]

/-! ### no applicable price -/

/-- A holding whose commodity has no recorded price dated not after `D` (neither as the
    priced commodity nor as the unit) stays exactly as it is. -/
theorem C10.no_price_unconverted (V : List Comm) (hist : List Entry) (D : Int) (tgt : Comm) (h : Holding)
    (hno : ∀ x ∈ hist, (x.src = h.comm ∨ x.tgt = h.comm) → D < x.date) :
    valueX V hist D tgt h = (h.q, h.comm) := by
  unfold valueX valueWith
  split
  · rfl
  · rename_i hne
    have hadj : ∀ c, (recentEdge hist h.comm c D).isSome = false := by
      intro c
      have : recentEdge hist h.comm c D = none := by
        rw [C10.recent_none_iff]
        intro x hx hxp
        apply hno x hx
        unfold Entry.onPair at hxp
        rcases hxp with hxp | hxp
        · exact Or.inl hxp.1
        · exact Or.inr hxp.2
      simp [this]
    have : findPath (fun a b => recentEdge hist a b D) V h.comm tgt = none := by
      unfold findPath
      simp only [dfs, hne, if_false]
      have : V.filter (fun c => (recentEdge hist h.comm c D).isSome && !([h.comm] : List Comm).contains c) = [] := by
        apply List.filter_eq_nil_iff.mpr
        intro c _
        simp [hadj c]
      rw [this]
      rfl
    rw [this]

/-- A holding already in the target commodity is unchanged. -/
theorem C10.same_commodity_unchanged (V : List Comm) (hist : List Entry) (D : Int) (h : Holding) :
    valueX V hist D h.comm h = (h.q, h.comm) := by
  simp [valueX, valueWith]

/-! ### insertion order -/

/-- When no two recorded prices of the same pair carry the same moment, the order in
    which the prices were recorded (file order, out-of-order dates) is irrelevant. -/
theorem C10.insertion_order_irrelevant_for_distinct_dates
    (V : List Comm) (hist₁ hist₂ : List Entry) (D : Int) (tgt : Comm) (h : Holding)
    (hp : hist₁.Perm hist₂)
    (hd : ∀ x ∈ hist₁, ∀ y ∈ hist₁, x.date = y.date → x.onPair y.src y.tgt → x = y) :
    valueX V hist₁ D tgt h = valueX V hist₂ D tgt h := by
  unfold valueX
  congr 1
  funext a b
  cases h1 : recentEdge hist₁ a b D with
  | none =>
    symm
    rw [C10.recent_none_iff] at h1 ⊢
    intro x hx hxp
    exact h1 x (hp.mem_iff.mpr hx) hxp
  | some e1 =>
    have ⟨m1, p1, d1, mx1⟩ := C10.recent_is_latest_le _ _ _ _ _ h1
    cases h2 : recentEdge hist₂ a b D with
    | none =>
      rw [C10.recent_none_iff] at h2
      have := h2 e1 (hp.mem_iff.mp m1) p1
      omega
    | some e2 =>
      have ⟨m2, p2, d2, mx2⟩ := C10.recent_is_latest_le _ _ _ _ _ h2
      have hle1 := mx1 e2 (hp.mem_iff.mpr m2) p2 d2
      have hle2 := mx2 e1 (hp.mem_iff.mp m1) p1 d1
      have hpair : e1.onPair e2.src e2.tgt := by
        unfold Entry.onPair at p1 p2 ⊢
        rcases p1 with p1 | p1 <;> rcases p2 with p2 | p2 <;> simp [p1, p2]
      rw [hd e1 m1 e2 (hp.mem_iff.mpr m2) (by omega) hpair]

/-! ### -V: no target commodity -/

/-- -V never revalues a commodity that some recorded price uses as its unit. -/
theorem C10.market_primary_unconverted (V : List Comm) (hist : List Entry) (D : Int) (h : Holding)
    (hp : ∃ x ∈ hist, x.tgt = h.comm) : valueV V hist D h = (h.q, h.comm) := by
  obtain ⟨x, hx, hxt⟩ := hp
  have : h.comm ∈ primaries hist := by
    simp only [primaries, Gen.Prices.priceUnitIsPrimary, if_true, List.mem_map]
    exact ⟨x, hx, hxt⟩
  simp [valueV, this, Gen.Prices.marketSkipsPrimary]

/-- For a lot acquired at a cost, -V is the conversion into the commodity of the lot
    price, so everything proved for `valueX` applies to it. -/
theorem C10.market_lot_is_exchange (V : List Comm) (hist : List Entry) (D : Int) (h : Holding) (t : Comm)
    (hp : ∀ x ∈ hist, x.tgt ≠ h.comm) (hl : h.lot = some t) :
    valueV V hist D h = valueX V hist D t h := by
  have : h.comm ∉ primaries hist := by
    simp only [primaries, Gen.Prices.priceUnitIsPrimary, if_true, List.mem_map, not_exists, not_and]
    exact hp
  simp [valueV, this, hl]

/-- Without a lot price, -V picks for `c` a recorded price that involves `c`, is dated not
    after `D`, and such that no recorded price involving `c` lies in `(chosen, D]`. -/
theorem C10.market_pick_is_latest_le (hist : List Entry) (c : Comm) (D : Int) (e : Entry)
    (h : marketPick (Graph.ofHistory hist) c D = some e) :
    e ∈ hist ∧ e.touches c ∧ e.date ≤ D ∧
    ∀ x ∈ hist, x.touches c → x.date ≤ D → x.date ≤ e.date :=
  let ⟨h1, h2, h3, h4, _⟩ := marketPick_hist h
  ⟨h1, h2, h3, h4⟩

/-- … and the holding becomes `q × p` of the unit of that price (`q / p` of the priced
    commodity if the holding's commodity were the unit). -/
theorem C10.market_value_exact (V : List Comm) (hist : List Entry) (D : Int) (h : Holding) (e : Entry)
    (hp : ∀ x ∈ hist, x.tgt ≠ h.comm) (hl : h.lot = none)
    (he : marketPick (Graph.ofHistory hist) h.comm D = some e) :
    valueV V hist D h = (h.q * e.price, e.tgt) := by
  have hnp : h.comm ∉ primaries hist := by
    simp only [primaries, Gen.Prices.priceUnitIsPrimary, if_true, List.mem_map, not_exists, not_and]
    exact hp
  have ht : e.tgt ≠ h.comm := hp e (marketPick_hist he).1
  simp [valueV, hnp, hl, he, Entry.other, ht, rate]

/-- -V leaves the holding alone when no recorded price involving its commodity is dated
    not after `D`. -/
theorem C10.market_no_price_unconverted (V : List Comm) (hist : List Entry) (D : Int) (h : Holding)
    (hl : h.lot = none) (hno : ∀ x ∈ hist, x.touches h.comm → D < x.date) :
    valueV V hist D h = (h.q, h.comm) := by
  have := (marketPick_hist_none hist h.comm D).mpr hno
  unfold valueV
  split
  · rfl
  · simp [hl, this]

/-- The property's last sentence for -V, at full strength. -/
def C10.MarketFutureIrrelevant : Prop :=
  ∀ (V : List Comm) (hist : List Entry) (D : Int) (h : Holding),
    valueV V (hist.filter (fun e => e.date ≤ D)) D h = valueV V hist D h

/-- It does NOT hold for the code as it stands: `P 1970-01-01 00:00:10 AAA 2 BBB`,
    `P 1970-01-01 00:00:20 CCC 4 AAA`, 10 AAA valued at second 15 — with the later price
    present AAA is PRIMARY and stays `10 AAA`; without it the value is `20 BBB`. -/
theorem C10.market_future_irrelevant_false : ¬ C10.MarketFutureIrrelevant := by
  intro h
  have := h ["AAA", "BBB", "CCC"]
    [{ src := "AAA", tgt := "BBB", date := 10, price := 2 }, { src := "CCC", tgt := "AAA", date := 20, price := 4 }]
    15 { q := 10, comm := "AAA" }
  revert this
  decide +kernel

/-- Second way it fails (PRIMARY flags untouched): a later price `AAA 9 CCC` creates the
    AAA–CCC edge before the AAA–BBB edge, and the tie between the equal-dated quotes
    `AAA 3 BBB` / `AAA 7 CCC` then goes to CCC instead of BBB (history.cc 398-411). -/
theorem C10.market_future_reorders_neighbours :
    valueV ["AAA", "BBB", "CCC"]
      [{ src := "AAA", tgt := "CCC", date := 50, price := 9 }, { src := "AAA", tgt := "BBB", date := 10, price := 3 },
       { src := "AAA", tgt := "CCC", date := 10, price := 7 }] 15 { q := 10, comm := "AAA" } = (70, "CCC") ∧
    valueV ["AAA", "BBB", "CCC"]
      [{ src := "AAA", tgt := "BBB", date := 10, price := 3 },
       { src := "AAA", tgt := "CCC", date := 10, price := 7 }] 15 { q := 10, comm := "AAA" } = (30, "BBB") := by
  decide +kernel

/-- What holds for -V, with the two excluded situations as explicit decidable guards:
    (1) dropping the prices dated after `D` does not change whether the holding's
    commodity is PRIMARY, and (2) the holding is a lot (valued in the unit of its lot
    price) or no two prices of its commodity in different units carry the same moment. -/
theorem C10.market_future_irrelevant_partial (V : List Comm) (hist : List Entry) (D : Int) (h : Holding)
    (hprim : (primaries (hist.filter (fun e => e.date ≤ D))).contains h.comm = (primaries hist).contains h.comm)
    (hties : h.lot.isSome = true ∨ NoCrossTies hist h.comm D) :
    valueV V (hist.filter (fun e => e.date ≤ D)) D h = valueV V hist D h := by
  cases hl : h.lot with
  | some t => simp only [valueV, hprim, hl, C10.future_irrelevant]
  | none =>
    have hg : NoCrossTies hist h.comm D := by
      rcases hties with h' | h'
      · rw [hl] at h'; cases h'
      · exact h'
    simp only [valueV, hprim, hl, marketPick_filter_date hg]

/-! ### graphs with several routes (history.cc 435-546 in general)

`routeW choose` is boost's Dijkstra over the edges that have a price point at the moment,
with `distance_combine = max` (the length of a route is the age of its OLDEST price), and
`choose` standing for `Q.top()`.  Everything below is proved for every `choose` that returns
some gray vertex of least distance (`ChoiceOk`): it therefore holds whatever boost's heap
does with equally distant vertices.  `routeOf` / `valueXG` are the instance that pops what
boost 1.83's 4-ary heap pops (`popChoice_ok`). -/

/-- The chosen route is a simple path from the holding's commodity to the target, each step
    of which has a price point at the moment … -/
theorem C10.route_is_applicable (choose : DState → Option Comm) (hch : ChoiceOk choose)
    (hist : List Entry) (D : Int) (c tgt : Comm) (p : List Comm)
    (h : routeW choose (fgraph hist D) D c tgt = some p) :
    p.head? = some c ∧ p.getLast? = some tgt ∧ p.Nodup ∧ Linked (fun a b => recentEdge hist a b D) p :=
  let ⟨h1, h2, _, h4, h5, _⟩ := routeW_sound hch hist D c tgt p h
  ⟨h1, h2, h4, h5⟩

/-- … and that price point is a recorded price of the pair dated not after `D`, with no
    recorded price of the pair in `(chosen, D]`. -/
theorem C10.route_steps_are_latest (choose : DState → Option Comm) (hch : ChoiceOk choose)
    (hist : List Entry) (D : Int) (c tgt : Comm) (p : List Comm)
    (h : routeW choose (fgraph hist D) D c tgt = some p)
    (pre : List Comm) (a b : Comm) (rest : List Comm) (hp : p = pre ++ a :: b :: rest) :
    ∃ e, recentEdge hist a b D = some e ∧ e ∈ hist ∧ e.onPair a b ∧ e.date ≤ D ∧
      ∀ x ∈ hist, x.onPair a b → x.date ≤ D → x.date ≤ e.date := by
  have hl := (C10.route_is_applicable choose hch hist D c tgt p h).2.2.2
  rw [hp] at hl
  obtain ⟨e, he⟩ := Option.isSome_iff_exists.mp (linked_infix pre a b rest hl)
  exact ⟨e, he, recentEdge_sound he⟩

/-- Dijkstra's correctness for the model: among ALL paths of price points from the
    commodity to the target (simple or not), none has a more recent oldest price than
    the chosen route. -/
theorem C10.route_minimal (choose : DState → Option Comm) (hch : ChoiceOk choose)
    (hist : List Entry) (D : Int) (c tgt : Comm) (p : List Comm)
    (h : routeW choose (fgraph hist D) D c tgt = some p)
    (p' : List Comm) (hh : p'.head? = some c) (hl : p'.getLast? = some tgt)
    (hlink : Linked (fun a b => recentEdge hist a b D) p') :
    oldestAge (fun a b => recentEdge hist a b D) D p ≤ oldestAge (fun a b => recentEdge hist a b D) D p' :=
  (routeW_sound hch hist D c tgt p h).2.2.2.2.2 p' hh hl hlink

/-- A route is found whenever there is one. -/
theorem C10.route_complete (choose : DState → Option Comm) (hch : ChoiceOk choose)
    (hist : List Entry) (D : Int) (c tgt : Comm) (hne : c ≠ tgt)
    (p' : List Comm) (hh : p'.head? = some c) (hl : p'.getLast? = some tgt)
    (hlink : Linked (fun a b => recentEdge hist a b D) p') :
    ∃ p, routeW choose (fgraph hist D) D c tgt = some p :=
  routeW_complete hch hist D c tgt hne p' hh hl hlink

/-- The LENGTH of the route (age of its oldest price) does not depend on how ties are broken. -/
theorem C10.route_age_tie_independent (ch₁ ch₂ : DState → Option Comm) (h₁ : ChoiceOk ch₁) (h₂ : ChoiceOk ch₂)
    (hist : List Entry) (D : Int) (c tgt : Comm) (p₁ p₂ : List Comm)
    (hp₁ : routeW ch₁ (fgraph hist D) D c tgt = some p₁) (hp₂ : routeW ch₂ (fgraph hist D) D c tgt = some p₂) :
    oldestAge (fun a b => recentEdge hist a b D) D p₁ = oldestAge (fun a b => recentEdge hist a b D) D p₂ := by
  have a1 := C10.route_is_applicable ch₁ h₁ hist D c tgt p₁ hp₁
  have a2 := C10.route_is_applicable ch₂ h₂ hist D c tgt p₂ hp₂
  have m1 := C10.route_minimal ch₁ h₁ hist D c tgt p₁ hp₁ p₂ a2.1 a2.2.1 a2.2.2.2
  have m2 := C10.route_minimal ch₂ h₂ hist D c tgt p₂ hp₂ p₁ a1.1 a1.2.1 a1.2.2.2
  omega

/-- The date reported with the chained price (`least_recent`, history.cc 470-504) is the
    moment minus the route's length. -/
theorem C10.route_least_recent (choose : DState → Option Comm) (hch : ChoiceOk choose)
    (hist : List Entry) (D : Int) (c tgt : Comm) (p : List Comm)
    (h : routeW choose (fgraph hist D) D c tgt = some p) :
    ∃ m, leastRecent (fun a b => recentEdge hist a b D) p = some m ∧
      oldestAge (fun a b => recentEdge hist a b D) D p = D - m := by
  have ⟨h1, _, h3, _, h5, _⟩ := routeW_sound hch hist D c tgt p h
  cases p with
  | nil => simp at h1
  | cons a tl =>
    have htl : tl ≠ [] := by intro he; rw [he] at h3; simp at h3
    obtain ⟨m, hm, hmD, hb⟩ := leastRecent_oldest hist D tl a htl h5
    refine ⟨m, hm, ?_⟩
    unfold oldestAge
    rw [hb 0]
    omega

/-- The value on any price graph: unconverted, or exactly `q × Π` of the factors along the
    chosen route. -/
theorem C10.value_exact_general (choose : DState → Option Comm) (hist : List Entry) (D : Int) (tgt : Comm) (h : Holding) :
    valueW choose (fgraph hist D) D tgt h = (h.q, h.comm) ∨
    ∃ (p : List Comm) (r : Rat), routeW choose (fgraph hist D) D h.comm tgt = some p ∧
      rateAlong (fun a b => recentEdge hist a b D) p = some r ∧
      valueW choose (fgraph hist D) D tgt h = (h.q * r, tgt) := by
  have hre : feLookup (fgraph hist D) = fun a b => recentEdge hist a b D := by
    funext a b; exact feLookup_fgraph hist D a b
  unfold valueW
  split
  · exact Or.inl rfl
  · split
    · exact Or.inl rfl
    · rename_i p hp
      rw [hre]
      cases hr : rateAlong (fun a b => recentEdge hist a b D) p with
      | none => exact Or.inl rfl
      | some r => exact Or.inr ⟨p, r, hp, hr, rfl⟩

/-- With no path of price points to the target the holding stays as it is (general graphs). -/
theorem C10.unreachable_unconverted (choose : DState → Option Comm) (hch : ChoiceOk choose)
    (hist : List Entry) (D : Int) (tgt : Comm) (h : Holding)
    (hno : ¬ ∃ p : List Comm, p.head? = some h.comm ∧ p.getLast? = some tgt ∧ 2 ≤ p.length ∧
        Linked (fun a b => recentEdge hist a b D) p) :
    valueW choose (fgraph hist D) D tgt h = (h.q, h.comm) := by
  unfold valueW
  split
  · rfl
  · split
    · rfl
    · rename_i p hp
      have ⟨h1, h2, h3, _, h5, _⟩ := routeW_sound hch hist D h.comm tgt p hp
      exact absurd ⟨p, h1, h2, h3, h5⟩ hno

/-- On a forced chain (single edge, reversed edge, simple chain, walk through a forest) the
    general route choice is the chain, whatever the tie-break: … -/
theorem C10.route_coincides_on_chain (choose : DState → Option Comm) (hch : ChoiceOk choose)
    (V : List Comm) (hist : List Entry) (D : Int) (c tgt n : Comm) (rest : List Comm)
    (hV : ∀ e ∈ hist, e.src ∈ V ∧ e.tgt ∈ V)
    (hc : ChainFrom (fun a b => (recentEdge hist a b D).isSome) V [] c (n :: rest))
    (hl : (c :: n :: rest).getLast? = some tgt) :
    routeW choose (fgraph hist D) D c tgt = some (c :: n :: rest) := by
  have hne : c ≠ tgt := by
    intro heq
    have hm : tgt ∈ n :: rest := by
      rw [List.getLast?_cons_cons] at hl
      exact List.mem_of_getLast? hl
    exact chainFrom_fresh _ _ _ hc tgt hm (by simp [heq])
  -- the chain itself is a path of price points
  have hchain : Linked (fun a b => recentEdge hist a b D) (c :: n :: rest) := by
    have hpath := dfs_chain _ V tgt (n :: rest) [] c ((n :: rest).length + 1) hc (by omega) hl
    exact (dfs_sound (fun a b => recentEdge hist a b D) V tgt _ _ _ _ hpath).2.2
  obtain ⟨p, hp⟩ := routeW_complete hch hist D c tgt hne (c :: n :: rest) rfl hl hchain
  have ⟨h1, h2, _, h4, h5, _⟩ := routeW_sound hch hist D c tgt p hp
  cases p with
  | nil => simp at h1
  | cons a tl =>
    simp at h1; subst h1
    have hmemV : ∀ x ∈ tl, x ∈ V := by
      intro x hx
      obtain ⟨e, he, hx'⟩ := linked_mem_hist tl a h5 x hx
      rcases hx' with rfl | rfl
      · exact (hV e he).1
      · exact (hV e he).2
    have := chain_unique (fun a b => (recentEdge hist a b D).isSome) V tgt (n :: rest) [] a tl hc hl h2
      (linked_adj _ h5) h4 hmemV (by simp)
    rw [hp, this]

/-- … so there the general valuation is the one of `valueX`, and every theorem above about
    `valueX` on forced chains is a statement about ledger's route choice. -/
theorem C10.value_coincides_on_chain (choose : DState → Option Comm) (hch : ChoiceOk choose)
    (V : List Comm) (hist : List Entry) (D : Int) (tgt : Comm) (h : Holding) (n : Comm) (rest : List Comm)
    (hV : ∀ e ∈ hist, e.src ∈ V ∧ e.tgt ∈ V)
    (hc : ChainFrom (fun a b => (recentEdge hist a b D).isSome) V [] h.comm (n :: rest))
    (hlen : (n :: rest).length ≤ V.length)
    (hl : (h.comm :: n :: rest).getLast? = some tgt) :
    valueW choose (fgraph hist D) D tgt h = valueX V hist D tgt h := by
  have hroute := C10.route_coincides_on_chain choose hch V hist D h.comm tgt n rest hV hc hl
  obtain ⟨r, hr, hv⟩ := C10.value_exact_chain V hist D tgt h n rest hc hlen hl
  have hne : h.comm ≠ tgt := by
    intro heq
    have hm : tgt ∈ n :: rest := by
      rw [List.getLast?_cons_cons] at hl
      exact List.mem_of_getLast? hl
    exact chainFrom_fresh _ _ _ hc tgt hm (by simp [heq])
  have hre : feLookup (fgraph hist D) = fun a b => recentEdge hist a b D := by
    funext a b; exact feLookup_fgraph hist D a b
  rw [hv]
  unfold valueW
  simp only [hne, if_false, hroute, hre, hr]

/-- On forced chains prices dated after `D` never influence ledger's `-X` valuation
    (the property's last sentence, for the property's graphs, for the real route choice). -/
theorem C10.future_irrelevant_on_chain (choose : DState → Option Comm) (hch : ChoiceOk choose)
    (V : List Comm) (hist : List Entry) (D : Int) (tgt : Comm) (h : Holding) (n : Comm) (rest : List Comm)
    (hV : ∀ e ∈ hist, e.src ∈ V ∧ e.tgt ∈ V)
    (hc : ChainFrom (fun a b => (recentEdge hist a b D).isSome) V [] h.comm (n :: rest))
    (hlen : (n :: rest).length ≤ V.length)
    (hl : (h.comm :: n :: rest).getLast? = some tgt) :
    valueW choose (fgraph (hist.filter (fun e => e.date ≤ D)) D) D tgt h = valueW choose (fgraph hist D) D tgt h := by
  have hadj : (fun a b => (recentEdge (hist.filter (fun e => e.date ≤ D)) a b D).isSome) =
      (fun a b => (recentEdge hist a b D).isSome) := by
    funext a b; rw [recentEdge_filter_date]
  have hV' : ∀ e ∈ hist.filter (fun e => e.date ≤ D), e.src ∈ V ∧ e.tgt ∈ V :=
    fun e he => hV e (List.mem_filter.mp he).1
  rw [C10.value_coincides_on_chain choose hch V hist D tgt h n rest hV hc hlen hl,
      C10.value_coincides_on_chain choose hch V _ D tgt h n rest hV' (by rw [hadj]; exact hc) hlen hl,
      C10.future_irrelevant]

/-- The property's last sentence for `-X` on ALL price graphs, at full strength. -/
def C10.ExchangeFutureIrrelevantGeneral : Prop :=
  ∀ (hist : List Entry) (D : Int) (tgt : Comm) (h : Holding),
    valueXG (hist.filter (fun e => e.date ≤ D)) D tgt h = valueXG hist D tgt h

/-- It does NOT hold on graphs with several equally old routes: a diamond AAA–BBB–DDD /
    AAA–CCC–DDD with all four prices at second 10 and a later price `AAA 9 CCC` at second 50
    recorded first.  The later price creates the AAA–CCC edge first, CCC is pushed and popped
    before BBB, and the tie goes to the route through CCC (210) instead of BBB (100).
    Reproduced on the binary; outside the graphs the property quantifies over. -/
theorem C10.exchange_future_irrelevant_general_false : ¬ C10.ExchangeFutureIrrelevantGeneral := by
  intro h
  have := h
    [{ src := "AAA", tgt := "CCC", date := 50, price := 9 }, { src := "AAA", tgt := "BBB", date := 10, price := 2 },
     { src := "AAA", tgt := "CCC", date := 10, price := 3 }, { src := "BBB", tgt := "DDD", date := 10, price := 5 },
     { src := "CCC", tgt := "DDD", date := 10, price := 7 }]
    15 "DDD" { q := 10, comm := "AAA" }
  revert this
  decide +kernel

/-- What holds on every graph, with the guard spelled out: if dropping the prices dated
    after `D` leaves the list of applicable edges (in creation order, with their price
    points) as it is, the valuation is the same — for every tie-break. -/
theorem C10.exchange_future_irrelevant_general_partial (choose : DState → Option Comm)
    (hist : List Entry) (D : Int) (tgt : Comm) (h : Holding)
    (hg : fgraph (hist.filter (fun e => e.date ≤ D)) D = fgraph hist D) :
    valueW choose (fgraph (hist.filter (fun e => e.date ≤ D)) D) D tgt h = valueW choose (fgraph hist D) D tgt h := by
  rw [hg]

/-- The VALUE does depend on the tie-break when equally old routes carry different
    prices: the same diamond, boost's heap against a queue scanned from its newest end. -/
theorem C10.value_tie_dependent :
    ∃ (hist : List Entry) (D : Int) (tgt : Comm) (h : Holding),
      valueW popChoice (fgraph hist D) D tgt h ≠ valueW altChoice (fgraph hist D) D tgt h :=
  ⟨[{ src := "AAA", tgt := "BBB", date := 10, price := 2 }, { src := "AAA", tgt := "CCC", date := 10, price := 3 },
    { src := "BBB", tgt := "DDD", date := 10, price := 5 }, { src := "CCC", tgt := "DDD", date := 10, price := 7 }],
   15, "DDD", { q := 10, comm := "AAA" }, by decide +kernel⟩

/-- It does not when all routes whose oldest price is as recent as possible multiply to the
    same factor (in particular when there is only one such route). -/
theorem C10.value_tie_independent (ch₁ ch₂ : DState → Option Comm) (h₁ : ChoiceOk ch₁) (h₂ : ChoiceOk ch₂)
    (hist : List Entry) (D : Int) (tgt : Comm) (h : Holding)
    (huniq : ∀ p₁ p₂ : List Comm,
      p₁.head? = some h.comm → p₁.getLast? = some tgt → p₁.Nodup → Linked (fun a b => recentEdge hist a b D) p₁ →
      p₂.head? = some h.comm → p₂.getLast? = some tgt → p₂.Nodup → Linked (fun a b => recentEdge hist a b D) p₂ →
      oldestAge (fun a b => recentEdge hist a b D) D p₁ = oldestAge (fun a b => recentEdge hist a b D) D p₂ →
      rateAlong (fun a b => recentEdge hist a b D) p₁ = rateAlong (fun a b => recentEdge hist a b D) p₂) :
    valueW ch₁ (fgraph hist D) D tgt h = valueW ch₂ (fgraph hist D) D tgt h := by
  have hre : feLookup (fgraph hist D) = fun a b => recentEdge hist a b D := by
    funext a b; exact feLookup_fgraph hist D a b
  unfold valueW
  by_cases hc : h.comm = tgt
  · simp [hc]
  · simp only [hc, if_false, hre]
    cases hp₁ : routeW ch₁ (fgraph hist D) D h.comm tgt with
    | none =>
      cases hp₂ : routeW ch₂ (fgraph hist D) D h.comm tgt with
      | none => rfl
      | some p₂ =>
        have a2 := C10.route_is_applicable ch₂ h₂ hist D h.comm tgt p₂ hp₂
        obtain ⟨p, hp⟩ := C10.route_complete ch₁ h₁ hist D h.comm tgt hc p₂ a2.1 a2.2.1 a2.2.2.2
        rw [hp₁] at hp; cases hp
    | some p₁ =>
      have a1 := C10.route_is_applicable ch₁ h₁ hist D h.comm tgt p₁ hp₁
      cases hp₂ : routeW ch₂ (fgraph hist D) D h.comm tgt with
      | none =>
        obtain ⟨p, hp⟩ := C10.route_complete ch₂ h₂ hist D h.comm tgt hc p₁ a1.1 a1.2.1 a1.2.2.2
        rw [hp₂] at hp; cases hp
      | some p₂ =>
        have a2 := C10.route_is_applicable ch₂ h₂ hist D h.comm tgt p₂ hp₂
        have hage := C10.route_age_tie_independent ch₁ ch₂ h₁ h₂ hist D h.comm tgt p₁ p₂ hp₁ hp₂
        simp only [huniq p₁ p₂ a1.1 a1.2.1 a1.2.2.1 a1.2.2.2 a2.1 a2.2.1 a2.2.2.1 a2.2.2.2 hage]

/-- boost's heap is an admissible tie-break, so all of the above is about `routeOf` / `valueXG`. -/
theorem C10.heap_choice_admissible : ChoiceOk popChoice := popChoice_ok

/-! ### non-vacuity -/

/-- AAA priced in BBB on days 10 and 20 (the second twice, the later record winning),
    BBB priced *in* CCC the other way round. -/
def C10.exHist : List Entry :=
  [{ src := "AAA", tgt := "BBB", date := 20, price := 3 },
   { src := "AAA", tgt := "BBB", date := 10, price := 2 },
   { src := "CCC", tgt := "BBB", date := 5, price := 4 },
   { src := "AAA", tgt := "BBB", date := 20, price := 7 / 2 },
   { src := "AAA", tgt := "BBB", date := 30, price := 9 }]

example : recentEdge C10.exHist "AAA" "BBB" 25 = some { src := "AAA", tgt := "BBB", date := 20, price := 7 / 2 } := by
  decide +kernel

example : recentEdge C10.exHist "BBB" "AAA" 9 = none := by decide +kernel

example : ChainFrom (fun a b => (recentEdge C10.exHist a b 25).isSome) ["AAA", "BBB", "CCC"] [] "AAA" ["BBB", "CCC"] := by
  decide +kernel

/-- 10 AAA → CCC on day 25: 10 × 7/2 (direct) × 1/4 (reversed quote). -/
example : valueX ["AAA", "BBB", "CCC"] C10.exHist 25 "CCC" { q := 10, comm := "AAA" } = (35 / 4, "CCC") := by
  decide +kernel

example : valueX ["AAA", "BBB", "CCC"] C10.exHist 4 "CCC" { q := 10, comm := "AAA" } = (10, "AAA") := by
  decide +kernel

example : valueV ["AAA", "BBB", "CCC"] C10.exHist 25 { q := 10, comm := "AAA" } = (35, "BBB") := by
  decide +kernel

example : valueV ["AAA", "BBB", "CCC"] C10.exHist 25 { q := 10, comm := "BBB" } = (10, "BBB") := by
  decide +kernel

/-- the guards of `C10.market_future_irrelevant_partial` hold on it -/
example : NoCrossTies C10.exHist "AAA" 25 := by decide +kernel

example : (primaries (C10.exHist.filter (fun e => e.date ≤ 25))).contains "AAA" = (primaries C10.exHist).contains "AAA" := by
  decide +kernel

example : marketPick (Graph.ofHistory C10.exHist) "AAA" 25 = some { src := "AAA", tgt := "BBB", date := 20, price := 7 / 2 } := by
  decide +kernel

/-- a triangle: the direct quote AAA→CCC is older (day 5) than the two-hop route (day 20) -/
def C10.exTriangle : List Entry :=
  [{ src := "AAA", tgt := "CCC", date := 5, price := 20 },
   { src := "AAA", tgt := "BBB", date := 20, price := 3 },
   { src := "CCC", tgt := "BBB", date := 20, price := 1 / 2 }]

example : routeOf (fgraph C10.exTriangle 25) 25 "AAA" "CCC" = some ["AAA", "BBB", "CCC"] := by decide +kernel

example : routeOf (fgraph C10.exTriangle 10) 10 "AAA" "CCC" = some ["AAA", "CCC"] := by decide +kernel

example : valueXG C10.exTriangle 25 "CCC" { q := 10, comm := "AAA" } = (60, "CCC") := by decide +kernel

example : oldestAge (fun a b => recentEdge C10.exTriangle a b 25) 25 ["AAA", "BBB", "CCC"] = 5 := by decide +kernel

/-- the forest example again, through the general route choice -/
example : valueXG C10.exHist 25 "CCC" { q := 10, comm := "AAA" } = (35 / 4, "CCC") := by decide +kernel

end Ledger
