/-
C11 — no input makes ledger crash, corrupt memory or hang.  PARTIAL.

What is proved here (for all inputs, no bounds):
  * index safety of every bounded-copy routine listed in `Gen.bufferSites`
    (re-extracted from /repo/src on every run): the bytes stored stay inside the
    array — `C11.all_sites_safe_partial` (the arithmetic, `decide` over the
    extracted capacities/limits) and `C11.sites_in_bounds_partial` (for every input);
  * exact/maximum byte counts of READ_INTO, the symbol loop, parse_quantity;
  * termination of alias expansion and of stepping by a positive period length.
What is proved to FAIL in the current code (full statement kept as
`C11.AllSitesSafe`; negations on witnesses):
  * copies with no bound (item.cc parse_tags `buf[256]`, format.cc `buf[65535]`,
    utils.cc split_arguments `buf[4096]`, global.cc `prompt[32]`) overflow on every
    payload of `overflowLen` bytes or more — `C11.unbounded_site_overflows`;
  * option.cc find_option's guard is off by one — `C11.find_option_pinned_overflows`;
  * a format ending in a backslash is read past its terminator — `C11.format_trailing_backslash_overread`;
  * a zero period length never terminates — `C11.step_zero_never_terminates`;
  * the parser's recursion depth and the depth of the tree it builds are unbounded in the
    input — `C11.parse_depth_unbounded`, `C11.tree_depth_unbounded`.
NOT expressible in this model and only exercised by the check (ASan/UBSan, timeouts):
heap lifetime, stack size, memory safety of all code outside the listed routines.
-/
import LedgerModel.Lemmas.Buffers
import LedgerModel.Gen.BufferSites
import LedgerModel.Gen.BufferFns
import LedgerModel.Model.BufferFnsPinned

namespace Ledger
open Buffers

/-- Sites whose current code has no (or a wrong) bound: excluded from the `_partial`
    theorems by name.  Each is reported by the check with a replay on the binary until it is
    repaired; after a repair the extracted row becomes bounded and the exclusion is moot. -/
def C11.openSites : List String :=
  ["item.cc:parse_tags:buf", "format.cc:parse_elements:buf", "utils.cc:split_arguments:buf",
   "global.cc:prompt_string:prompt", "option.cc:find_option:buf"]

/-- The READ_INTO macros, parse_quantity, parse_symbol, annotation_t::parse, parse_ident, the
    READ_INTO_ blocks of token_t::next, read_line, the date-length guards, find_account's head,
    expand_aliases, the stabilize loop and parse_value_term found in the working tree are the
    text `Model/Buffers.lean` was written against. -/
theorem C11.buffer_fns_pinned : Gen.bufferFns = Pinned.bufferFns := rfl

/-- FULL statement (false for the current code, see the negations below): every store of
    every listed routine stays inside its array, for every input. -/
def C11.AllSitesSafe : Prop := ∀ s ∈ Gen.bufferSites, ∀ inp : List Char, s.inBounds inp

/-- READ_INTO / READ_INTO_ never store more than `size` bytes, whatever the stream holds. -/
theorem C11.readInto_len_le (limit : Nat) (cond : Char → Bool) (inp : List Char) :
    (readInto limit cond 0 inp).1.length ≤ limit := Buffers.readInto_len_le limit cond inp

/-- …and exactly `min size n` bytes on n accepted characters without backslash or newline. -/
theorem C11.readInto_len_exact (limit : Nat) (cond : Char → Bool) (inp : List Char)
    (h : ∀ c ∈ inp, cond c = true ∧ c ≠ '\n' ∧ c ≠ '\\') :
    (readInto limit cond 0 inp).1.length = min limit inp.length := by
  rw [Buffers.readInto_plain limit cond 0 inp h]; simp

/-- The unquoted commodity-symbol loop never stores more than its limit. -/
theorem C11.parseSymbol_len_le (limit : Nat) (valid : Char → Bool) (inp : List Char) :
    (symbolLoop limit valid 0 inp).1.length ≤ limit := Buffers.symbolLoop_len_le limit valid inp

/-- parse_quantity stores at most `max` bytes including the sign. -/
theorem C11.parseQuantity_len_le (limit : Nat) (h : 1 ≤ limit) (inp : List Char) :
    (parseQuantity limit inp).1.length ≤ limit := Buffers.parseQuantity_len_le limit h inp

/-- Any bounded site stores at most `limit + extra` bytes, for every input. -/
theorem C11.site_len_le (s : Site) (h : s.bounded = true) (inp : List Char) :
    (s.run inp).length ≤ s.maxWritten := Buffers.run_len_le s h inp

/-- The arithmetic over the EXTRACTED table: for every bounded site outside `openSites`,
    offset + largest payload + terminator fits the array.  Changing a READ_INTO size,
    shrinking an array or weakening a guard in the sources breaks this `decide`. -/
theorem C11.all_sites_safe_partial :
    ∀ s ∈ Gen.bufferSites, s.name ∉ C11.openSites →
      s.bounded = true ∧ s.offset + s.maxWritten + s.terminator ≤ s.capacity := by decide

/-- Hence, for every input, every store of those routines is inside the array. -/
theorem C11.sites_in_bounds_partial :
    ∀ s ∈ Gen.bufferSites, s.name ∉ C11.openSites → ∀ inp : List Char, s.inBounds inp := by
  intro s hs hn inp
  have h := C11.all_sites_safe_partial s hs hn
  apply Buffers.inBounds_of_fits
  simp only [Site.fits, h.1, Bool.true_and, decide_eq_true_eq]
  exact h.2

/-- A copy with no bound overflows its array on EVERY payload of `overflowLen` bytes or more
    (the capacity does not matter: no fixed array is large enough). -/
theorem C11.unbounded_site_overflows (s : Site) (hk : s.kind = .unboundedCopy) (inp : List Char)
    (hl : s.overflowLen ≤ inp.length) : ¬ s.inBounds inp := Buffers.unbounded_overflows s hk inp hl

/-- The rows of the pinned tree (54ea96f + hooks) for the open sites. -/
def C11.pinnedOpen : List Site := [
  { name := "item.cc:parse_tags:buf", kind := .unboundedCopy, capacity := 256, offset := 0, limit := 0, extra := 0, terminator := 1, src := "item.cc:164" },
  { name := "format.cc:parse_elements:buf", kind := .unboundedCopy, capacity := 65535, offset := 0, limit := 0, extra := 0, terminator := 0, src := "format.cc:138" },
  { name := "utils.cc:split_arguments:buf", kind := .unboundedCopy, capacity := 4096, offset := 0, limit := 0, extra := 0, terminator := 1, src := "utils.cc:514" },
  { name := "global.cc:prompt_string:prompt", kind := .unboundedCopy, capacity := 32, offset := 0, limit := 0, extra := 1, terminator := 1, src := "global.cc:174" },
  { name := "option.cc:find_option:buf", kind := .guardedCopy, capacity := 128, offset := 0, limit := 127, extra := 1, terminator := 1, src := "option.cc:56" }]

/-- On the pinned rows the full statement fails at each site, with these payload lengths:
    256 (tag/date note), 65536 (format literal), 4096 (REPL argument), 31 (REPL `push`es),
    127 (option name). -/
theorem C11.pinned_open_sites_overflow :
    ∀ s ∈ C11.pinnedOpen, ¬ s.inBounds (List.replicate (s.overflowLen) 'x') := by
  intro s hs
  simp only [C11.pinnedOpen, List.mem_cons, List.mem_nil_iff, or_false] at hs
  rcases hs with rfl | rfl | rfl | rfl | rfl
  · exact Buffers.unbounded_overflows _ rfl _ (by rw [List.length_replicate]; exact Nat.le_refl _)
  · exact Buffers.unbounded_overflows _ rfl _ (by rw [List.length_replicate]; exact Nat.le_refl _)
  · exact Buffers.unbounded_overflows _ rfl _ (by rw [List.length_replicate]; exact Nat.le_refl _)
  · exact Buffers.unbounded_overflows _ rfl _ (by rw [List.length_replicate]; exact Nat.le_refl _)
  · exact Buffers.guarded_overflows _ rfl _ (by rw [List.length_replicate]; decide)
      (by rw [List.length_replicate]; decide)

/-- option.cc find_option: the guard `name.length() > 127` lets a 127-byte name through, which
    stores 127 + '_' + NUL = 129 bytes into `char buf[128]`. -/
theorem C11.find_option_pinned_overflows :
    ¬ ({ name := "option.cc:find_option:buf", kind := .guardedCopy, capacity := 128, offset := 0,
         limit := 127, extra := 1, terminator := 1, src := "" } : Site).inBounds (List.replicate 127 'a') := by
  exact Buffers.guarded_overflows _ rfl _ (by rw [List.length_replicate]; decide)
    (by rw [List.length_replicate]; decide)

/-- format_t::parse_elements reads no further than the terminator when the format has no backslash… -/
theorem C11.format_scan_in_bounds (inp : List Char) (h : ∀ c ∈ inp, c ≠ '\\') :
    formatScanMaxRead (inp.length + 1) 0 inp ≤ inp.length := by
  have := Buffers.formatScan_le (inp.length + 1) 0 inp h; omega

/-- …and reads one byte PAST the terminator when the format ends in a lone backslash
    (format.cc 159-173: `p++` then `continue` into the loop's `p++`). -/
theorem C11.format_trailing_backslash_overread (pre : List Char) (h : ∀ c ∈ pre, c ≠ '\\') :
    formatScanMaxRead (pre.length + 1) 0 (pre ++ ['\\']) = (pre ++ ['\\']).length + 1 := by
  have := Buffers.formatScan_overread pre h 0
  omega

/-- Alias expansion terminates: with fuel above the number of aliases the loop never runs out
    (each round stops, throws "Infinite recursion", or marks an alias not seen before). -/
theorem C11.alias_expansion_terminates (aliases : List (String × String)) (recursive : Bool) (name : String) :
    expandAliases aliases recursive (aliases.length + 1) [] name ≠ .outOfFuel := by
  apply Buffers.expandAliases_fuel
  have := Buffers.unseen_le aliases []
  omega

/-- Stepping by a positive length reaches the date: the loop ends within `date - start + 1` rounds.
    (`Gen.periodZeroRejected` records whether the period parser of the working tree guarantees `0 < len`.) -/
theorem C11.step_terminates (len : Nat) (hl : 0 < len) (start date : Nat) :
    (stepTo len (date - start + 1) start date).isSome = true :=
  Buffers.stepTo_terminates len hl _ start date (by omega)

/-- FULL statement of termination for every length — false: -/
def C11.StepAlwaysTerminates : Prop := ∀ len start date, ∃ fuel, (stepTo len fuel start date).isSome = true

/-- With length 0 (`-p "every 0 days"`) and a date after the start, no amount of fuel suffices:
    the loop of date_interval_t::stabilize never ends (times.cc 1255-1266). -/
theorem C11.step_zero_never_terminates : ¬ C11.StepAlwaysTerminates := by
  intro h
  obtain ⟨fuel, hf⟩ := h 0 0 1
  rw [Buffers.stepTo_zero_diverges fuel 0 1 (by omega)] at hf
  cases hf

/-- Recursion depth of the parser is at most the number of `(` consumed plus one… -/
theorem C11.parse_depth_le (fuel : Nat) (toks : List Tok) (a : Ast) (r : List Tok) (d : Nat)
    (h : parseExpr fuel toks = some (a, r, d)) : d ≤ lpCount toks + 1 := by
  have := (Buffers.parse_depth_bound fuel).2.1 toks a r d h; omega

/-- …and exactly n + 1 on n nested parentheses: -/
theorem C11.parse_depth_nested (n : Nat) :
    parseExpr (2 * n + 2) (nested n) = some (.num, [], n + 1) := by
  have := Buffers.parseExpr_nested n (2 * n + 2) [] (by omega) rfl
  simpa [nested] using this

/-- so no bound on the recursion depth exists (the C++ has none either: parser.cc 38-72,
    520-549); the witness family is `nested n`. -/
theorem C11.parse_depth_unbounded (B : Nat) :
    ∃ toks fuel a r d, parseExpr fuel toks = some (a, r, d) ∧ B < d :=
  ⟨nested B, 2 * B + 2, .num, [], B + 1, C11.parse_depth_nested B, by omega⟩

/-- A flat chain `1 + 1 + … + 1` parses at constant depth but builds a tree of depth n + 1;
    op_t::compile / calc / print and the destructor recurse over that tree. -/
theorem C11.tree_depth_unbounded (B : Nat) :
    ∃ toks fuel a r d, parseExpr fuel toks = some (a, r, d) ∧ d = 1 ∧ B < a.depth := by
  refine ⟨chain B, B + 3, leftTree .num B, [], 1, Buffers.parseExpr_chain B (B + 3) (by omega), rfl, ?_⟩
  rw [Buffers.leftTree_depth]; simp only [Ast.depth]; omega

/-! ### non-vacuity -/

example : Gen.bufferSites.length ≥ 30 := by decide
example : (Gen.bufferSites.filter (fun s => !C11.openSites.contains s.name)).length ≥ 25 := by decide
example : (readInto 255 (Cond.notChar ']').test 0 (List.replicate 300 '0')).1.length = 255 := by
  rw [C11.readInto_len_exact]
  · simp only [List.length_replicate]; decide
  · intro c hc; rw [List.mem_replicate] at hc; rw [hc.2]; decide
example : (readInto 5 (Cond.notChar '/').test 0 ['a', 'b', '\\', 't', 'c', 'd', 'e', 'f', 'g']).1 = ['a', 'b', '\t', 'c', 'd'] := by decide
example : (readInto 5 Cond.alpha.test 0 ['a', 'b', '\\', 't', 'c']) = (['a', 'b'], ['\\', 't', 'c']) := by decide
example : (parseQuantity 5 ['-', '1', '2', '3', '4', '5', '6', '7']).1 = ['-', '1', '2', '3', '4'] := by decide
example : (parseQuantity 5 ['1', '2', '.', ',', ' ']) = (['1', '2', '.', ','], ['1', '2']) := by decide
example : (symbolLoop 3 Cond.symbolChar.test 0 ['A', 'B', 'C', 'D']).1 = ['A', 'B', 'C'] := by decide
example : expandAliases [("A", "B"), ("B", "A")] true 3 [] "A" = .infiniteRecursion "A" := by decide
example : stepTo 7 20 0 100 = some 98 := by decide
example : parseExpr 8 (nested 3) = some (.num, [], 4) := by decide

end Ledger
