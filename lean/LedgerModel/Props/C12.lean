/-
C12 — errors are located, counted and never yield a partial report.

Statements are about the loader model of Model/Errors.lean (`load`, `loadFile`,
`loadRoots`, `run`), for every checking style, every file body (any number of
items, includes nested to any depth) and every report text.  "Invalid item" is
`Located.invalid cfg` (its kind is an error under the checking style);
`invalidItems cfg f` lists them in reading order with their file and include
chain.  The accounting shapes (`Gen.errorsPerCatch`, `Gen.errorFlagSetInCatch`,
`Gen.stopAfterFaultyFile`) and the exit-status expression
(`Gen.exitStatusShape`) are re-extracted from the working tree on every run, so
these theorems are re-proved against what the source says now.
-/
import LedgerModel.Lemmas.Errors
import LedgerModel.Gen.ErrorFns
import LedgerModel.Model.ErrorFnsPinned

namespace Ledger
open Errors

/-- The routines of textual.cc / global.cc / journal.cc / session.cc / error.cc / main.cc that
    the model mirrors are, in the working tree, the text the model was written against (the
    two interpreted places — main.cc's `error_count` handler and session.cc's per-file loop —
    are read into `Gen.exitStatusShape` / `Gen.stopAfterFaultyFile` instead). -/
theorem C12.error_fns_pinned : Gen.errorFns = Pinned.errorFns := rfl

/-- Obligation on the working tree: the catch block of `instance_t::parse` counts
    one error per caught exception and sets `error_flag`. -/
theorem C12.accounting_shape : Gen.errorsPerCatch = 1 ∧ Gen.errorFlagSetInCatch = true :=
  ⟨per_catch, flag_set⟩

/-- The error count of a file (includes expanded) is the number of its invalid
    items, and ledger writes exactly that many records. -/
theorem C12.errors_eq_invalid_items (cfg : Cfg) (f : File) (report : String) :
    (loadFile cfg f).errors = (invalidItems cfg f).length ∧
    (run cfg [f] report).stderr.length = (invalidItems cfg f).length := by
  refine ⟨loadFile_errors cfg f, ?_⟩
  rw [run_stderr, readPrefix_single]
  simp

/-- The k-th record names the k-th invalid item's file, its include chain, and a
    line inside that item's line range. -/
theorem C12.each_error_located (cfg : Cfg) (f : File) (report : String) (k : Nat)
    (hk : k < (invalidItems cfg f).length) :
    ∃ m, (run cfg [f] report).stderr[k]? = some m ∧
      m.loc.file = ((invalidItems cfg f)[k]).file ∧
      m.chain = ((invalidItems cfg f)[k]).chain ∧
      ((invalidItems cfg f)[k]).item.first ≤ m.loc.line ∧
      m.loc.line ≤ ((invalidItems cfg f)[k]).item.last := by
  refine ⟨((invalidItems cfg f)[k]).msg, ?_, rfl, rfl, ?_⟩
  · rw [run_stderr, readPrefix_single]
    simp [hk]
  · exact reportLine_mem _

/-- The exact line: the last line for a balance error, the header line for
    header-level faults, the offending posting's line otherwise. -/
theorem C12.reported_line (cfg : Cfg) (f : File) (report : String) (k : Nat)
    (hk : k < (invalidItems cfg f).length) :
    ((run cfg [f] report).stderr[k]?).map (·.loc.line) =
      some ((invalidItems cfg f)[k]).item.reportLine := by
  rw [run_stderr, readPrefix_single]
  simp [hk, Located.msg]

/-- Any invalid item in any of the files ⇒ nothing on standard output. -/
theorem C12.no_report_on_error (cfg : Cfg) (roots : List File) (report : String)
    (h : ∃ f ∈ roots, invalidItems cfg f ≠ []) :
    (run cfg roots report).stdout = "" := by
  rw [run_stdout, if_pos ((reportedCount_pos cfg roots).2 h)]

/-- No invalid item ⇒ no record, status 0, and the report is written. -/
theorem C12.valid_input_clean (cfg : Cfg) (roots : List File) (report : String)
    (h : ∀ f ∈ roots, invalidItems cfg f = []) :
    (run cfg roots report).stderr = [] ∧ (run cfg roots report).status = 0 ∧
    (run cfg roots report).stdout = report := by
  have h0 : ¬ 0 < reportedCount cfg roots := by
    rw [reportedCount_pos]; rintro ⟨f, hf, hne⟩; exact hne (h f hf)
  refine ⟨?_, ?_, ?_⟩
  · rw [run_stderr]
    have : reportedCount cfg roots = 0 := by omega
    rw [reportedCount, List.length_eq_zero_iff] at this
    rw [this]; rfl
  · rw [run_status, if_neg h0]
  · rw [run_stdout, if_neg h0]

/-- FULL STATEMENT of the exit-status clause: some item is invalid iff the status
    the shell sees is non-zero. -/
def C12.StatusNonzeroIffError : Prop :=
  ∀ (cfg : Cfg) (roots : List File) (report : String),
    (∃ f ∈ roots, invalidItems cfg f ≠ []) ↔ (run cfg roots report).status ≠ 0

/-- The full statement holds for every status expression that cannot wrap
    (`min count k` with `1 ≤ k ≤ 255`, or `count > 0 ? 1 : 0`). -/
theorem C12.status_nonzero_iff_error (h : shapeSafe Gen.exitStatusShape = true) :
    C12.StatusNonzeroIffError := by
  intro cfg roots report
  rw [run_status, ← reportedCount_pos]
  constructor
  · intro hp
    rw [if_pos hp, exitStatus, exitStatusExpr_eq]
    exact statusOf_safe _ h _ hp
  · intro hs
    by_cases hp : 0 < reportedCount cfg roots
    · exact hp
    · rw [if_neg hp] at hs; exact absurd rfl hs

/-- With the raw count as status (`static_cast<int>(errors.count)`, main.cc 207) the
    full statement is FALSE: 256 unbalanced transactions give status 0. -/
theorem C12.status_wraps_counterexample (h : Gen.exitStatusShape = .raw) :
    ¬ C12.StatusNonzeroIffError := by
  intro hall
  have hinv : (invalidItems ⟨.normal, false⟩ ⟨"j.dat", faultyBody 256⟩).length = 256 :=
    faultyBody_invalid _ _ 256
  have hne : invalidItems ⟨.normal, false⟩ ⟨"j.dat", faultyBody 256⟩ ≠ [] := by
    intro h0; rw [h0] at hinv; cases hinv
  have hs := (hall ⟨.normal, false⟩ [⟨"j.dat", faultyBody 256⟩] "").1 ⟨_, List.mem_singleton.2 rfl, hne⟩
  apply hs
  have hc : reportedCount ⟨.normal, false⟩ [⟨"j.dat", faultyBody 256⟩] = 256 := by
    rw [reportedCount, readPrefix_single]; simpa using hinv
  rw [run_status, hc, exitStatus, exitStatusExpr_eq, h]
  decide

/-- What holds for the expression in the tree today (raw count or a safe shape):
    the status is non-zero iff some item is invalid, as long as fewer than 256
    records are written. -/
theorem C12.status_nonzero_iff_error_partial (cfg : Cfg) (roots : List File) (report : String)
    (hguard : reportedCount cfg roots < 256) :
    (∃ f ∈ roots, invalidItems cfg f ≠ []) ↔ (run cfg roots report).status ≠ 0 := by
  have hshape : Gen.exitStatusShape = .raw ∨ shapeSafe Gen.exitStatusShape = true := by decide
  rw [run_status, ← reportedCount_pos]
  constructor
  · intro hp
    rw [if_pos hp, exitStatus, exitStatusExpr_eq]
    exact statusOf_small _ hshape _ hp hguard
  · intro hs
    by_cases hp : 0 < reportedCount cfg roots
    · exact hp
    · rw [if_neg hp] at hs; exact absurd rfl hs

/-- FULL STATEMENT for several `-f` files: every invalid item of every file is
    counted (and so gets its record). -/
def C12.AllRootsReported : Prop :=
  ∀ (cfg : Cfg) (roots : List File),
    (loadRoots cfg roots Out.empty).errors = (roots.flatMap (invalidItems cfg)).length

/-- It holds if the reader goes on to the next file after a faulty one. -/
theorem C12.all_roots_reported (h : Gen.stopAfterFaultyFile = false) : C12.AllRootsReported := by
  intro cfg roots
  rw [loadRoots_errors, reportedCount]
  have : ∀ rs : List File, readPrefix cfg rs = rs := by
    intro rs; induction rs with
    | nil => rfl
    | cons f fs ih => simp [readPrefix, h, ih]
  rw [this]

/-- With session.cc's loop as it is (the `error_count` of the first faulty file
    leaves it) the full statement is FALSE: two files with one unbalanced
    transaction each produce one record. -/
theorem C12.later_roots_unreported_counterexample (h : Gen.stopAfterFaultyFile = true) :
    ¬ C12.AllRootsReported := by
  intro hall
  have := hall ⟨.normal, false⟩ [⟨"a.dat", faultyBody 1⟩, ⟨"b.dat", faultyBody 1⟩]
  rw [loadRoots_errors] at this
  simp only [reportedCount, readPrefix, h] at this
  revert this
  decide

/-- Several files, guarded: when every file after the first faulty one is clean,
    every invalid item of every file is counted and gets its record, in order. -/
theorem C12.all_roots_reported_partial (cfg : Cfg) (roots : List File)
    (hguard : laterRootsClean cfg roots = true) (report : String) :
    (loadRoots cfg roots Out.empty).errors = (roots.flatMap (invalidItems cfg)).length ∧
    (run cfg roots report).stderr = (roots.flatMap (invalidItems cfg)).map Located.msg := by
  rw [loadRoots_errors, run_stderr, reportedCount, invalid_flatMap_readPrefix cfg roots hguard]
  exact ⟨rfl, rfl⟩

/-- `--strict` turns the unknown-name kinds into warnings: no record, status 0,
    one located warning per such item. -/
theorem C12.strict_warns_only (f : File) (report : String) (cp : Bool)
    (h : ∀ l ∈ f.items, l.item.kind = .valid ∨ l.item.kind = .unknownAccount ∨
        l.item.kind = .unknownCommodity ∨ l.item.kind = .unknownPayee ∨
        l.item.kind = .unknownTag) :
    (run ⟨.strict, cp⟩ [f] report).stderr = [] ∧ (run ⟨.strict, cp⟩ [f] report).status = 0 ∧
    (run ⟨.strict, cp⟩ [f] report).stdout = report := by
  apply C12.valid_input_clean
  intro g hg
  rw [List.mem_singleton] at hg; subst hg
  rw [invalidItems, List.filter_eq_nil_iff]
  intro l hl
  rcases h l hl with hk | hk | hk | hk | hk <;> simp [Located.invalid, hk, Kind.sev] <;> split <;> simp

/-! ### Non-vacuity: a concrete tree with an include, evaluated by the kernel -/

/-- a.dat: valid (1-3), unbalanced (5-7), include b.dat (9), bad amount at 12 of 11-14,
    unknown account at 17 of 16-18;  b.dat: bad date (1-3), valid (5-7). -/
def C12.sample : File :=
  ⟨"a.dat",
    .item ⟨.valid, 1, 3, 1, by omega, by omega⟩ <|
    .item ⟨.unbalanced, 5, 7, 5, by omega, by omega⟩ <|
    .incl 9 "b.dat"
      (.item ⟨.badDate, 1, 3, 1, by omega, by omega⟩ <|
       .item ⟨.valid, 5, 7, 5, by omega, by omega⟩ .done) <|
    .item ⟨.badAmount, 11, 14, 12, by omega, by omega⟩ <|
    .item ⟨.unknownAccount, 16, 18, 17, by omega, by omega⟩ .done⟩

example : (run ⟨.normal, false⟩ [C12.sample] "R") =
    ⟨exitStatus 3, "", [⟨[], ⟨"a.dat", 7⟩⟩, ⟨[⟨"a.dat", 9⟩], ⟨"b.dat", 1⟩⟩, ⟨[], ⟨"a.dat", 12⟩⟩], []⟩ := by
  decide
example : (run ⟨.pedantic, false⟩ [C12.sample] "R").stderr.length = 4 := by decide
example : (run ⟨.strict, false⟩ [C12.sample] "R").warnings = [⟨"a.dat", 17⟩] := by decide
example : (run ⟨.strict, false⟩ [⟨"a.dat", .incl 4 "b.dat" (.item ⟨.unknownAccount, 1, 3, 2, by omega, by omega⟩ .done) .done⟩] "R").warnings
    = [⟨"a.dat", 4⟩] := by decide
example : (invalidItems ⟨.pedantic, false⟩ C12.sample).length = 4 := by decide
example : (run ⟨.normal, false⟩ [⟨"c.dat", .item ⟨.valid, 1, 3, 1, by omega, by omega⟩ .done⟩] "R") =
    ⟨0, "R", [], []⟩ := by decide
example : laterRootsClean ⟨.normal, false⟩ [⟨"c.dat", .done⟩, C12.sample, ⟨"d.dat", .done⟩] = true := by decide
example : exitStatus 255 ≠ 0 := by decide
example : (Msg.render ⟨[⟨"a.dat", 9⟩], ⟨"b.dat", 1⟩⟩) =
    ["In file included from \"a.dat\", line 9:", "While parsing file \"b.dat\", line 1:"] := by decide

/-- Obligations on the working tree (both defects are repaired in /repo: 83693a7 clamps the
    status, 0532b45 reads every `-f` file): the exit-status expression is one for which
    "errors > 0 ↔ status ≠ 0" holds, and a faulty file no longer stops the reading of the
    later ones.  A regression of either repair breaks these proofs. -/
theorem C12.status_flag : shapeSafe Gen.exitStatusShape = true := by decide

theorem C12.roots_flag : Gen.stopAfterFaultyFile = false := by decide

/-- Hence, on the working tree, the full statements hold. -/
theorem C12.status_nonzero_iff_error_now : C12.StatusNonzeroIffError :=
  C12.status_nonzero_iff_error C12.status_flag

theorem C12.all_roots_reported_now : C12.AllRootsReported :=
  C12.all_roots_reported C12.roots_flag

end Ledger
