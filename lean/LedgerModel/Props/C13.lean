/-
C13 — period reports partition the timeline.

Model: `Model/Period.lean` mirrors date_duration_t::add / find_nearest and
date_interval_t::resolve_end / stabilize / find_period / operator++ (times.cc,
times.h) and the interval_posts walk (filters.cc) step by step; `Ledger.Cal` is
boost's proleptic Gregorian calendar with its end-of-month snap.  `Inv`
(Lemmas/PeriodInterval.lean) is the state of an interval once `stabilize` has
run; `Fresh` is the interval as the period parser leaves it.

Every theorem below is for all dates, all lengths, all week starts 0..6, all
posting lists — the only guard is `0 < length`.  For length 0 the guard is
necessary: `C13.zero_length_add`, `C13.zero_length_diverges` (the stabilize
loop's measure does not decrease; ledger hangs on `-p "every 0 days"`).

Tie to the source: `C13.code_pinned` (text of the mirrored routines),
`C13.keyword_table` / `C13.add_matches_source` (tables re-extracted on every run),
and the differential check tools/props/c13.py.
-/
import LedgerModel.Lemmas.PeriodInterval
import LedgerModel.Model.Proto
import LedgerModel.Gen.PeriodCode
import LedgerModel.Model.PeriodCodePinned

namespace Ledger
open Period Cal

/-! ### tie to the source -/

/-- The routines found in the working tree are the ones the model mirrors. -/
theorem C13.code_pinned : Gen.periodCode = Pinned.periodCode := rfl

/-- The period keywords and `every` cases of the parser are the ones the property names:
    yearly, quarterly, bimonthly = 2 months, monthly, biweekly = 2 weeks, weekly, daily. -/
theorem C13.keyword_table :
    Gen.periodKeywords = [("yearly", "YEARS", 1), ("quarterly", "QUARTERS", 1), ("bimonthly", "MONTHS", 2),
      ("monthly", "MONTHS", 1), ("biweekly", "WEEKS", 2), ("weekly", "WEEKS", 1), ("daily", "DAYS", 1)] ∧
    Gen.everyPlural = [("years", "YEARS"), ("quarters", "QUARTERS"), ("months", "MONTHS"), ("weeks", "WEEKS"), ("days", "DAYS")] ∧
    Gen.everySingular = [("year", "YEARS"), ("quarter", "QUARTERS"), ("month", "MONTHS"), ("week", "WEEKS"), ("day", "DAYS")] :=
  ⟨rfl, rfl, rfl⟩

/-- The period parser refuses `every 0 <quantum>` (the repair of the zero-length hang, DESIGN 9-3):
    a regression of that check in times.cc breaks this obligation. -/
theorem C13.zero_rejected : Gen.everyRejectsZero = true := rfl

/-- Every keyword of the regenerated table resolves to a duration of positive length. -/
theorem C13.keywords_positive :
    ∀ e ∈ Gen.periodKeywords, ∃ d, keywordDuration? e.1 = some d ∧ d.quantum.name = e.2.1 ∧ d.length = e.2.2 ∧ 0 < d.length := by
  decide

/-- The model's `add` is `date_duration_t::add` as the working tree has it (boost days /
    weeks / months / 3·months / years of `length`). -/
theorem C13.add_matches_source (d : Duration) (n : Int) : addByTable Gen.durationAdd d n = some (d.add n) := by
  obtain ⟨q, len⟩ := d
  cases q <;> simp [addByTable, Gen.durationAdd, Quantum.name, Duration.add]

/-! ### the calendar lemma -/

/-- Adding a duration of positive length moves strictly forward, for every quantum —
    including boost's month arithmetic (Jan 31 + 1 month = Feb 29, + 1 month = Mar 31). -/
theorem C13.add_strict_mono (d : Duration) (n : Int) (h : 0 < d.length) : n < d.add n :=
  Period.add_strict_mono d n h

/-- The guard is necessary: a zero length adds nothing. -/
theorem C13.zero_length_add (d : Duration) (n : Int) (h : d.length = 0) : d.add n = n :=
  Period.add_zero_length d n h

/-- … and then the loop of `stabilize` (times.cc `while (*start < *date)`) cannot end: with any
    amount of fuel the model answers `diverges`.  (Finding C13:zero-length-period.) -/
theorem C13.zero_length_diverges (iv0 : Interval) (hf : iv0.finish = none) (hz : iv0.duration.length = 0)
    (d s : Int) (hlt : s < d) (fuel : Nat) :
    stabLoop d fuel { iv0 with start := some s, eod := none, next := none } = .error .diverges :=
  stabLoop_zero_diverges iv0 hf hz d s hlt fuel none (Or.inl rfl)

/-- With a positive length `stabilize` terminates on every interval fresh from the parser,
    for every date, and establishes the invariant `Inv` when the date lies inside the bounds. -/
theorem C13.stabilize_terminates (sow : Int) (h0 : 0 ≤ sow) (h6 : sow ≤ 6) (align : Bool) (p : Period) (dur : Duration)
    (hpos : 0 < dur.length) (d : Int) :
    ∃ iv1, stabilize sow (some d) align (p.interval dur) = .ok iv1 ∧
      ((∀ b, p.rangeBegin = some b → b ≤ d) → (∀ f, p.rangeEnd = some f → d < f) → Inv iv1) := by
  obtain ⟨u, nx, hst, _⟩ := stabilize_fresh sow h0 h6 align (p.interval dur) (fresh_interval p dur) hpos d
  refine ⟨_, hst, ?_⟩
  intro hb hf
  obtain ⟨iv1, _, hst', hinv, _⟩ := stabilize_fresh_inv sow h0 h6 align (p.interval dur) (fresh_interval p dur) hpos d hb hf
  rw [hst] at hst'; cases hst'; exact hinv

/-! ### consecutive, non-overlapping, covering -/

/-- Successive intervals are adjacent: the next interval starts where the current one ends,
    and ends one duration later unless cut at `finish`. -/
theorem C13.intervals_consecutive {iv iv' : Interval} (h : Inv iv) (hi : incr iv = .ok iv') {s' : Int}
    (hs : iv'.start = some s') :
    iv.eod = some s' ∧ iv'.eod = some (clipTo (iv.duration.add s') iv.finish) ∧ Inv iv' := by
  obtain ⟨s, nx, _, _, _, heod, hc⟩ := incr_cases h hi
  rcases hc with ⟨hltf, rfl⟩ | ⟨_, rfl⟩
  · simp only at hs; cases hs
    refine ⟨?_, rfl, inv_incr_step h hltf⟩
    rw [heod]
    cases hf : iv.finish with
    | none => simp [clipTo]
    | some f => have := hltf f hf; simp only [clipTo]; split <;> simp <;> omega
  · simp at hs

/-- Every date from the first start up to `finish` lies in exactly one interval of the
    sequence produced by `++`. -/
theorem C13.intervals_cover_unique {iv : Interval} (h : Inv iv) {s d : Int} (hs : iv.start = some s) (hsd : s ≤ d)
    (hdf : ∀ f, iv.finish = some f → d < f) :
    ∃ k ivk sk ek, iter k iv = .ok ivk ∧ ivk.start = some sk ∧ ivk.eod = some ek ∧ sk ≤ d ∧ d < ek ∧
      ∀ k' ivk' sk' ek', iter k' iv = .ok ivk' → ivk'.start = some sk' → ivk'.eod = some ek' → sk' ≤ d → d < ek' → k' = k := by
  obtain ⟨k, ivk, sk, ek, hk, hsk, hek, h1, h2⟩ := cover_exists d (gap d s) h hs hsd hdf (Nat.le_refl _)
  refine ⟨k, ivk, sk, ek, hk, hsk, hek, h1, h2, ?_⟩
  intro k' ivk' sk' ek' hk' hsk' hek' h1' h2'
  rcases Nat.lt_trichotomy k' k with hlt | heq | hgt
  · -- k' < k: interval k starts at or after the end of interval k'
    obtain ⟨j, rfl⟩ : ∃ j, k = k' + (j + 1) := ⟨k - k' - 1, by omega⟩
    rw [iter_add, hk'] at hk
    have := iter_after j (inv_iter k' h hk') hek' hk hsk
    omega
  · exact heq
  · obtain ⟨j, rfl⟩ : ∃ j, k' = k + (j + 1) := ⟨k' - k - 1, by omega⟩
    rw [iter_add, hk] at hk'
    have := iter_after j (inv_iter k h hk) hek hk' hsk'
    omega

/-! ### alignment and clipping -/

/-- Without `--align-intervals` (or without a `from` date) the first interval is a step of
    an aligned sequence — months, quarters, years from the first day of a month, quarter,
    year; weeks from the configured first weekday — cut at the `from` bound; with
    `--align-intervals` and a `from` date the sequence is anchored at the date the interval
    is stabilized on (the `from` date in a report).  Every later start is a whole number of
    durations after the unclipped first start, hence aligned in the same way. -/
theorem C13.aligned_starts (sow : Int) (h0 : 0 ≤ sow) (h6 : sow ≤ 6) (align : Bool) (p : Period) (dur : Duration)
    (hpos : 0 < dur.length) (d : Int)
    (hbd : ∀ b, p.rangeBegin = some b → b ≤ d) (hdf : ∀ f, p.rangeEnd = some f → d < f) :
    ∃ iv1 u, stabilize sow (some d) align (p.interval dur) = .ok iv1 ∧ u ≤ d ∧ d < dur.add u ∧
      iv1.start = some (clippedStart u p.rangeBegin) ∧
      ((align && p.sinceSpecified) = true → u = d) ∧
      ((align && p.sinceSpecified) = false → AlignedDate sow dur.quantum u) ∧
      ∀ k ivk s, iter (k + 1) iv1 = .ok ivk → ivk.start = some s →
        s = stepsFrom dur (k + 1) u ∧ ((align && p.sinceSpecified) = false → AlignedDate sow dur.quantum s) := by
  obtain ⟨u, nx, hst, hnx1, _, hu1, hu2, hA, hB⟩ :=
    stabilize_fresh sow h0 h6 align (p.interval dur) (fresh_interval p dur) hpos d
  obtain ⟨iv1, u', hst', hinv, _⟩ :=
    stabilize_fresh_inv sow h0 h6 align (p.interval dur) (fresh_interval p dur) hpos d hbd hdf
  rw [hst] at hst'; cases hst'
  refine ⟨_, u, hst, hu1, hu2, rfl, hA, hB, ?_⟩
  intro k ivk s hk hs
  have hnx' : (some nx : Option Int) = some (dur.add u) ∨ (some nx : Option Int) = some (clipTo (dur.add u) p.rangeEnd) := by
    rcases hnx1 with h | h
    · left; rw [h]; rfl
    · right; rw [h]; rfl
  have := iter_starts k hinv hnx' hk hs
  refine ⟨this, ?_⟩
  intro hc
  rw [this]
  exact stepsFrom_aligned sow dur (k + 1) u (hB hc)

/-- Intervals are cut only at the stated bounds: the first interval starts at the step start
    `u` or at the `from` bound and ends one duration after `u` or at the `to` bound; every
    later interval is exactly one duration long or ends at the `to` bound. -/
theorem C13.clip_only_at_bounds (sow : Int) (h0 : 0 ≤ sow) (h6 : sow ≤ 6) (align : Bool) (p : Period) (dur : Duration)
    (hpos : 0 < dur.length) (d : Int)
    (hbd : ∀ b, p.rangeBegin = some b → b ≤ d) (hdf : ∀ f, p.rangeEnd = some f → d < f) :
    ∃ iv1 u s1 e1, stabilize sow (some d) align (p.interval dur) = .ok iv1 ∧ Inv iv1 ∧
      iv1.start = some s1 ∧ iv1.eod = some e1 ∧ iv1.finish = p.rangeEnd ∧ iv1.duration = dur ∧
      (s1 = u ∨ (p.rangeBegin = some s1 ∧ u < s1)) ∧
      (e1 = dur.add u ∨ (p.rangeEnd = some e1 ∧ e1 < dur.add u)) ∧
      ∀ k ivk ivk' s' e', iter k iv1 = .ok ivk → incr ivk = .ok ivk' → ivk'.start = some s' → ivk'.eod = some e' →
        ivk.eod = some s' ∧ (e' = dur.add s' ∨ (p.rangeEnd = some e' ∧ e' < dur.add s')) := by
  obtain ⟨iv1, u, hst, hinv, hs, hf, he, hdur, _, _, _, _, _, _⟩ :=
    stabilize_fresh_inv sow h0 h6 align (p.interval dur) (fresh_interval p dur) hpos d hbd hdf
  refine ⟨iv1, u, _, _, hst, hinv, hs, he, hf, hdur, clippedStart_cases u p.rangeBegin, clipTo_cases _ p.rangeEnd, ?_⟩
  intro k ivk ivk' s' e' hk hi hs' he'
  have hinvk := inv_iter k hinv hk
  obtain ⟨c1, c2, _⟩ := C13.intervals_consecutive hinvk hi hs'
  have hfk := iter_fields k hinv hk
  rw [c2, hfk.1, hfk.2, hf, hdur] at he'
  cases he'
  exact ⟨c1, clipTo_cases _ p.rangeEnd⟩

/-! ### postings and subtotals -/

/-- The interval `find_period` assigns to a date contains that date.  (Guard: the date is
    not `finish` itself; `find_period` lets `date == finish` through its first test, see
    `C13.find_period_at_finish`.  Reports never pass such a date: the limit predicate of
    `normalize_period` is `date < end`.) -/
theorem C13.find_period_correct {sow d : Int} {align allow : Bool} {iv iv' : Interval}
    (h : findPeriod sow d align allow iv = .ok (true, iv')) (hne : ∀ f, iv'.finish = some f → d ≠ f) :
    ∃ s e, iv'.start = some s ∧ iv'.eod = some e ∧ s ≤ d ∧ d < e :=
  findPeriod_true h hne

/-- Whatever a period report shows, its rows taken together hold exactly the in-bounds
    postings, so for any quantity (the amount in one commodity posted to one account, say)
    the interval subtotals add up to the unperiodised total. -/
theorem C13.subtotals_sum {p : Period} {dur : Duration} {sow : Int} {align empty : Bool} {dates : List Int} {gs : List Group}
    (h : reportGroups p dur sow align empty dates = .ok gs) (f : Nat × Int → Rat) :
    total (fun g => total f g.members) gs = total f (inBoundsPosts p dates) := by
  have hflat := flush_flat h
  rw [← total_flatMap f Group.members gs, hflat]
  exact total_perm f (sortByDate_perm _)

/-- A period report with a positive length and a non-empty range is produced without error;
    each in-bounds posting appears in exactly one row (the rows' members are a permutation
    of the in-bounds postings) and that row's interval contains the posting's date. -/
theorem C13.postings_in_their_interval (sow : Int) (h0 : 0 ≤ sow) (h6 : sow ≤ 6) (align empty : Bool) (p : Period)
    (dur : Duration) (hpos : 0 < dur.length) (hbf : ∀ b f, p.rangeBegin = some b → p.rangeEnd = some f → b < f)
    (dates : List Int) :
    ∃ gs, reportGroups p dur sow align empty dates = .ok gs ∧
      (∀ g ∈ gs, ∀ m ∈ g.members, g.start ≤ m.2 ∧ m.2 < g.eod) ∧
      (gs.flatMap Group.members).Perm (inBoundsPosts p dates) := by
  have hmem : ∀ x ∈ inBoundsPosts p dates, inBounds p x.2 = true := by
    intro x hx; simp only [inBoundsPosts, List.mem_filter] at hx; exact hx.2
  obtain ⟨gs, hgs, hok, hflat⟩ := flush_spec sow h0 h6 align empty (p.interval dur) (fresh_interval p dur) hpos
    (inBoundsPosts p dates) hbf
    (by
      intro x hx b hb
      have := hmem x hx
      simp only [inBounds, Bool.and_eq_true] at this
      have h1 := this.1
      change p.rangeBegin = some b at hb
      rw [hb] at h1
      simpa using h1)
    (by
      intro x hx f hf
      have := hmem x hx
      simp only [inBounds, Bool.and_eq_true] at this
      have h2 := this.2
      change p.rangeEnd = some f at hf
      rw [hf] at h2
      simpa using h2)
  refine ⟨gs, hgs, hok, ?_⟩
  rw [hflat]; exact sortByDate_perm _

/-! ### the guard of `find_period_correct`, and non-vacuity -/

/-- `witnessInterval` (`monthly from 2020/01/01 to 2020/03/15` stabilized on its `from` date,
    [2020-01-01, 2020-02-01) with `finish` 2020-03-15) is the interval `stabilize` produces, and it
    satisfies the invariant. -/
theorem C13.witness_stabilized :
    stabilize 0 (some 18262) false
      (({ duration := some ⟨.months, 1⟩, rangeBegin := some 18262, rangeEnd := some 18336, sinceSpecified := true } : Period).interval
        ⟨.months, 1⟩) = .ok witnessInterval ∧ Inv witnessInterval := by
  refine ⟨by decide +kernel, rfl, by decide, ?_, ?_⟩
  · intro e he; cases he; decide
  · intro s hs; cases hs; exact ⟨18293, rfl, by decide, by decide⟩

/-- Without its guard `find_period_correct` fails: asked for the date equal to `finish`
    (2020-03-15), `find_period` answers true and leaves [2020-03-01, 2020-03-15), which does
    not contain it (times.cc: the first test is `date > *finish`, the scan then cuts the
    interval at `finish`). -/
theorem C13.find_period_at_finish :
    findPeriod 0 18336 false true witnessInterval =
      .ok (true, { witnessInterval with start := some 18322, eod := some 18336, next := some 18336 }) ∧
    ¬ ((18336 : Int) < 18336) := by
  refine ⟨by decide +kernel, by decide⟩

/-- A whole report on the same period: postings dated 2020-01-01, 2020-02-08, 2020-03-14
    fall in three consecutive rows; the postings dated on the `to` bound and before the
    `from` bound are outside the report. -/
example :
    reportGroups { duration := some ⟨.months, 1⟩, rangeBegin := some 18262, rangeEnd := some 18336, sinceSpecified := true }
        ⟨.months, 1⟩ 0 false true [18262, 18300, 18335, 18336, 18200] =
      .ok [⟨18262, 18293, [(0, 18262)]⟩, ⟨18293, 18322, [(1, 18300)]⟩, ⟨18322, 18336, [(2, 18335)]⟩] := by
  decide +kernel

/-- `every 2 weeks from 2020/01/10` with Monday as first weekday: the first row is cut at the
    `from` bound, [2020-01-10, 2020-01-13), later rows start on Mondays; an empty interval is
    reported under `--empty`. -/
example :
    reportGroups { duration := some ⟨.weeks, 2⟩, rangeBegin := some 18271, rangeEnd := none, sinceSpecified := true }
        ⟨.weeks, 2⟩ 1 false true [18276, 18290] =
      .ok [⟨18271, 18274, []⟩, ⟨18274, 18288, [(0, 18276)]⟩, ⟨18288, 18302, [(1, 18290)]⟩] := by
  decide +kernel

/-- month-end arithmetic: Jan 31 + 1 month = Feb 29 (2020), + 1 month = Mar 31 -/
example : (⟨.months, 1⟩ : Duration).add (ofYMD 2020 1 31) = ofYMD 2020 2 29 ∧
    (⟨.months, 1⟩ : Duration).add (ofYMD 2020 2 29) = ofYMD 2020 3 31 := by decide +kernel

/-- `every 0 months` stabilized on 2020-03-03: the model's loop runs out of every fuel. -/
example : stabilize 0 (some 18324) false
    (({ duration := some ⟨.months, 0⟩, rangeBegin := none, rangeEnd := none, sinceSpecified := false } : Period).interval ⟨.months, 0⟩)
    = .error .diverges := by decide +kernel

end Ledger
