/-
C14 — dates read and print consistently; impossible dates are rejected.

Two layers.

Calendar (`Model/Calendar.lean`, lemmas in `Lemmas/Calendar.lean`): day numbers ⇄ civil
dates is a bijection between the real proleptic-Gregorian dates and ALL integers, the order
of day numbers is the lexicographic (year, month, day) order, the weekday advances by one per
day from a fixed anchor.  No enumeration: `omega` case analysis on month / century / leap.

Reader and printer (`Model/DateParse.lean`, lemmas in `Lemmas/DateParse.lean`): ledger's
`parse_date` = strptime over the reader list re-extracted from times.cc (`Gen.dateReaders`),
separator normalisation, the re-format-and-compare acceptance test, year inference;
`format_date` = strftime.  Completeness (`parse_format`, `parse_year_month`,
`parse_mmdd_year_directive`): every real day 1400..9999 in every accepted spelling reads as
exactly that day.  Soundness (`parse_valid_only`): nothing else is accepted — hence
`impossible_rejected`, `trailing_rejected`.  Round trip: `format_parse`.

The tie to times.cc: `readers_pinned`, `date_consts_pinned`, `date_fns_pinned` (the reader
list, constants and function bodies re-extracted from the working tree are the ones this
model was written against), the interpreted flag `Gen.yearInferenceSnaps`, and the
exhaustive differential check tools/props/c14.py.
-/
import LedgerModel.Lemmas.Calendar
import LedgerModel.Lemmas.DateParse
import LedgerModel.Model.DateReadersPinned
import LedgerModel.Model.Proto

namespace Ledger
open Cal DateParse

/-! ### Tie to the source -/

/-- The reader list found in the working tree is the one the theorems below are about. -/
theorem C14.readers_pinned : Gen.dateReaders = Pinned.dateReaders := rfl

/-- Formats, separator rule, length limit, year-directive clock: as the model assumes. -/
theorem C14.date_consts_pinned :
    (Gen.writtenDateFormat, Gen.printedDateFormat, Gen.convertSeparatorsDefault,
      Gen.normalisedSeparators, Gen.separatorTarget, Gen.maxDateLen, Gen.yearDirectiveMonthDay) =
    (Pinned.writtenDateFormat, Pinned.printedDateFormat, Pinned.convertSeparatorsDefault,
      Pinned.normalisedSeparators, Pinned.separatorTarget, Pinned.maxDateLen,
      Pinned.yearDirectiveMonthDay) := rfl

/-- The bodies of the C++ functions the model mirrors are the ones it was written against. -/
theorem C14.date_fns_pinned : Gen.dateFns = Pinned.dateFns := rfl

/-! ### Calendar: bijection, order, weekday (all integers) -/

/-- Printing then reading a day number: civil-from-days inverts days-from-civil on every real date. -/
theorem C14.toYMD_ofYMD (y m d : Int) (hv : validYMD y m d = true) :
    toYMD (ofYMD y m d) = (y, m, d) := Cal.toYMD_ofYMD y m d hv

/-- Every integer is the day number of the date computed for it. -/
theorem C14.ofYMD_toYMD (n : Int) : ofYMD (toYMD n).1 (toYMD n).2.1 (toYMD n).2.2 = n :=
  Cal.ofYMD_toYMD n

/-- The date computed for any day number is a real calendar date. -/
theorem C14.validYMD_toYMD (n : Int) : validYMD (toYMD n).1 (toYMD n).2.1 (toYMD n).2.2 = true :=
  Cal.validYMD_toYMD n

/-- Day order is Gregorian order: lexicographic in (year, month, day). -/
theorem C14.ofYMD_strict_mono (y m d y' m' d' : Int)
    (hv : validYMD y m d = true) (hv' : validYMD y' m' d' = true)
    (hlt : y < y' ∨ (y = y' ∧ (m < m' ∨ (m = m' ∧ d < d')))) :
    ofYMD y m d < ofYMD y' m' d' := Cal.ofYMD_strict_mono y m d y' m' d' hv hv' hlt

/-- Distinct real dates have distinct day numbers. -/
theorem C14.ofYMD_injective (y m d y' m' d' : Int)
    (hv : validYMD y m d = true) (hv' : validYMD y' m' d' = true)
    (h : ofYMD y m d = ofYMD y' m' d') : y = y' ∧ m = m' ∧ d = d' := by
  have h1 := Cal.toYMD_ofYMD y m d hv
  have h2 := Cal.toYMD_ofYMD y' m' d' hv'
  rw [h, h2] at h1
  simp only [Prod.mk.injEq] at h1
  exact ⟨h1.1.symm, h1.2.1.symm, h1.2.2.symm⟩

/-- The day after the last day of a month is the first of the next month (incl. leap February). -/
theorem C14.next_month_first (y m : Int) (hm1 : 1 ≤ m) (hm12 : m ≤ 12) :
    ofYMD y m (daysInMonth y m) + 1 =
      (if m = 12 then ofYMD (y + 1) 1 1 else ofYMD y (m + 1) 1) := Cal.next_month_first y m hm1 hm12

/-- The weekday advances by one per day, cyclically. -/
theorem C14.weekday_succ (n : Int) : weekday (n + 1) = (weekday n + 1) % 7 := Cal.weekday_succ n

/-- Anchor: 1970-01-01 is day 0 and a Thursday (0 = Sunday); with `weekday_succ` this fixes the
    weekday of every day. -/
theorem C14.weekday_anchor : ofYMD 1970 1 1 = 0 ∧ weekday (ofYMD 1970 1 1) = 4 := by decide

theorem C14.weekday_range (n : Int) : 0 ≤ weekday n ∧ weekday n < 7 := Cal.weekday_range n

/-! ### Reading: every accepted spelling of a real day denotes that day -/

/-- Full dates: `YYYY s MM s DD`, separators `/ - .` chosen independently, leading zeros of month
    and day optional independently (36 spellings), any clock. -/
theorem C14.parse_format (y m d : Nat) (hy1 : 1400 ≤ y) (hy2 : y ≤ 9999)
    (hv : validYMD y m d = true) (cur : Int × Int) (s : List Char) (hs : FullSpelling y m d s) :
    parseDate none cur s = .ok (ofYMD y m d) := by
  obtain ⟨s1, s2, mt, dt, h1, h2, hmt, hdt, rfl⟩ := hs
  have hbuf : normSeps (digits4 y ++ s1 :: (mt ++ s2 :: dt)) = digits4 y ++ '/' :: (mt ++ '/' :: dt) := by
    simp only [normSeps_append, normSeps_cons, normSeps_digits4, normSeps_numText hmt,
      normSeps_numText hdt, normChar_sep h1, normChar_sep h2]
  have hlen : (digits4 y ++ s1 :: (mt ++ s2 :: dt)).length ≤ 127 := by
    have := numText_length hmt
    have := numText_length hdt
    simp [digits4]; omega
  simp only [parseDate, readersFor, Option.isNone_none, Gen.convertSeparatorsDefault, Bool.and_self,
    Gen.dateReaders, List.map, readLoop]
  rw [routine_md_on_year4 cur _ y _ (by omega) hy2 hlen hbuf]
  simp only []
  rw [routine_ymd_full cur _ y m d hy1 hy2 hv hmt hdt hlen hbuf]

/-- `YYYY s MM`: the first day of that month. -/
theorem C14.parse_year_month (y m : Nat) (hy1 : 1400 ≤ y) (hy2 : y ≤ 9999) (hm1 : 1 ≤ m)
    (hm12 : m ≤ 12) (cur : Int × Int) (s : List Char) (hs : YMSpelling y m s) :
    parseDate none cur s = .ok (ofYMD y m 1) := by
  obtain ⟨s1, mt, h1, hmt, rfl⟩ := hs
  have hbuf : normSeps (digits4 y ++ s1 :: mt) = digits4 y ++ '/' :: mt := by
    simp only [normSeps_append, normSeps_cons, normSeps_digits4, normSeps_numText hmt,
      normChar_sep h1]
  have hlen : (digits4 y ++ s1 :: mt).length ≤ 127 := by
    have := numText_length hmt
    simp [digits4]; omega
  simp only [parseDate, readersFor, Option.isNone_none, Gen.convertSeparatorsDefault, Bool.and_self,
    Gen.dateReaders, List.map, readLoop]
  rw [routine_md_on_year4 cur _ y _ (by omega) hy2 hlen hbuf]
  simp only []
  rw [routine_ymd_on_ym cur _ y m (by omega) hy2 hm1 hm12 hmt hlen hbuf]
  simp only []
  rw [routine_ym cur _ y m hy1 hy2 hm1 hm12 hmt hlen hbuf]

/-- `MM s DD` with the clock (year `Y`, month `cm`): how the model reads it. -/
theorem C14.parse_mmdd (Y cm : Int) (m d : Nat) (hY1 : 1400 ≤ Y) (hY2 : Y ≤ 9999)
    (hv : validYMD Y m d = true) (s : List Char) (hs : MDSpelling m d s) :
    parseDate none (Y, cm) s =
      if (m : Int) > cm then minusYear (ofYMD Y m d) else .ok (ofYMD Y m d) := by
  obtain ⟨s1, mt, dt, h1, hmt, hdt, rfl⟩ := hs
  have hbuf : normSeps (mt ++ s1 :: dt) = mt ++ '/' :: dt := by
    simp only [normSeps_append, normSeps_cons, normSeps_numText hmt, normSeps_numText hdt,
      normChar_sep h1]
  have hlen : (mt ++ s1 :: dt).length ≤ 127 := by
    have := numText_length hmt
    have := numText_length hdt
    simp; omega
  simp only [parseDate, readersFor, Option.isNone_none, Gen.convertSeparatorsDefault, Bool.and_self,
    Gen.dateReaders, List.map, readLoop]
  rw [routine_md Y cm _ m d hY1 hY2 hv hmt hdt hlen hbuf]
  by_cases hm : (m : Int) > cm
  · simp only [if_pos hm]
    cases minusYear (ofYMD Y m d) <;> rfl
  · simp only [if_neg hm]

/-- `MM s DD` under a year directive `Y` (which puts the clock in the last month of `Y`,
    `Gen.yearDirectiveMonthDay`): exactly that day of year `Y`. -/
theorem C14.parse_mmdd_year_directive (Y : Int) (m d : Nat) (hY1 : 1400 ≤ Y) (hY2 : Y ≤ 9999)
    (hv : validYMD Y m d = true) (s : List Char) (hs : MDSpelling m d s) :
    parseDate none (Y, Gen.yearDirectiveMonthDay.1) s = .ok (ofYMD Y m d) := by
  rw [C14.parse_mmdd Y _ m d hY1 hY2 hv s hs]
  obtain ⟨-, hm12, -⟩ := (validYMD_iff Y m d).1 hv
  have : ¬ ((m : Int) > ((Gen.yearDirectiveMonthDay.1 : Nat) : Int)) := by
    simp [Gen.yearDirectiveMonthDay]; omega
  rw [if_neg this]

/-- FULL statement for a clock-inferred year (no year directive; `--now` or the real clock):
    `MM s DD` denotes that day of the clock's year, or of the year before when the month is
    after the clock's month — and is rejected when that day does not exist. -/
def C14.MmddClockExact : Prop :=
  ∀ (Y cm : Int) (m d : Nat) (s : List Char), 1401 ≤ Y → Y ≤ 9999 → validYMD Y m d = true →
    MDSpelling m d s → (m : Int) > cm →
    parseDate none (Y, cm) s =
      (if validYMD (Y - 1) m d then .ok (ofYMD (Y - 1) m d) else .error .badDay)

/-- The code as it stands (boost `years(1)` subtraction, `Gen.yearInferenceSnaps`) violates it:
    `02/28` read in January 2021 becomes 2020-02-29. -/
theorem C14.mmdd_clock_not_exact (h : Gen.yearInferenceSnaps = true) : ¬ C14.MmddClockExact := by
  intro hex
  have hs : MDSpelling 2 28 "02/28".toList :=
    ⟨'/', "02".toList, "28".toList, Or.inl rfl, Or.inl rfl, Or.inl rfl, rfl⟩
  have h1 := hex 2021 1 2 28 "02/28".toList (by decide) (by decide) (by decide) hs (by decide)
  have h2 := C14.parse_mmdd 2021 1 2 28 (by decide) (by decide) (by decide) "02/28".toList hs
  rw [h2] at h1
  simp only [minusYear, h] at h1
  revert h1
  decide

/-- What holds for a clock-inferred year: exact whenever the day is not a 28..31 February
    (explicit guard), or once the year is moved back without boost's end-of-month snap. -/
theorem C14.parse_mmdd_clock_partial (Y cm : Int) (m d : Nat) (s : List Char)
    (hY1 : 1401 ≤ Y) (hY2 : Y ≤ 9999) (hv : validYMD Y m d = true) (hs : MDSpelling m d s)
    (hm : (m : Int) > cm)
    (hg : Gen.yearInferenceSnaps = false ∨ (m ≠ 2 ∨ d < 28)) :
    parseDate none (Y, cm) s =
      (if validYMD (Y - 1) m d then .ok (ofYMD (Y - 1) m d) else .error .badDay) := by
  rw [C14.parse_mmdd Y cm m d (by omega) hY2 hv s hs, if_pos hm]
  unfold minusYear
  cases hf : Gen.yearInferenceSnaps
  · simp only [Bool.false_eq_true, if_false, Cal.toYMD_ofYMD Y m d hv]
  · rcases hg with hg | hg
    · rw [hf] at hg; cases hg
    · have hg' : (m : Int) ≠ 2 ∨ (d : Int) < 28 := by omega
      have hv' : validYMD (Y - 1) m d = true := by
        rw [validYMD_iff] at hv ⊢
        omega
      simp only [if_true, hv', addYears_back Y m d hv hg']

/-! ### Reading: nothing else is accepted -/

/-- Soundness of the reader: if `parse_date` accepts a text, the text is one of the spellings of
    the day it returns (full date, year-month = first of the month, or month-day in the clock's
    year / the year before).  So month 13, day 32, 30 February, 29 February of a non-leap year,
    trailing characters, embedded blanks, signs … are all rejected. -/
theorem C14.parse_valid_only (cur : Int × Int) (s : List Char) (n : Int)
    (h : parseDate none cur s = .ok n) :
    (∃ y m d : Nat, 1400 ≤ y ∧ y ≤ 9999 ∧ validYMD y m d = true ∧ n = ofYMD y m d ∧
        FullSpelling y m d s) ∨
    (∃ y m : Nat, 1400 ≤ y ∧ y ≤ 9999 ∧ 1 ≤ m ∧ m ≤ 12 ∧ n = ofYMD y m 1 ∧ YMSpelling y m s) ∨
    (∃ m d : Nat, 1400 ≤ cur.1 ∧ cur.1 ≤ 9999 ∧ validYMD cur.1 m d = true ∧
        (if (m : Int) > cur.2 then minusYear (ofYMD cur.1 m d) = .ok n else n = ofYMD cur.1 m d) ∧
        MDSpelling m d s) :=
  parseDate_sound cur s n h

/-- Impossible dates are rejected: a text of the full-date shape (`YYYY s M[M] s D[D]`, any
    separators, optional leading zeros) whose numbers are not a real day of the years 1400..9999
    — month 0 or 13.., day 0 or 32.., 30 February, 31 April, 29 February of a non-leap year … —
    is an error under every clock; it is never shifted to a neighbouring date. -/
theorem C14.impossible_rejected (y m d : Nat) (hy1 : 1000 ≤ y) (hy2 : y ≤ 9999) (hm : m < 100)
    (hd : d < 100) (s : List Char) (hs : FullSpelling y m d s)
    (himp : validYMD y m d = false ∨ y < 1400) (cur : Int × Int) :
    ∃ e, parseDate none cur s = .error e := by
  cases hp : parseDate none cur s with
  | error e => exact ⟨e, rfl⟩
  | ok n =>
    exfalso
    obtain ⟨s1, s2, mt, dt, h1, h2, hmt, hdt, hs⟩ := hs
    rcases C14.parse_valid_only cur s n hp with
      ⟨y', m', d', hy1', hy2', hv', -, s1', s2', mt', dt', -, h2', hmt', hdt', hs'⟩ | ⟨y', m', -, -, -, -, -, hym⟩ |
      ⟨m', d', -, -, -, -, hmd⟩
    · obtain ⟨-, hm12', -, hd31', -⟩ := (validYMD_iff y' m' d').1 hv'
      rw [hs] at hs'
      obtain ⟨ey, em, er⟩ := full_prefix_unique hy2 hy2' hm (by omega) hmt hmt' h2 h2' hs'
      subst er
      have ed := numText_unique hd (by omega) hdt hdt'
      subst ey em ed
      rcases himp with h | h
      · rw [hv'] at h; cases h
      · omega
    · exact full_not_ym h2 hs hym
    · exact full_not_md hs hmd

/-- Trailing characters are rejected: an accepted full spelling followed by anything that does not
    start with a digit is an error.  (A trailing digit either gives another well-formed date text
    or falls under `parse_valid_only`.) -/
theorem C14.trailing_rejected (y m d : Nat) (hy2 : y ≤ 9999) (hm : m < 100) (s : List Char)
    (hs : FullSpelling y m d s) (c : Char) (extra : List Char) (hc : isDigit c = false)
    (cur : Int × Int) : ∃ e, parseDate none cur (s ++ c :: extra) = .error e := by
  cases hp : parseDate none cur (s ++ c :: extra) with
  | error e => exact ⟨e, rfl⟩
  | ok n =>
    exfalso
    obtain ⟨s1, s2, mt, dt, h1, h2, hmt, hdt, hs⟩ := hs
    have hshape : s ++ c :: extra = digits4 y ++ s1 :: (mt ++ s2 :: (dt ++ c :: extra)) := by
      rw [hs]; simp
    rcases C14.parse_valid_only cur _ n hp with
      ⟨y', m', d', -, hy2', hv', -, s1', s2', mt', dt', -, h2', hmt', hdt', hs'⟩ | ⟨y', m', -, -, -, -, -, hym⟩ |
      ⟨m', d', -, -, -, -, hmd⟩
    · obtain ⟨-, hm12', -⟩ := (validYMD_iff y' m' d').1 hv'
      rw [hshape] at hs'
      obtain ⟨-, -, er⟩ := full_prefix_unique hy2 hy2' hm (by omega) hmt hmt' h2 h2' hs'
      have : c ∈ dt' := by rw [← er]; simp
      have hdg := allDigit_numText hdt' c this
      rw [hc] at hdg; cases hdg
    · exact full_not_ym h2 hshape hym
    · exact full_not_md hshape hmd

/-! ### Printing and reading back -/

/-- What `format_date` writes with the written format (`%Y/%m/%d`, `Gen.writtenDateFormat`) or
    with `%Y-%m-%d` / `%Y.%m.%d` reads back as the same day, for every day of the years
    1400..9999 and any clock. -/
theorem C14.format_parse (n : Int) (hy1 : 1400 ≤ (toYMD n).1) (hy2 : (toYMD n).1 ≤ 9999)
    (cur : Int × Int) (fmt : String) (t : List Char)
    (hf : fmt = Gen.writtenDateFormat ∨ fmt = "%Y-%m-%d" ∨ fmt = "%Y.%m.%d")
    (ht : formatDate fmt.toList n = some t) : parseDate none cur t = .ok n := by
  have hv := Cal.validYMD_toYMD n
  have hn := Cal.ofYMD_toYMD n
  generalize hT : toYMD n = T at *
  obtain ⟨y, m, d⟩ := T
  simp only at hy1 hy2 hv hn
  obtain ⟨hm1, hm12, hd1, hd31, -⟩ := (validYMD_iff y m d).1 hv
  have ey : ((y.toNat : Nat) : Int) = y := by omega
  have em : ((m.toNat : Nat) : Int) = m := by omega
  have ed : ((d.toNat : Nat) : Int) = d := by omega
  have hv' : validYMD (y.toNat : Int) (m.toNat : Int) (d.toNat : Int) = true := by
    rw [ey, em, ed]; exact hv
  have key : ∀ sep : Char, IsSep sep →
      parseDate none cur (digits4 y.toNat ++ sep :: (pad2 m.toNat ++ sep :: pad2 d.toNat)) = .ok n := by
    intro sep hsep
    have := C14.parse_format y.toNat m.toNat d.toNat (by omega) (by omega) hv' cur _
      ⟨sep, sep, pad2 m.toNat, pad2 d.toNat, hsep, hsep, Or.inl rfl, Or.inl rfl, rfl⟩
    rw [this, ey, em, ed, hn]
  have hyt : yearText y = digits4 y.toNat := by
    have : 0 ≤ y ∧ y ≤ 9999 := by omega
    simp [yearText, this]
  rcases hf with rfl | rfl | rfl
  · have hp : parseFmt Gen.writtenDateFormat.toList =
        some [.year4, .lit '/', .month, .lit '/', .day] := by decide
    simp only [formatDate, hp, hT, strftime, List.flatMap_cons, List.flatMap_nil, fmtItem, hyt,
      List.append_nil, List.cons_append, List.nil_append, Option.some.injEq] at ht
    rw [← ht]; exact key '/' (Or.inl rfl)
  · have hp : parseFmt "%Y-%m-%d".toList = some [.year4, .lit '-', .month, .lit '-', .day] := by
      decide
    simp only [formatDate, hp, hT, strftime, List.flatMap_cons, List.flatMap_nil, fmtItem, hyt,
      List.append_nil, List.cons_append, List.nil_append, Option.some.injEq] at ht
    rw [← ht]; exact key '-' (Or.inr (Or.inl rfl))
  · have hp : parseFmt "%Y.%m.%d".toList = some [.year4, .lit '.', .month, .lit '.', .day] := by
      decide
    simp only [formatDate, hp, hT, strftime, List.flatMap_cons, List.flatMap_nil, fmtItem, hyt,
      List.append_nil, List.cons_append, List.nil_append, Option.some.injEq] at ht
    rw [← ht]; exact key '.' (Or.inr (Or.inr rfl))

/-! ### Non-vacuity and concrete instances (evaluated by the kernel) -/

example : validYMD 2020 2 29 = true ∧ validYMD 2019 2 29 = false ∧ validYMD 1900 2 29 = false ∧
    validYMD 2000 2 29 = true := by decide
example : toYMD (ofYMD 2020 2 29) = (2020, 2, 29) ∧ ofYMD 2020 3 1 = ofYMD 2020 2 29 + 1 := by decide
example : weekday (ofYMD 2020 2 29) = 6 ∧ weekday (ofYMD 1900 1 1) = 1 ∧
    weekday (ofYMD 2199 12 31) = 2 := by decide
example : FullSpelling 2020 2 9 "2020-2.09".toList :=
  ⟨'-', '.', "2".toList, "09".toList, Or.inr (Or.inl rfl), Or.inr (Or.inr rfl),
    Or.inr ⟨by decide, rfl⟩, Or.inl rfl, rfl⟩
example : parseDate none (2030, 12) "2020-2.09".toList = .ok (ofYMD 2020 2 9) := by decide +kernel
example : parseDate none (2030, 12) "2020/02/29".toList = .ok (ofYMD 2020 2 29) := by decide +kernel
example : parseDate none (2030, 12) "2019/02/29".toList = .error .badDay := by decide +kernel
example : parseDate none (2030, 12) "2020/02/30".toList = .error .badDay := by decide +kernel
example : parseDate none (2030, 12) "2020/13/01".toList = .error .invalid := by decide +kernel
example : parseDate none (2030, 12) "2020/12/32".toList = .error .invalid := by decide +kernel
example : parseDate none (2030, 12) "2020/12/31x".toList = .error .invalid := by decide +kernel
example : parseDate none (2030, 12) "2020/12/311".toList = .error .invalid := by decide +kernel
example : parseDate none (2030, 12) "1399/12/31".toList = .error .badYear := by decide +kernel
example : parseDate none (2019, 12) "02/29".toList = .error .badDay := by decide +kernel
example : parseDate none (2020, 12) "2/29".toList = .ok (ofYMD 2020 2 29) := by decide +kernel
example : Gen.yearInferenceSnaps = true →
    parseDate none (2021, 1) "02/28".toList = .ok (ofYMD 2020 2 29) := by decide +kernel
example : Gen.yearInferenceSnaps = false →
    parseDate none (2021, 1) "02/28".toList = .ok (ofYMD 2020 2 28) ∧
    parseDate none (2020, 1) "02/29".toList = .error .badDay := by decide +kernel
example : formatDate "%Y-%m-%d %a".toList (ofYMD 2020 2 29) = some "2020-02-29 Sat".toList := by decide +kernel

example : FullSpelling 2019 2 29 "2019/02/29".toList ∧ validYMD 2019 2 29 = false :=
  ⟨⟨'/', '/', "02".toList, "29".toList, Or.inl rfl, Or.inl rfl, Or.inl rfl, Or.inl rfl, rfl⟩, by decide⟩
example : FullSpelling 2020 13 1 "2020-13-1".toList ∧ validYMD 2020 13 1 = false :=
  ⟨⟨'-', '-', "13".toList, "1".toList, Or.inr (Or.inl rfl), Or.inr (Or.inl rfl), Or.inl rfl,
    Or.inr ⟨by decide, rfl⟩, rfl⟩, by decide⟩

end Ledger
