/-
C15 — value expressions evaluate as written and survive printing.

The model is `Model/Expr.lean`: tokeniser (token.cc), a recursive-descent parser
*driven by the table `Gen.ladder` that tools/extract_expr.py regenerates from
parser.cc*, `printToks` / `print` (op_t::print), `compile` with and without
constant folding (op_t::compile) and `calcF` (op_t::calc).  The documented
precedence ladder is written by hand in `Lemmas/ExprParse.lean`
(`levelName`, `BinOp.lvl`, `render`); the theorems say that the generated
parser realises it.

Theorems about parsing are stated over token lists (`parseToks`): a literal is an
opaque `Tok.value`.  The step text ↔ tokens (`Lex.tokenize`, `print`) is tied to
ledger by the correspondence check only (tools/props/c15.py), which also
re-checks `tokenize (print e) = printToks e` on every generated case.

Places where the code does NOT (or did not) have the property are kept visible
here: the full statement as a `def … : Prop`, its negation proved on a witness
that the check replays on the binary, and the `_partial` theorem with its guard:
* `C15.PrintParseValue` – op_t::print parenthesised the O_COLON node (repaired in
                          /repo; the statement is now proved in full under the
                          extracted flag, and `print_colon_flag` pins the repair);
* `C15.CompileSound`    – constant folding evaluates what short circuit skips,
                          folds O_COLON, folds argument lists;
* `C15.ParamScope`      – a local definition mentioning a parameter is captured
                          by an inner function with the same parameter name.
-/
import LedgerModel.Lemmas.ExprParse
import LedgerModel.Lemmas.ExprEval
import LedgerModel.Lemmas.ExprScope
import LedgerModel.Lemmas.ExprParam
import LedgerModel.Gen.ExprFns
import LedgerModel.Gen.ExprFlags
import LedgerModel.Model.ExprFnsPinned

namespace Ledger

/-! ## Tie to the source text -/

/-- The bodies of the parser / tokeniser / op_t / scope routines found in the
    working tree are the ones the model was written against. -/
theorem C15.expr_fns_pinned : Gen.exprFns = Pinned.exprFns := rfl

/-! ## The ladder -/

/-- follow the `first` links of the generated table: (function, shape, accepted
    tokens with the node they build, loops?, parser of the left operand, parser of
    the operands after the operator) -/
def ladderChain (start : String) : Nat → List (String × String × List (String × String × Bool) × Bool × String × String)
  | 0 => []
  | n + 1 =>
    match findRow start with
    | none => []
    | some r => (r.name, r.shape, r.ops, r.loop, r.first, r.operand) :: ladderChain r.first n

/-- The ladder regenerated from parser.cc is the documented one:
    `?:` (accepted once) < `or` < `and` < comparisons < `+ -` < `* / div` < unary `! -`;
    every binary level is a `while (true)` loop whose right operands are parsed one
    level tighter (left associativity), `!=` builds `!(… == …)`. -/
theorem C15.ladder_is_documented :
    ladderChain "parse_querycolon_expr" 7 =
      [("parse_querycolon_expr", "ternary",
          [("QUERY", "O_QUERY", false), ("COLON", "O_COLON", false), ("KW_IF", "O_QUERY", false), ("KW_ELSE", "O_COLON", false)],
          false, "parse_or_expr", "parse_or_expr"),
       ("parse_or_expr", "binloop", [("KW_OR", "O_OR", false)], true, "parse_and_expr", "parse_and_expr"),
       ("parse_and_expr", "binloop", [("KW_AND", "O_AND", false)], true, "parse_logic_expr", "parse_logic_expr"),
       ("parse_logic_expr", "binloop",
          [("EQUAL", "O_EQ", false), ("NEQUAL", "O_EQ", true), ("MATCH", "O_MATCH", false), ("NMATCH", "O_MATCH", true),
           ("LESS", "O_LT", false), ("LESSEQ", "O_LTE", false), ("GREATER", "O_GT", false), ("GREATEREQ", "O_GTE", false)],
          true, "parse_add_expr", "parse_add_expr"),
       ("parse_add_expr", "binloop", [("PLUS", "O_ADD", false), ("MINUS", "O_SUB", false)], true, "parse_mul_expr", "parse_mul_expr"),
       ("parse_mul_expr", "binloop", [("STAR", "O_MUL", false), ("SLASH", "O_DIV", false), ("KW_DIV", "O_DIV", false)], true,
          "parse_unary_expr", "parse_unary_expr"),
       ("parse_unary_expr", "prefix", [("EXCLAM", "O_NOT", false), ("MINUS", "O_NEG", false)], false,
          "parse_dot_expr", "parse_dot_expr")] := by
  rfl

/-- The spellings of the word operators and symbols (token.cc): `and`/`&`/`&&`,
    `or`/`|`/`||`, `not`/`!`, `div`, `if`/`else`, `!=`, `<=`, `>=`, `==`, `->`. -/
theorem C15.spellings_documented :
    (Gen.reservedWords.map (fun w => (w.1, w.2.1)) =
      [("and", "KW_AND"), ("div", "KW_DIV"), ("else", "KW_ELSE"), ("false", "VALUE"), ("if", "KW_IF"), ("or", "KW_OR"),
       ("not", "EXCLAM"), ("true", "VALUE")]) ∧
    Gen.symbolSpellings.lookup "&" = some "KW_AND" ∧ Gen.symbolSpellings.lookup "&&" = some "KW_AND" ∧
    Gen.symbolSpellings.lookup "|" = some "KW_OR" ∧ Gen.symbolSpellings.lookup "||" = some "KW_OR" ∧
    Gen.symbolSpellings.lookup "!" = some "EXCLAM" ∧ Gen.symbolSpellings.lookup "!=" = some "NEQUAL" ∧
    Gen.symbolSpellings.lookup "==" = some "EQUAL" ∧ Gen.symbolSpellings.lookup "<=" = some "LESSEQ" ∧
    Gen.symbolSpellings.lookup ">=" = some "GREATEREQ" ∧ Gen.symbolSpellings.lookup "->" = some "ARROW" ∧
    Gen.symbolSpellings.lookup "?" = some "QUERY" ∧ Gen.symbolSpellings.lookup ":" = some "COLON" ∧
    Gen.contextSymbols = ["/"] := by
  decide

/-- **Precedence and associativity, for every tree.**  Write any operator tree
    (literals, identifiers, unary `- !`, the eleven binary operators, `?:`) with
    parentheses only where the documented ladder demands them – around a looser
    operator inside a tighter one, around the right operand of an operator of the
    same level, around any operator under a unary one – and the parser generated
    from parser.cc returns exactly that tree. -/
theorem C15.parse_respects_ladder (e : Expr) (he : e.isOpTree = true) : parseToks (renderMinimal e) = .ok e :=
  parse_render false e he

/-- … and extra parentheses never change the tree: the same holds with every
    operator node parenthesised. -/
theorem C15.parse_fully_parenthesised (e : Expr) (he : e.isOpTree = true) : parseToks (render true 0 e) = .ok e :=
  parse_render true e he

/-! ## Printing -/

/-- FULL STATEMENT: what op_t::print emits for an operator tree parses back to a
    tree with the same value.  It holds exactly when op_t::print does not wrap the
    O_COLON node of a conditional in parentheses of its own
    (`Gen.printParenthesisesColon`, read off the two tests op.cc 669-670 / 860-861
    on every run): see `print_parse_value`, `print_parse_value_fails`,
    `print_colon_flag`. -/
def C15.PrintParseValue : Prop :=
  ∀ (env : PrecEnv) (e : Expr), e.isOpTree = true →
    ∃ e', parseToks (printToks e) = .ok e' ∧ ∀ f G, evalWith env true f G e' = evalWith env true f G e

/-- The working tree prints a conditional as `(a ? b : c)`.  (It printed
    `(a ? (b : c))` until the repair of finding `C15:op.cc:print:O_COLON`; a
    regression of that repair breaks this obligation.) -/
theorem C15.print_colon_flag : Gen.printParenthesisesColon = false := by decide

/-- With the O_COLON node unparenthesised, the printed token sequence of EVERY
    operator tree – conditionals included, nested anywhere – parses back to the
    very same tree (hence the same value, in every scope). -/
theorem C15.print_parse_value (h : Gen.printParenthesisesColon = false) : C15.PrintParseValue := by
  intro env e he
  have hp : parseToks (printToks e) = .ok e := by
    unfold printToks
    rw [h, ← printToksAux_eq_render false e he (fun h' => by cases h') 0]
    exact parse_render true e he
  exact ⟨e, hp, fun _ _ => rfl⟩

/-- `1 ? 2 : 3` -/
def C15.witnessCond : Expr :=
  .query (.val (.amt ⟨1, 0, false, ""⟩)) (.val (.amt ⟨2, 0, false, ""⟩)) (.val (.amt ⟨3, 0, false, ""⟩))

/-- With the O_COLON node parenthesised, op_t::print writes `(1 ? (2 : 3))` and the
    parser rejects the `:` – the full statement is false.  (The state of the pinned
    tree; replayed on the binary by the check, fingerprint `C15:op.cc:print:O_COLON`.) -/
theorem C15.print_parse_value_fails (h : Gen.printParenthesisesColon = true) : ¬ C15.PrintParseValue := by
  intro hfull
  obtain ⟨e', h1, _⟩ := hfull (fun _ => 0) C15.witnessCond (by decide)
  have : parseToks (printToksAux true .none C15.witnessCond) = .error errParse := by decide
  unfold printToks at h1
  rw [h, this] at h1
  cases h1

/-- Whatever op_t::print does with O_COLON: a tree without a conditional prints to
    a token sequence that parses back to the very same tree. -/
theorem C15.print_parse_value_partial (e : Expr) (he : e.isOpTree = true) (hq : e.noQuery = true) :
    parseToks (printToks e) = .ok e ∧
    ∀ (env : PrecEnv) e', parseToks (printToks e) = .ok e' → ∀ f G, evalWith env true f G e' = evalWith env true f G e := by
  have h : parseToks (printToks e) = .ok e := by
    rw [← printToks_eq_render e he hq 0]; exact parse_render true e he
  refine ⟨h, ?_⟩
  intro env e' h' f G
  rw [h] at h'
  cases h'
  rfl

/-! ## Short circuit -/

/-- `and`, `or` and `?:` do not evaluate the operand that is not selected: once the
    left operand (the condition) has value `x`, the result does not depend on the
    other operand at all – whatever it is, even an expression that fails.  `and`
    yields `false` or the right operand's value, `or` the left operand's value or
    the right one's (op.cc 379-400). -/
theorem C15.short_circuit (env : PrecEnv) (f : Nat) (σ : Scope) (l : Expr) (x : RVal)
    (h : calcF env f σ l = .ok x) :
    (x.truth env = false → ∀ r, calcF env f σ (.bin .and l r) = .ok (.v (.bool false))) ∧
    (x.truth env = true → ∀ r, calcF env f σ (.bin .and l r) = calcF env f σ r) ∧
    (x.truth env = true → ∀ r, calcF env f σ (.bin .or l r) = .ok x) ∧
    (x.truth env = false → ∀ r, calcF env f σ (.bin .or l r) = calcF env f σ r) ∧
    (x.truth env = true → ∀ a b, calcF env f σ (.query l a b) = calcF env f σ a) ∧
    (x.truth env = false → ∀ a b, calcF env f σ (.query l a b) = calcF env f σ b) := by
  cases f with
  | zero => simp [calcF] at h
  | succ g =>
    simp only [calcF] at h ⊢
    refine ⟨?_, ?_, ?_, ?_, ?_, ?_⟩ <;> intro ht <;> intros <;> simp [calcStep, h, binRest, ht]

/-! ## Compilation and constant folding -/

/-- FULL STATEMENT (false on the pinned tree): an expression gives the same result
    whether it is compiled with constant folding or evaluated without it. -/
def C15.CompileSound : Prop :=
  ∀ (env : PrecEnv) (f : Nat) (G : Frame) (e : Expr),
    (evalWith env true f G e).map RVal.erase = (evalWith env false f G e).map RVal.erase

/-- `false & ((x = 1; 1) / 0)` -/
def C15.witnessFold : Expr :=
  .bin .and (.val (.bool false))
    (.bin .div (.seq (.define (.ident "x" .nil) (.scope (.val (.amt ⟨1, 0, false, ""⟩)))) (.val (.amt ⟨1, 0, false, ""⟩)))
      (.val (.amt ⟨0, 0, false, ""⟩)))

/-- `true ? (x = 1; 2) : (x = 1; 3)` -/
def C15.witnessFoldColon : Expr :=
  .query (.val (.bool true))
    (.seq (.define (.ident "x" .nil) (.scope (.val (.amt ⟨1, 0, false, ""⟩)))) (.val (.amt ⟨2, 0, false, ""⟩)))
    (.seq (.define (.ident "x" .nil) (.scope (.val (.amt ⟨1, 0, false, ""⟩)))) (.val (.amt ⟨3, 0, false, ""⟩)))

/-- Folding (op.cc 214-218) evaluates `(x = 1; 1) / 0` at compile time although
    `false & …` never evaluates it: Divide by zero instead of `false`.  Replayed on
    the binary by the check (`C15:op.cc:compile:fold-skipped-operand`). -/
theorem C15.compile_sound_fails : ¬ C15.CompileSound := by
  intro h
  have := h (fun _ => 0) 5 [] C15.witnessFold
  revert this
  decide

/-- a second, independent way it fails: folding an O_COLON node whose branches
    became literals evaluates the O_COLON, which op.cc 402-404 asserts never
    happens (`C15:op.cc:compile:fold-O_COLON`) -/
theorem C15.compile_sound_fails_colon :
    evalWith (fun _ => 0) true 5 [] C15.witnessFoldColon = .error errAssert ∧
    evalWith (fun _ => 0) false 5 [] C15.witnessFoldColon = .ok (.v (.amt ⟨2, 0, false, ""⟩)) := by
  decide

/-- Guard: compiling with folding raises no error (`(compile env true G [] e).isOk`).
    Then folding changes neither the value nor the error of the evaluation, for
    every expression of the modelled language (definitions, lambdas, calls and
    recursion included), every scope and every fuel. -/
theorem C15.compile_sound_partial (env : PrecEnv) (f : Nat) (G : Frame) (e : Expr) (r : Expr × Bool × Frame)
    (hok : compile env true G [] e = .ok r) :
    (evalWith env true f G e).map RVal.erase = (evalWith env false f G e).map RVal.erase :=
  evalWith_fold env f G e r hok

/-! ## Scoping -/

/-- **Definition-site binding.**  Compile `e` in a scope `G` that binds the names
    `B` (`e` is a tree as the parser builds it; no lambda or function parameter in
    it is named in `B`).  Whatever is bound to the names `B` afterwards – the frame
    `Δ` of later (re)definitions – the compiled `e'` evaluates exactly as it does
    without them: a function or lambda body sees the binding its free names had
    where it was defined, not the one in force where it is called.  Recursion and
    names left unresolved at the definition site (looked up at every use,
    op.cc 114-116) are covered: they are simply not in `B`. -/
theorem C15.lexical_scope (env : PrecEnv) (fold : Bool) (B : List String) (G : Frame) (e e' : Expr) (c : Bool)
    (G' Δ : Frame) (f : Nat)
    (hsrc : srcOK B e = true) (hG : GOK B G) (hdom : DomOK B G)
    (hc : compile env fold G [] e = .ok (e', c, G'))
    (hΔ : ∀ p ∈ Δ, B.contains p.1 = true ∧ noFree B p.2 = true) :
    calcF env f [Δ ++ G'] e' = calcF env f [G'] e' :=
  rebinding_invariant env fold B G e e' c G' Δ f hsrc hG hdom hc hΔ

/-- renaming an identifier throughout a source tree (parameters included) -/
def renameIdent (p q : String) : Expr → Expr
  | .nil => .nil
  | .plug => .plug
  | .val v => .val v
  | .ident n d => .ident (if n = p then q else n) (renameIdent p q d)
  | .scope b => .scope (renameIdent p q b)
  | .un op e => .un op (renameIdent p q e)
  | .bin op l r => .bin op (renameIdent p q l) (renameIdent p q r)
  | .query c a b => .query (renameIdent p q c) (renameIdent p q a) (renameIdent p q b)
  | .cons l r => .cons (renameIdent p q l) (renameIdent p q r)
  | .seq l r => .seq (renameIdent p q l) (renameIdent p q r)
  | .define l r => .define (renameIdent p q l) (renameIdent p q r)
  | .lambda x b => .lambda (renameIdent p q x) (renameIdent p q b)
  | .call f a => .call (renameIdent p q f) (renameIdent p q a)

def occursIdent (q : String) : Expr → Bool
  | .ident n d => n = q || occursIdent q d
  | .scope b => occursIdent q b
  | .un _ e => occursIdent q e
  | .bin _ l r => occursIdent q l || occursIdent q r
  | .query c a b => occursIdent q c || occursIdent q a || occursIdent q b
  | .cons l r => occursIdent q l || occursIdent q r
  | .seq l r => occursIdent q l || occursIdent q r
  | .define l r => occursIdent q l || occursIdent q r
  | .lambda x b => occursIdent q x || occursIdent q b
  | .call f a => occursIdent q f || occursIdent q a
  | _ => false

/-- `AlphaStep e e'`: `e'` is `e` with the parameter of ONE lambda renamed to a name
    that does not occur in that lambda – the same program under lexical scoping. -/
inductive AlphaStep : Expr → Expr → Prop
  | here (p q : String) (b : Expr) : occursIdent q b = false → q ≠ p →
      AlphaStep (.lambda (.ident p .nil) b) (.lambda (.ident q .nil) (renameIdent p q b))
  | scope {b b' : Expr} : AlphaStep b b' → AlphaStep (.scope b) (.scope b')
  | un (op : UnOp) {e e' : Expr} : AlphaStep e e' → AlphaStep (.un op e) (.un op e')
  | binL (op : BinOp) (r : Expr) {l l' : Expr} : AlphaStep l l' → AlphaStep (.bin op l r) (.bin op l' r)
  | binR (op : BinOp) (l : Expr) {r r' : Expr} : AlphaStep r r' → AlphaStep (.bin op l r) (.bin op l r')
  | queryC (a b : Expr) {c c' : Expr} : AlphaStep c c' → AlphaStep (.query c a b) (.query c' a b)
  | queryA (c b : Expr) {a a' : Expr} : AlphaStep a a' → AlphaStep (.query c a b) (.query c a' b)
  | queryB (c a : Expr) {b b' : Expr} : AlphaStep b b' → AlphaStep (.query c a b) (.query c a b')
  | consL (r : Expr) {l l' : Expr} : AlphaStep l l' → AlphaStep (.cons l r) (.cons l' r)
  | consR (l : Expr) {r r' : Expr} : AlphaStep r r' → AlphaStep (.cons l r) (.cons l r')
  | seqL (r : Expr) {l l' : Expr} : AlphaStep l l' → AlphaStep (.seq l r) (.seq l' r)
  | seqR (l : Expr) {r r' : Expr} : AlphaStep r r' → AlphaStep (.seq l r) (.seq l r')
  | defineR (l : Expr) {r r' : Expr} : AlphaStep r r' → AlphaStep (.define l r) (.define l r')
  | lambdaB (x : Expr) {b b' : Expr} : AlphaStep b b' → AlphaStep (.lambda x b) (.lambda x b')
  | callF (a : Expr) {f f' : Expr} : AlphaStep f f' → AlphaStep (.call f a) (.call f' a)
  | callA (f : Expr) {a a' : Expr} : AlphaStep a a' → AlphaStep (.call f a) (.call f a')

/-- FULL STATEMENT (false on the pinned tree): parameters are lexically scoped –
    renaming one lambda's parameter to a fresh name never changes a value. -/
def C15.ParamScope : Prop :=
  ∀ (env : PrecEnv) (e e' : Expr), AlphaStep e e' → evalExpr env e = evalExpr env e'

private def lit (n : Int) : Expr := .val (.amt ⟨(n : Rat), 0, false, ""⟩)

/-- `g(x) = (t = x * 2; (P -> t + P)(5)); g(1)` for the inner parameter name `P` -/
def C15.witnessCapture (P : String) : Expr :=
  .seq
    (.define (.call (.ident "g" .nil) (.ident "x" .nil))
      (.scope (.seq (.define (.ident "t" .nil) (.scope (.bin .mul (.ident "x" .nil) (lit 2))))
                    (.call (.lambda (.ident P .nil) (.scope (.bin .add (.ident "t" .nil) (.ident P .nil)))) (lit 5)))))
    (.call (.ident "g" .nil) (lit 1))

/-- With the inner parameter also called `x`, the local definition `t = x * 2` is
    re-evaluated in the inner frame: 15 instead of 7.  Definitions are stored
    unevaluated (op.cc 144-148) and a parameter is looked up dynamically (PLUG,
    op.cc 188-189, 240-243).  Replayed on the binary (`C15:scope:parameter-capture`). -/
theorem C15.param_scope_fails : ¬ C15.ParamScope := by
  intro h
  have hstep : AlphaStep (C15.witnessCapture "x") (C15.witnessCapture "y") :=
    .seqL _ (.defineR _ (.scope (.seqR _ (.callF _ (.here "x" "y" _ (by decide) (by decide))))))
  have := h (fun _ => 0) _ _ hstep
  revert this
  decide +kernel

/-- Guard: the lambda's compiled body is an operator tree (`isOpBody`: literals,
    identifiers, unary, binary, `?:`), the new name `q` is not looked up in it
    (`lookedUp`), and no definition compiled into the body (`defsOff`) or held by
    the enclosing scope mentions `p` or `q` unresolved.  Then `(p -> body)(v)` and
    `(q -> body[p := q])(v)` have the same value: without a captured definition
    that mentions the parameter, parameters ARE lexically scoped.  The witness of
    `C15.param_scope_fails` violates exactly `defsOff`: its body refers to
    `t = x * 2`. -/
theorem C15.param_scope_partial (env : PrecEnv) (p q : String) (v : Value) (σ : Scope) (body : Expr) (f : Nat)
    (hσ : ScopeNoFree [p, q] σ) (hbody : body.isOpBody = true) (hfresh : lookedUp q body = false)
    (hdefs : defsOff [p, q] body = true) :
    calcF env f σ (.call (.lambda (.ident p .nil) (.scope body)) (.val v)) =
      calcF env f σ (.call (.lambda (.ident q .nil) (.scope (renameParam p q body))) (.val v)) :=
  param_rename_call env p q v σ hσ body hbody hfresh hdefs f

/-! ## Non-vacuity -/

/-- `1 + 2 * 3 - 4 < 5 & ! x | y ? 6 : 7`, minimally written, parses to the documented tree -/
example :
    parseToks [.value (.int 1), .plus, .value (.int 2), .star, .value (.int 3), .minus, .value (.int 4), .less, .value (.int 5),
               .kwAnd, .exclam, .ident "x", .kwOr, .ident "y", .query, .value (.int 6), .colon, .value (.int 7)] =
      .ok (.query
            (.bin .or
              (.bin .and
                (.bin .lt (.bin .sub (.bin .add (.val (.int 1)) (.bin .mul (.val (.int 2)) (.val (.int 3)))) (.val (.int 4))) (.val (.int 5)))
                (.un .not (.ident "x" .nil)))
              (.ident "y" .nil))
            (.val (.int 6)) (.val (.int 7))) := by
  decide

/-- the same tree is an operator tree, and `renderMinimal` gives that token list -/
example :
    let e : Expr := .query
            (.bin .or
              (.bin .and
                (.bin .lt (.bin .sub (.bin .add (.val (.int 1)) (.bin .mul (.val (.int 2)) (.val (.int 3)))) (.val (.int 4))) (.val (.int 5)))
                (.un .not (.ident "x" .nil)))
              (.ident "y" .nil))
            (.val (.int 6)) (.val (.int 7))
    e.isOpTree = true ∧
    renderMinimal e = [.value (.int 1), .plus, .value (.int 2), .star, .value (.int 3), .minus, .value (.int 4), .less, .value (.int 5),
               .kwAnd, .exclam, .ident "x", .kwOr, .ident "y", .query, .value (.int 6), .colon, .value (.int 7)] := by
  decide

/-- `(1 + 2) * 3` and `1 - (2 - 3)` keep their parentheses, `1 - 2 - 3` associates to the left -/
example :
    renderMinimal (.bin .mul (.bin .add (.val (.int 1)) (.val (.int 2))) (.val (.int 3))) =
      [.lparen, .value (.int 1), .plus, .value (.int 2), .rparen, .star, .value (.int 3)] ∧
    renderMinimal (.bin .sub (.val (.int 1)) (.bin .sub (.val (.int 2)) (.val (.int 3)))) =
      [.value (.int 1), .minus, .lparen, .value (.int 2), .minus, .value (.int 3), .rparen] ∧
    renderMinimal (.bin .sub (.bin .sub (.val (.int 1)) (.val (.int 2))) (.val (.int 3))) =
      [.value (.int 1), .minus, .value (.int 2), .minus, .value (.int 3)] := by
  decide

/-- `1 ? 2 : 3` prints as `( 1 ? 2 : 3 )` and parses back -/
example : printToks C15.witnessCond =
      [.lparen, .value (.amt ⟨1, 0, false, ""⟩), .query, .value (.amt ⟨2, 0, false, ""⟩), .colon, .value (.amt ⟨3, 0, false, ""⟩), .rparen] ∧
    parseToks (printToks C15.witnessCond) = .ok C15.witnessCond := by
  decide

/-- short circuit: `false & (1 / 0)` is false, `1 | (1 / 0)` is 1, `(1 / 0) & false` fails -/
example :
    evalExpr (fun _ => 0) (.bin .and (.val (.bool false)) (.bin .div (lit 1) (lit 0))) = .ok (.v (.bool false)) ∧
    evalExpr (fun _ => 0) (.bin .or (lit 1) (.bin .div (lit 1) (lit 0))) = .ok (.v (.amt ⟨1, 0, false, ""⟩)) ∧
    evalExpr (fun _ => 0) (.bin .and (.bin .div (lit 1) (lit 0)) (.val (.bool false))) = .error .divZero := by
  decide

/-- folding does happen and is harmless here: `(x = 1; 5) + 3` compiles to the literal 8 -/
example :
    (compile (fun _ => 0) true [] [] (.bin .add (.seq (.define (.ident "x" .nil) (.scope (lit 1))) (lit 5)) (lit 3))).map (·.1) =
      .ok (lit 8) := by
  decide +kernel

/-- `y = 5; f(x) = x + y; y = 7; f(1)` is 6: `f` sees the `y` of its definition site … -/
example :
    evalExpr (fun _ => 0)
      (.seq (.define (.ident "y" .nil) (.scope (lit 5)))
        (.seq (.define (.call (.ident "f" .nil) (.ident "x" .nil)) (.scope (.bin .add (.ident "x" .nil) (.ident "y" .nil))))
          (.seq (.define (.ident "y" .nil) (.scope (lit 7)))
            (.call (.ident "f" .nil) (lit 1))))) = .ok (.v (.amt ⟨6, 0, false, ""⟩)) := by
  decide +kernel

/-- … and the hypotheses of `C15.lexical_scope` are met by that program: compile the
    call `f(1)` where `y = 5` and `f` are defined, with `B = ["y"]` -/
example :
    let G : Frame := [("f", .lambda (.ident "x" .nil) (.scope (.bin .add (.ident "x" .plug) (.ident "y" (.scope (lit 5)))))),
                      ("y", .scope (lit 5))]
    srcOK ["y"] (.call (.ident "f" .nil) (lit 1)) = true ∧
    (∀ p ∈ G, noFree ["y"] p.2 = true ∧ (p.2.isNil || p.2.isPlug) = false) ∧
    G.lookup "y" ≠ none ∧
    (∀ p ∈ [("y", Expr.scope (lit 7))], (["y"].contains p.1 = true ∧ noFree ["y"] p.2 = true)) := by
  decide +kernel

/-- `(x -> x * 2 + k)(5)` with `k` resolved to 1 meets the guard of `C15.param_scope_partial`; both names give 11 -/
example :
    let body : Expr := .bin .add (.bin .mul (.ident "x" .plug) (lit 2)) (.ident "k" (.scope (lit 1)))
    body.isOpBody = true ∧ lookedUp "y" body = false ∧ defsOff ["x", "y"] body = true ∧
    calcF (fun _ => 0) 9 [[]] (.call (.lambda (.ident "x" .nil) (.scope body)) (.val (.amt ⟨5, 0, false, ""⟩))) =
      .ok (.v (.amt ⟨11, 0, false, ""⟩)) ∧
    calcF (fun _ => 0) 9 [[]] (.call (.lambda (.ident "y" .nil) (.scope (renameParam "x" "y" body))) (.val (.amt ⟨5, 0, false, ""⟩))) =
      .ok (.v (.amt ⟨11, 0, false, ""⟩)) := by
  decide +kernel

/-- recursion works through the look-up at the point of use: `f(n) = n < 1 ? 0 : n + f(n - 1); f(3)` is 6 -/
example :
    evalExpr (fun _ => 0)
      (.seq (.define (.call (.ident "f" .nil) (.ident "n" .nil))
              (.scope (.query (.bin .lt (.ident "n" .nil) (lit 1)) (lit 0)
                        (.bin .add (.ident "n" .nil) (.call (.ident "f" .nil) (.bin .sub (.ident "n" .nil) (lit 1)))))))
        (.call (.ident "f" .nil) (lit 3))) = .ok (.v (.amt ⟨6, 0, false, ""⟩)) := by
  decide +kernel

end Ledger
