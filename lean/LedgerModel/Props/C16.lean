/-
C16 — automated transactions add exactly the declared postings to each match.

The model (`Model/AutoXact.lean`) mirrors `auto_xact_t::extend_xact`
(xact.cc 694-888) statement by statement, including the mutable matching state
of a rule (`try_quick_match`, `memoized_results`), and `journal_t::add_xact` /
`extend_xact` (journal.cc 365-380, 445-449).  The theorems below hold for every
matcher (regex engine), every precision environment, every rule, every
transaction / journal — no bounds.  `MemoOK` (every memoised answer is what
`post_pred` returns for that account name) is the invariant of a rule's
matching state; it holds initially, is preserved by every step
(`C16.quick_eq_general`), hence for every state `load` reaches
(`C16.load_memo_ok`).

The tie to the source is `C16.fns_pinned` (the text of extend_xact, post_pred,
verify, add_balancing_post, journal_t::extend_xact/add_xact re-extracted from
the working tree is the text this model was written against) and the
differential check of `load` against the rebuilt binary (tools/props/c16.py).
-/
import LedgerModel.Lemmas.AutoXact
import LedgerModel.Gen.AutoXact
import LedgerModel.Model.AutoXactPinned

namespace Ledger
open AutoXact

/-- The automated-transaction code found in the working tree is the code the model mirrors. -/
theorem C16.fns_pinned : Gen.autoXactFns = Pinned.autoXactFns := rfl

/-- `extend_xact` appends exactly the declared postings: the result is the
    original postings followed, for each ORIGINAL posting that is not flagged
    generated and satisfies the predicate (as the GENERAL evaluator sees it), in
    order, by one posting per rule line in order (`additions`, whose elements are
    `genPost env matched line`; their fields are `C16.generated_posting_fields`).
    Nothing else of the transaction changes. -/
theorem C16.extend_appends_exactly (m : Matcher) (env : PrecEnv) (r : Rule) (st : RState) (x : FXact)
    (h : MemoOK m r.pred st) :
    (extend m env r st x).2.posts =
        x.posts ++ (x.posts.filter (fun p => !p.generated && r.pred.eval m x.payee p)).flatMap
                      (fun matched => r.lines.map (fun line => genPost env matched line)) ∧
    (extend m env r st x).2.payee = x.payee ∧ (extend m env r st x).2.line = x.line := by
  have := (extend_spec m env r st x h).1
  rw [this]
  exact ⟨rfl, rfl, rfl⟩

/-- The fields of a generated posting: a rule amount WITHOUT commodity is
    multiplied EXACTLY by the matched posting's amount (quantity = product of the
    exact rationals; the commodity is the matched one's; the precision counter is
    the sum, clamped to the commodity's display precision + 6 — display only); a
    commoditized rule amount is used as written; the account is the rule line's
    with `$account` replaced by the matched account; the kind and position are the
    rule line's; the posting is flagged generated. -/
theorem C16.generated_posting_fields (env : PrecEnv) (matched : FPost) (l : RuleLine) :
    (l.amount.hasComm = true → (genPost env matched l).amount = l.amount) ∧
    (l.amount.hasComm = false →
        (genPost env matched l).amount.q = matched.amount.q * l.amount.q ∧
        (genPost env matched l).amount.comm = matched.amount.comm) ∧
    (genPost env matched l).account = substAccount l.account matched.account ∧
    (genPost env matched l).kind = l.kind ∧
    (genPost env matched l).line = l.line ∧
    (genPost env matched l).generated = true := by
  refine ⟨?_, ?_, rfl, rfl, rfl, rfl⟩
  · intro h; simp [genPost, genAmount, h]
  · intro h
    have hc : l.amount.comm = "" := by simpa [Amount.hasComm] using h
    simp only [genPost, genAmount, h, Bool.false_eq_true, if_false]
    refine ⟨mul_q env _ _, ?_⟩
    rw [mul_comm_field]
    split
    · rfl
    · rename_i hm
      have : matched.amount.comm = "" := by simpa [Amount.hasComm] using hm
      rw [hc, this]

/-- Original postings are an unchanged prefix of the extended transaction
    (matching or not), position by position. -/
theorem C16.nonmatching_untouched (m : Matcher) (env : PrecEnv) (r : Rule) (st : RState) (x : FXact) :
    x.posts <+: (extend m env r st x).2.posts ∧
    ∀ (i : Nat) (hi : i < x.posts.length), (extend m env r st x).2.posts[i]? = some x.posts[i] := by
  refine ⟨⟨_, rfl⟩, ?_⟩
  intro i hi
  simp [extend, List.getElem?_append_left hi]

/-- A posting that does not match contributes nothing: if no original
    non-generated posting satisfies the predicate the transaction is returned
    unchanged. -/
theorem C16.no_match_no_change (m : Matcher) (env : PrecEnv) (r : Rule) (st : RState) (x : FXact)
    (h : MemoOK m r.pred st)
    (hn : ∀ p ∈ x.posts, p.generated = true ∨ r.pred.eval m x.payee p = false) :
    (extend m env r st x).2 = x := by
  rw [(extend_spec m env r st x h).1]
  have : x.posts.filter (r.matches m x.payee) = [] := by
    apply List.filter_eq_nil_iff.mpr
    intro p hp
    rcases hn p hp with h1 | h1 <;> simp [Rule.matches, h1]
  simp [extendSpec, additions, this]

/-- Generated postings are never matched again.
    (1) every posting a rule adds is flagged generated;
    (2) postings flagged generated yield no additions, whatever the predicate says about them —
        so a rule does not fire on its own output in the same pass, nor in a second pass;
    (3) what the code does with several rules: a later rule `r2` runs over the list that already
        contains `r1`'s additions, skips them because of the flag, and so derives its postings from
        the ORIGINAL postings only — also when `r2 = r1`. -/
theorem C16.generated_not_rematched (m : Matcher) (env : PrecEnv) (r1 r2 : Rule) (st1 st2 : RState) (x : FXact)
    (h1 : MemoOK m r1.pred st1) (h2 : MemoOK m r2.pred st2) :
    (∀ g ∈ additions m env r1 x.payee x.posts, g.generated = true) ∧
    (∀ gens : List FPost, (∀ g ∈ gens, g.generated = true) → additions m env r2 x.payee gens = []) ∧
    (extend m env r2 st2 (extend m env r1 st1 x).2).2.posts =
      x.posts ++ additions m env r1 x.payee x.posts ++ additions m env r2 x.payee x.posts := by
  refine ⟨fun g hg => mem_additions_generated m env r1 x.payee x.posts g hg,
          fun gens hg => additions_generated m env r2 x.payee gens hg, ?_⟩
  rw [(extend_spec m env r2 st2 _ h2).1, (extend_spec m env r1 st1 x h1).1]
  simp only [extendSpec]
  rw [additions_orig_gens m env r2 x.payee x.posts _
        (fun g hg => mem_additions_generated m env r1 x.payee x.posts g hg)]

/-- Journal level, closed form: when all rules `rs` seen so far apply without
    error to a finalized transaction `x` whose postings are `orig ++ gens` (`gens`
    = the postings finalize itself generated), the result is
    `orig ++ gens ++` the additions of each rule, in rule order, each computed
    from the ORIGINAL postings `orig` alone: no rule sees another rule's (or its
    own, or finalize's) generated postings. -/
theorem C16.generated_not_rematched_journal (m : Matcher) (env : PrecEnv) (rs : List Rule) (x y : FXact)
    (orig gens : List FPost) (hx : x.posts = orig ++ gens) (hg : ∀ g ∈ gens, g.generated = true)
    (h : applyRulesSpec m env rs x = .ok y) :
    y.posts = orig ++ gens ++ rs.flatMap (fun r => additions m env r x.payee orig) ∧
    y.payee = x.payee ∧ y.line = x.line := by
  rw [applyRulesSpec_ok m env rs x y h]
  exact foldl_extendSpec_posts m env rs x gens hg orig hx

/-- The quick account-only path with its memo equals the general evaluator:
    (1) whenever `post_pred` answers (does not throw) its answer is the general evaluator's, for
        every posting with that account name and every payee;
    (2) `matchPost` (memo lookup, else quick path and memoise, else fall back for good) returns the
        general evaluator's answer under the state invariant, and preserves the invariant;
    (3) the invariant holds for a fresh rule. -/
theorem C16.quick_eq_general (m : Matcher) (pr : Pred) :
    (∀ (payee : String) (p : FPost) (b : Bool), pr.quick m p.account = some b → pr.eval m payee p = b) ∧
    (∀ (payee : String) (st : RState) (p : FPost), MemoOK m pr st →
        (matchPost m pr payee st p).1 = pr.eval m payee p ∧ MemoOK m pr (matchPost m pr payee st p).2) ∧
    MemoOK m pr RState.init :=
  ⟨fun payee p b h => quick_sound m payee p pr b h,
   fun payee st p h => ⟨matchPost_fst m pr payee st p h, matchPost_ok m pr payee st p h⟩,
   memoOK_init m pr⟩

/-- Every matching state that `load` reaches satisfies the invariant, and the
    rules registered are exactly the rules of the file so far, in order. -/
theorem C16.load_memo_ok (m : Matcher) (items : List Item) :
    (∀ p ∈ (load m items).rules, MemoOK m p.1.pred p.2) ∧
    (load m items).rules.map (·.1) = rulesOf items :=
  load_allOK m items

/-- `journal_t::add_xact`: a transaction is finalized, then extended by exactly
    the rules that precede it in the file (stateless specification
    `applyRulesSpec`: each rule's `additions`, then its conditional re-verification),
    and appended; on an error it is dropped and the error recorded. -/
theorem C16.load_applies_rules_so_far (m : Matcher) (pre : List Item) (x : Xact) :
    let s := load m pre
    let prec := s.prec.bumpAll (x.posts.filterMap (·.amount))
    let s' := load m (pre ++ [.xact x])
    match finalize prec.get x with
    | .error e => s'.xacts = s.xacts ∧ s'.errs = s.errs ++ [(x.line, 0, e)]
    | .ok fx =>
      match applyRulesSpec m prec.get (rulesOf pre) fx with
      | .ok fx' => s'.xacts = s.xacts ++ [fx'] ∧ s'.errs = s.errs
      | .error (e, rl) => s'.xacts = s.xacts ∧ s'.errs = s.errs ++ [(x.line, rl, e)] := by
  intro s prec s'
  have hs' : s' = step m s (.xact x) := load_snoc m pre (.xact x)
  have hok := load_allOK m pre
  rw [hs']
  simp only [step]
  cases hf : finalize (PrecTable.get prec) x with
  | error e => simp
  | ok fx =>
    have hf' := hf
    simp only []
    have hsp := applyRules_spec m (PrecTable.get prec) s.rules fx hok.1
    rw [hok.2] at hsp
    simp only [prec] at hsp
    rw [← hsp.1]
    cases hr : (applyRules m (PrecTable.get (s.prec.bumpAll (x.posts.filterMap (·.amount)))) s.rules fx).2 with
    | ok fx' => simp
    | error e => obtain ⟨e1, e2⟩ := e; simp

/-- Rules only affect later transactions: whatever follows a file prefix `pre`
    — in particular a rule and any further items — the transactions accepted (and
    the errors reported) for `pre` stay exactly as `load pre` produced them, as a
    prefix of the final lists; and a rule placed after everything changes no
    transaction at all. -/
theorem C16.rules_only_later (m : Matcher) (pre post : List Item) (r : Rule) :
    (load m pre).xacts <+: (load m (pre ++ [.rule r] ++ post)).xacts ∧
    (load m pre).errs <+: (load m (pre ++ [.rule r] ++ post)).errs ∧
    (load m (pre ++ [.rule r])).xacts = (load m pre).xacts ∧
    (load m (pre ++ [.rule r])).errs = (load m pre).errs := by
  have h := loadFrom_prefix m ([.rule r] ++ post) (load m pre)
  rw [List.append_assoc, load_append]
  refine ⟨h.1, h.2, ?_, ?_⟩ <;> rw [load_snoc] <;> rfl

/-- An extended transaction that no longer balances is an error.
    (1) one rule: `extend_xact` raises "Transaction does not balance" exactly when the rule added a
        posting that must balance and `verify()`'s running balance over ALL must-balance postings of
        the extended transaction is not zero (at display precision); otherwise it returns the
        extended transaction;
    (2) journal: if the error arises for some rule seen so far, the transaction is not added to the
        journal and an error naming the transaction and the rule is recorded. -/
theorem C16.extended_unbalanced_error (m : Matcher) (env : PrecEnv) (r : Rule) (st : RState) (x : FXact)
    (h : MemoOK m r.pred st) :
    ((extendChecked m env r st x).2 = .error .unbalanced ↔
        ((additions m env r x.payee x.posts).any FPost.mustBalance = true ∧
         balanced env (x.posts ++ additions m env r x.payee x.posts) = false)) ∧
    ((extendChecked m env r st x).2 ≠ .error .unbalanced →
        (extendChecked m env r st x).2 = .ok (extendSpec m env r x)) := by
  have hc := (extendChecked_spec m env r st x h).1
  rw [hc]
  by_cases hcond : (additions m env r x.payee x.posts).any FPost.mustBalance ∧
      ¬ balanced env (extendSpec m env r x).posts
  · rw [if_pos hcond]
    refine ⟨⟨fun _ => ⟨hcond.1, by simpa [extendSpec] using hcond.2⟩, fun _ => rfl⟩, fun hne => absurd rfl hne⟩
  · rw [if_neg hcond]
    refine ⟨⟨fun hh => (by cases hh), fun hh => ?_⟩, fun _ => rfl⟩
    exact absurd ⟨hh.1, by simpa [extendSpec] using hh.2⟩ hcond

theorem C16.extended_unbalanced_error_journal (m : Matcher) (pre : List Item) (x : Xact) (fx : FXact)
    (e : LErr) (rl : Nat)
    (hf : finalize ((load m pre).prec.bumpAll (x.posts.filterMap (·.amount))).get x = .ok fx)
    (he : applyRulesSpec m ((load m pre).prec.bumpAll (x.posts.filterMap (·.amount))).get (rulesOf pre) fx
            = .error (e, rl)) :
    (load m (pre ++ [.xact x])).xacts = (load m pre).xacts ∧
    (load m (pre ++ [.xact x])).errs = (load m pre).errs ++ [(x.line, rl, e)] ∧
    e = .unbalanced ∧ ∃ r ∈ rulesOf pre, r.line = rl := by
  have := C16.load_applies_rules_so_far m pre x
  simp only [hf, he] at this
  refine ⟨this.1, this.2, ?_⟩
  clear this hf
  generalize (PrecTable.get _) = env at he
  generalize rulesOf pre = rs at he ⊢
  induction rs generalizing fx with
  | nil => simp [applyRulesSpec] at he
  | cons r rs ih =>
    simp only [applyRulesSpec] at he
    split at he
    · cases he; exact ⟨rfl, r, List.mem_cons_self .., rfl⟩
    · obtain ⟨h1, r', hr', h2⟩ := ih _ he
      exact ⟨h1, r', List.mem_cons_of_mem _ hr', h2⟩

/-! ### non-vacuity: concrete instances -/

namespace C16Examples

def exEnv : PrecEnv := fun c => if c = "$" then 2 else 0
def exAmt (q : Rat) (p : Nat) (c : String) : Amount := { q := q, prec := p, keep := false, comm := c }
def exPost (a : String) (q : Rat) (line : Nat) : FPost :=
  { account := a, kind := .real, amount := exAmt q 2 "$", line := line, generated := false, calculated := false }
def exX : FXact := { payee := "payee 1", line := 4, posts := [exPost "Expenses:Food" 10 5, exPost "Assets:Cash" (-10) 6] }
def exRule : Rule :=
  { pred := .acct "food", line := 1,
    lines := [{ account := "Budget:$account", kind := .virtual, amount := exAmt (1/10) 1 "", line := 2 },
              { account := "Fixed", kind := .bvirtual, amount := exAmt 5 0 "AAA", line := 3 }] }

/-- a matcher the kernel can evaluate (string equality on literals); the theorems hold for every matcher -/
def exM : Matcher := fun pat text => decide (pat = text)
def exRuleE : Rule := { exRule with pred := .acct "Expenses:Food" }

/-- what a posting shows apart from its account (computing the account needs `String.replace`, which the
    kernel does not unfold) -/
def view (p : FPost) : Nat × PostKind × Amount × Bool := (p.line, p.kind, p.amount, p.generated)

/-- a rule fires on the matching posting only; 0.1 × $10.00 = $1 exactly (precision 3), the fixed amount is as written -/
example : (extend exM exEnv exRuleE RState.init exX).2.posts.map view =
    exX.posts.map view ++ [(2, .virtual, exAmt 1 3 "$", true), (3, .bvirtual, exAmt 5 0 "AAA", true)] := by
  decide +kernel

/-- … and the [balanced virtual] fixed amount leaves a residual: error -/
example : ((extendChecked exM exEnv exRuleE RState.init exX).2.toOption.map (·.line)) = none := by decide +kernel

/-- with only the (virtual) line the extension is accepted -/
example : ((extendChecked exM exEnv { exRuleE with lines := exRuleE.lines.take 1 } RState.init exX).2.toOption.map
    (·.posts.length)) = some 3 := by decide +kernel

/-- the memo is filled: both account names are recorded with the quick path's answers -/
example : (extend exM exEnv exRuleE RState.init exX).1.memo =
    [("Assets:Cash", false), ("Expenses:Food", true)] := by decide +kernel

/-- a predicate the quick path cannot evaluate switches the rule to the general evaluator for good -/
example : (extend exM exEnv { exRuleE with pred := .and (.acct "Expenses:Food") (.amtGt 5) } RState.init exX).1.tryQuick
    = false := by decide +kernel

/-- journal level: the rule placed after the first transaction extends only the second -/
def exXact (line : Nat) : Xact :=
  { date := 18262, aux := none, state := 0, code := "", payee := "p", note := "", line := line, endLine := line + 2,
    posts := [{ account := "Expenses:Food", kind := .real, state := 0, amount := some (exAmt 10 2 "$"), cost := none,
                assert := none, note := "", line := line + 1 },
              { account := "Assets:Cash", kind := .real, state := 0, amount := none, cost := none, assert := none,
                note := "", line := line + 2 }] }
def exRule2 : Rule := { exRuleE with lines := exRuleE.lines.take 1, line := 5 }

example : ((load exM [.xact (exXact 1), .rule exRule2, .xact (exXact 8)]).xacts.map (·.posts.length)) = [2, 3] := by
  decide +kernel

example : (load exM [.xact (exXact 1), .rule exRuleE, .xact (exXact 8)]).errs = [(8, 1, .unbalanced)] := by
  decide +kernel

end C16Examples

end Ledger
