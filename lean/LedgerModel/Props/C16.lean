/-
C16 — automated transactions add exactly the declared postings to each match.

The model (`Model/AutoXact.lean`) mirrors `auto_xact_t::extend_xact`
(xact.cc 694-888) statement by statement — the mutable matching state of a rule
(`try_quick_match`, `memoized_results`), deferred notes, `check`/`assert` lines,
amount expressions, rule-line costs, posting state, the final `verify()` — and
`journal_t::add_xact` / `extend_xact` (journal.cc 365-380, 445-449), on top of a
`finalize` that gives postings with an `@`/`@@` cost their lot.  The theorems hold
for every matcher (regex engine), every precision environment, every rule, every
transaction / journal — no bounds.

* `MemoOK` (every memoised answer is what `post_pred` returns for that account
  name) is the invariant of a rule's matching state; it holds initially, is
  preserved by every step, hence for every state `load` reaches.
* `extendSpec` is the stateless specification (general evaluator, no memo);
  `C16.code_refines_spec` says the code computes it.  For predicates without
  `any()`/`all()` the specification has the closed list form of
  `C16.extend_appends_exactly`; `any()`/`all()` read the LIVE posting list
  (post.cc 377-423), so with them only the shape theorem `C16.extend_shape`
  and the sequential specification hold.

The tie to the source is `C16.fns_pinned` and the differential check of `load`
against the rebuilt binary (tools/props/c16.py).
-/
import LedgerModel.Lemmas.AutoXact
import LedgerModel.Gen.AutoXact
import LedgerModel.Model.AutoXactPinned

namespace Ledger
open AutoXact

/-- The automated-transaction code found in the working tree is the code the model mirrors. -/
theorem C16.fns_pinned : Gen.autoXactFns = Pinned.autoXactFns := rfl

/-- The code (memo lookup, quick path, fallback) computes the stateless
    specification, for every predicate incl. `any()`/`all()`, and keeps the state
    invariant. -/
theorem C16.code_refines_spec (m : Matcher) (env : PrecEnv) (r : Rule) (st : RState) (x : FXact)
    (h : MemoOK m r.pred st) :
    (extend m env r st x).2 = extendSpec m env r x ∧ MemoOK m r.pred (extend m env r st x).1 :=
  extend_refines m env r st x h

/-- `extend_xact` appends exactly the declared postings (predicates without
    `any()`/`all()`): if it succeeds, the result is the original postings in place
    — a matched one carries the rule-level notes, nothing else changes (`mark`) —
    followed, for each ORIGINAL posting that is not flagged generated and satisfies
    the predicate (general evaluator), in order, by the postings of the rule's
    lines in order (`gensOf`, whose elements are characterised by
    `C16.generated_posting_fields`).  Payee, position and state of the transaction
    are unchanged; the warnings are the failed `check`s of the matched postings. -/
theorem C16.extend_appends_exactly (m : Matcher) (env : PrecEnv) (r : Rule) (st : RState) (x : FXact) (e : Ext)
    (h : MemoOK m r.pred st) (haf : r.pred.anyFree = true) (hok : (extend m env r st x).2 = .ok e) :
    e.xact.posts = x.posts.map (mark m r x.payee) ++
        (x.posts.filter (fun p => !p.generated && r.pred.eval m [] x.payee p)).flatMap (gensOf env r x) ∧
    e.added = (x.posts.filter (fun p => !p.generated && r.pred.eval m [] x.payee p)).flatMap (gensOf env r x) ∧
    e.xact.payee = x.payee ∧ e.xact.line = x.line ∧ e.xact.state = x.state ∧
    e.warns = ((x.posts.filter (r.matches m x.payee)).map (warnsOf env r)).sum := by
  rw [(extend_refines m env r st x h).1] at hok
  obtain ⟨lo, hlo, hx, ha, hw, _⟩ := finish_ok hok
  obtain ⟨h1, h2, h3, _⟩ := specGo_closed m env r x haf lo hlo
  rw [hx, ha, hw, h1, h2, h3]
  exact ⟨rfl, rfl, rfl, rfl, rfl, rfl⟩

/-- For EVERY predicate (also with `any()`/`all()`): a successful extension keeps
    the original postings in place, position by position, equal up to their note,
    and everything it appends is flagged generated. -/
theorem C16.extend_shape (m : Matcher) (env : PrecEnv) (r : Rule) (st : RState) (x : FXact) (e : Ext)
    (h : MemoOK m r.pred st) (hok : (extend m env r st x).2 = .ok e) :
    ∃ origs, e.xact.posts = origs ++ e.added ∧ Pointwise SameButNote origs x.posts ∧
      ∀ g ∈ e.added, g.generated = true := by
  rw [(extend_refines m env r st x h).1] at hok
  obtain ⟨lo, hlo, hx, ha, _, _⟩ := finish_ok hok
  obtain ⟨⟨rest', h1, h2⟩, ⟨more, h3, h4⟩⟩ := loop_shape (decSpec m r x) env r x x.posts () [] [] 0 lo hlo
  refine ⟨lo.origs, by rw [hx, ha], by simpa [h1] using h2, ?_⟩
  intro g hg
  rw [ha, h3] at hg
  exact h4 g (by simpa using hg)

/-- The fields of a generated posting (rule line `l`, index `i`, matched posting
    `ip`, transaction `x`):
    * amount — a literal WITHOUT commodity is multiplied EXACTLY by the matched amount: quantity =
      product of the exact rationals, commodity = the matched one's INCLUDING its lot annotation; a
      commoditized literal is used as written; an amount expression is evaluated in the matched
      posting's scope: an integer or commodity-less value multiplies the matched amount, a
      commoditized value is used as is;
    * the rule line's account with `$account` / `%(account)` / `%(payee)` substituted, its kind,
      position and TOTAL cost (fixed when the rule was read, not scaled);
    * state: cleared when the transaction is cleared, else the rule line's own;
    * note: the line's inline note, then the rule-level notes and the notes following that line;
    * flagged generated. -/
theorem C16.generated_posting_fields (env : PrecEnv) (r : Rule) (x : FXact) (ip : FPost) (i : Nat) (l : RuleLine)
    (g : FPost) (h : genPost env r x ip i l = .ok g) :
    (∀ a, l.amt = .lit a → a.hasComm = true → g.amount = a) ∧
    (∀ a, l.amt = .lit a → a.hasComm = false →
        g.amount.q = ip.amount.q * a.q ∧ g.amount.comm = ip.amount.comm) ∧
    (∀ e a, l.amt = .expr e → evalPostExpr env ip e = .ok (.v (.amt a)) →
        (a.hasComm = true → g.amount = a) ∧
        (a.hasComm = false → g.amount.q = ip.amount.q * a.q ∧ g.amount.comm = ip.amount.comm)) ∧
    (∀ e n, l.amt = .expr e → evalPostExpr env ip e = .ok (.v (.int n)) →
        g.amount.q = ip.amount.q * (n : Rat)) ∧
    g.account = substAccount l.account ip.account x.payee ∧ g.kind = l.kind ∧ g.line = l.line ∧
    g.cost = l.cost ∧ g.state = (if x.state = 1 then 1 else l.state) ∧ g.generated = true ∧
    g.note = (notesFor r i).foldl (fun (n : Option String) t => some (match n with
                                                                     | some s => s ++ "\n" ++ t
                                                                     | none => t)) l.note := by
  unfold genPost at h
  cases hga : genAmount env l.amt ip with
  | error e => rw [hga] at h; cases h
  | ok a0 =>
    rw [hga] at h
    simp only at h
    cases h
    have hs := foldl_appendNote_same (notesFor r i)
      { account := substAccount l.account ip.account x.payee, kind := l.kind,
        state := if x.state = 1 then 1 else l.state, amount := a0, cost := l.cost, note := l.note,
        line := l.line, generated := true, calculated := false }
    have hn := foldl_appendNote_note (notesFor r i)
      { account := substAccount l.account ip.account x.payee, kind := l.kind,
        state := if x.state = 1 then 1 else l.state, amount := a0, cost := l.cost, note := l.note,
        line := l.line, generated := true, calculated := false }
    obtain ⟨s1, s2, s3, s4, s5, s6, s7, _⟩ := hs
    have hmulc : ∀ b : Amount, b.hasComm = false →
        (Amount.mul env ip.amount b).comm = ip.amount.comm := by
      intro b hb
      rw [mul_comm_field]
      split
      · rfl
      · rename_i hm
        have h1 : ip.amount.comm = "" := by simpa [Amount.hasComm] using hm
        have h2 : b.comm = "" := by simpa [Amount.hasComm] using hb
        rw [h1, h2]
    refine ⟨?_, ?_, ?_, ?_, s1, s2, s6, s5, s3, s7, hn⟩
    · intro a hl ha
      rw [s4]; simp only [genAmount, hl, ha, if_true] at hga; cases hga; rfl
    · intro a hl ha
      rw [s4]; simp only [genAmount, hl, ha, Bool.false_eq_true, if_false] at hga; cases hga
      exact ⟨mul_q env _ _, hmulc a ha⟩
    · intro e a hl hev
      rw [s4]; simp only [genAmount, hl, hev] at hga
      constructor
      · intro ha; simp only [ha, if_true] at hga; cases hga; rfl
      · intro ha; simp only [ha, Bool.false_eq_true, if_false] at hga; cases hga
        exact ⟨mul_q env _ _, hmulc a ha⟩
    · intro e n hl hev
      rw [s4]; simp only [genAmount, hl, hev] at hga; cases hga
      rw [mul_q]; rfl

/-- The amount expression `(amount * k)` — as the expression parser reads it —
    on a commoditized matched amount is the multiplier `k`: both give
    `matched × k` (same quantity, precision, commodity).  (On a commodity-LESS
    matched amount the expression's value has no commodity either and is, as
    coded, multiplied by the matched amount once more.) -/
theorem C16.expr_times_eq_multiplier (env : PrecEnv) (ip : FPost) (k : Amount)
    (hip : ip.amount.hasComm = true) (hk : k.hasComm = false) :
    genAmount env (.expr (.bin .mul (.ident "amount" .nil) (.val (.amt k)))) ip = genAmount env (.lit k) ip ∧
    genAmount env (.lit k) ip = .ok (Amount.mul env ip.amount k) := by
  have hev : evalPostExpr env ip (.bin .mul (.ident "amount" .nil) (.val (.amt k))) =
      .ok (.v (.amt (Amount.mul env ip.amount k))) := rfl
  have hc : (Amount.mul env ip.amount k).hasComm = true := by
    have := mul_comm_field env ip.amount k
    simp only [hip, if_true] at this
    simp only [Amount.hasComm] at hip ⊢
    rw [this]; exact hip
  simp only [genAmount, hev, hc, hk, if_true, Bool.false_eq_true, if_false, and_self]

/-- The matched posting's COST, note, state and flags play no role in what is
    generated: only its account and its amount (with its lot) are read.  In
    particular a posting bought `@`/`@@` yields `multiplier × amount` in the lot's
    commodity, not a share of the cost. -/
theorem C16.matched_cost_plays_no_role (env : PrecEnv) (r : Rule) (x : FXact) (p q : FPost)
    (ha : p.amount = q.amount) (hc : p.account = q.account) (i : Nat) (ls : List RuleLine) :
    genLines env r x p i ls = genLines env r x q i ls :=
  genLines_congr env r x p q ha hc ls i

/-- what `finalize` does to a posting with a cost (xact.cc 287-345, pool.cc
    240-320): the quantity is unchanged, the commodity becomes the lot
    BASE {|total cost / quantity|} [transaction date], the cost is kept. -/
theorem C16.finalize_cost_lot (env : PrecEnv) (date : Int) (p p' : PPost) (a c : Amount)
    (ha : p.amount = some a) (hc : p.cost = some c) (h : annotateCost env date p = .ok p') :
    p'.amount = some { a with comm := lotComm a.comm (Amount.mk (ratAbs (c.q / a.q)) c.prec true c.comm) date } ∧
    p'.cost = some c ∧ a.comm ≠ c.comm := by
  unfold annotateCost at h
  simp only [ha, hc] at h
  split at h
  · cases h
  · split at h
    · cases h
    · rename_i hne
      split at h
      · cases h
      · cases h
        exact ⟨rfl, rfl, hne⟩

/-- Original postings stay in place (predicates without `any()`/`all()`): the
    k-th posting of the result is the k-th original, unchanged when it does not
    match, and equal up to its note — which gains exactly the rule-level notes —
    when it matches. -/
theorem C16.nonmatching_untouched (m : Matcher) (env : PrecEnv) (r : Rule) (st : RState) (x : FXact) (e : Ext)
    (h : MemoOK m r.pred st) (haf : r.pred.anyFree = true) (hok : (extend m env r st x).2 = .ok e) :
    ∀ (k : Nat) (p : FPost), x.posts[k]? = some p →
      (r.matches m x.payee p = false → e.xact.posts[k]? = some p) ∧
      (r.matches m x.payee p = true →
        ∃ p', e.xact.posts[k]? = some p' ∧ SameButNote p' p ∧
          p'.note = (ruleLevelNotes r).foldl (fun (n : Option String) t => some (match n with
                                                                                | some s => s ++ "\n" ++ t
                                                                                | none => t)) p.note) := by
  intro k p hk
  have hp := (C16.extend_appends_exactly m env r st x e h haf hok).1
  have hlt : k < x.posts.length := by
    rcases Nat.lt_or_ge k x.posts.length with h1 | h1
    · exact h1
    · rw [List.getElem?_eq_none h1] at hk; cases hk
  have hget : e.xact.posts[k]? = some (mark m r x.payee p) := by
    rw [hp, List.getElem?_append_left (by simpa using hlt), List.getElem?_map, hk]; rfl
  constructor
  · intro hm; rw [hget]; simp [mark, hm]
  · intro hm
    refine ⟨annotate r p, by rw [hget]; simp [mark, hm], annotate_same r p, ?_⟩
    exact foldl_appendNote_note _ p

/-- Generated postings are never matched again.
    (1) everything a rule appends is flagged generated (any predicate);
    (2) postings flagged generated yield no additions, whatever the predicate says about them —
        so a rule does not fire on its own output in the same pass, nor in a second pass;
    (3) what the code does with several rules: a later rule `r2` runs over the list that already
        contains `r1`'s additions, skips them because of the flag, and derives its postings from the
        ORIGINAL postings only (as `r1` left them: same amounts and accounts, notes grown) — also when
        `r2 = r1`. -/
theorem C16.generated_not_rematched (m : Matcher) (env : PrecEnv) (r1 r2 : Rule) (x : FXact) (e1 e2 : Ext)
    (haf1 : r1.pred.anyFree = true) (haf2 : r2.pred.anyFree = true)
    (h1 : extendSpec m env r1 x = .ok e1) (h2 : extendSpec m env r2 e1.xact = .ok e2) :
    (∀ g ∈ e1.added, g.generated = true) ∧
    (∀ gens : List FPost, (∀ g ∈ gens, g.generated = true) → additions m env r2 e1.xact gens = []) ∧
    e2.added = additions m env r2 e1.xact (x.posts.map (mark m r1 x.payee)) ∧
    e2.xact.posts = (x.posts.map (mark m r1 x.payee)).map (mark m r2 x.payee) ++ e1.added ++ e2.added := by
  obtain ⟨lo1, hlo1, hx1, ha1, _, _⟩ := finish_ok h1
  obtain ⟨o1, a1, _, _⟩ := specGo_closed m env r1 x haf1 lo1 hlo1
  obtain ⟨lo2, hlo2, hx2, ha2, _, _⟩ := finish_ok h2
  obtain ⟨o2, a2, _, _⟩ := specGo_closed m env r2 e1.xact haf2 lo2 hlo2
  have hgen1 : ∀ g ∈ e1.added, g.generated = true := by
    intro g hg; rw [ha1, a1] at hg; exact mem_additions_generated m env r1 x x.posts g hg
  have hpay : e1.xact.payee = x.payee := by rw [hx1]
  have hposts1 : e1.xact.posts = x.posts.map (mark m r1 x.payee) ++ e1.added := by rw [hx1, ha1, o1]
  refine ⟨hgen1, fun gens hg => additions_generated m env r2 e1.xact gens hg, ?_, ?_⟩
  · rw [ha2, a2, hposts1, additions_append, additions_generated m env r2 e1.xact e1.added hgen1, List.append_nil]
  · have hmapid : e1.added.map (mark m r2 x.payee) = e1.added := by
      have : ∀ g ∈ e1.added, mark m r2 x.payee g = id g := by
        intro g hg; simp [mark, Rule.matches, hgen1 g hg]
      rw [List.map_congr_left this]; simp
    rw [hx2, ha2, o2, a2, hposts1, hpay]
    simp only [List.map_append, additions_append, additions_generated m env r2 e1.xact e1.added hgen1,
      List.append_nil, List.append_assoc, hmapid]

/-- The quick account-only path with its memo equals the general evaluator:
    (1) whenever `post_pred` answers (does not throw) its answer is the general evaluator's, for
        every posting with that account name, every payee and every posting list;
    (2) `matchPost` (memo lookup, else quick path and memoise, else fall back for good) returns the
        general evaluator's answer under the state invariant, and preserves the invariant;
    (3) the invariant holds for a fresh rule. -/
theorem C16.quick_eq_general (m : Matcher) (pr : Pred) :
    (∀ (ctx : List FPost) (payee : String) (p : FPost) (b : Bool),
        pr.quick m p.account = some b → pr.eval m ctx payee p = b) ∧
    (∀ (ctx : List FPost) (payee : String) (st : RState) (p : FPost), MemoOK m pr st →
        (matchPost m pr ctx payee st p).1 = pr.eval m ctx payee p ∧
        MemoOK m pr (matchPost m pr ctx payee st p).2) ∧
    MemoOK m pr RState.init :=
  ⟨fun ctx payee p b h => quick_sound m ctx payee p pr b h,
   fun ctx payee st p h => ⟨matchPost_fst m pr ctx payee st p h, matchPost_ok m pr ctx payee st p h⟩,
   memoOK_init m pr⟩

/-- Every matching state that `load` reaches satisfies the invariant, and the
    rules registered are exactly the rules of the file so far, in order. -/
theorem C16.load_memo_ok (m : Matcher) (items : List Item) :
    (∀ p ∈ (load m items).rules, MemoOK m p.1.pred p.2) ∧
    (load m items).rules.map (·.1) = rulesOf items :=
  load_allOK m items

/-- `journal_t::add_xact`: a transaction is finalized, then extended by exactly
    the rules that precede it in the file (stateless specification
    `applyRulesSpec`: each rule's `extendSpec` in turn), and appended with its
    warning count; on an error it is dropped and the error recorded with the line
    of the rule that raised it. -/
theorem C16.load_applies_rules_so_far (m : Matcher) (pre : List Item) (x : Xact) :
    let s := load m pre
    let prec := s.prec.bumpAll (x.posts.filterMap (·.amount))
    let s' := load m (pre ++ [.xact x])
    match finalize prec.get x with
    | .error e => s'.xacts = s.xacts ∧ s'.errs = s.errs ++ [(x.line, 0, e)] ∧ s'.warns = s.warns
    | .ok fx =>
      match applyRulesSpec m prec.get (rulesOf pre) fx 0 with
      | .ok (fx', w) => s'.xacts = s.xacts ++ [fx'] ∧ s'.errs = s.errs ∧ s'.warns = s.warns ++ [(x.line, w)]
      | .error (e, rl) => s'.xacts = s.xacts ∧ s'.errs = s.errs ++ [(x.line, rl, e)] ∧ s'.warns = s.warns := by
  intro s prec s'
  have hs' : s' = step m s (.xact x) := load_snoc m pre (.xact x)
  have hok := load_allOK m pre
  rw [hs']
  simp only [step]
  cases hf : finalize (PrecTable.get prec) x with
  | error e => simp
  | ok fx =>
    simp only []
    have hsp := applyRules_spec m (PrecTable.get prec) s.rules fx 0 hok.1
    rw [hok.2] at hsp
    simp only [prec] at hsp
    rw [← hsp.1]
    cases hr : (applyRules m (PrecTable.get (s.prec.bumpAll (x.posts.filterMap (·.amount)))) s.rules fx 0).2 with
    | ok res => obtain ⟨fx', w⟩ := res; simp
    | error e => obtain ⟨e1, e2⟩ := e; simp

/-- Rules only affect later transactions: whatever follows a file prefix `pre`
    — in particular a rule and any further items — the transactions accepted, the
    errors and the warnings reported for `pre` stay exactly as `load pre` produced
    them, as a prefix of the final lists; and a rule placed after everything
    changes nothing at all. -/
theorem C16.rules_only_later (m : Matcher) (pre post : List Item) (r : Rule) :
    (load m pre).xacts <+: (load m (pre ++ [.rule r] ++ post)).xacts ∧
    (load m pre).errs <+: (load m (pre ++ [.rule r] ++ post)).errs ∧
    (load m pre).warns <+: (load m (pre ++ [.rule r] ++ post)).warns ∧
    (load m (pre ++ [.rule r])).xacts = (load m pre).xacts ∧
    (load m (pre ++ [.rule r])).errs = (load m pre).errs ∧
    (load m (pre ++ [.rule r])).warns = (load m pre).warns := by
  have h := loadFrom_prefix m ([.rule r] ++ post) (load m pre)
  rw [List.append_assoc, load_append]
  refine ⟨h.1, h.2.1, h.2.2, ?_, ?_, ?_⟩ <;> rw [load_snoc] <;> rfl

/-- An extended transaction that no longer balances is an error.  After the
    loop, `extend_xact` calls `verify()` exactly when this rule appended a posting
    that must balance; then
    * a posting whose cost has the commodity of its own amount ⇒ "A posting's cost must be of a
      different commodity than its amount";
    * else a running balance (of `cost ? cost : amount` over ALL must-balance postings) that is not
      zero at display precision ⇒ "Transaction does not balance";
    * else, and whenever nothing that must balance was appended, the extension is accepted. -/
theorem C16.extended_unbalanced_error (env : PrecEnv) (x : FXact) (lo : LoopOut) :
    (AutoXact.finish env x (.ok lo) = .error .unbalanced ↔
        (lo.added.any FPost.mustBalance = true ∧ sameCommCost (lo.origs ++ lo.added) = false ∧
         balanced env (lo.origs ++ lo.added) = false)) ∧
    (AutoXact.finish env x (.ok lo) = .error .sameCommCost ↔
        (lo.added.any FPost.mustBalance = true ∧ sameCommCost (lo.origs ++ lo.added) = true)) ∧
    ((lo.added.any FPost.mustBalance = false ∨
        (sameCommCost (lo.origs ++ lo.added) = false ∧ balanced env (lo.origs ++ lo.added) = true)) →
        AutoXact.finish env x (.ok lo) =
          .ok { xact := { x with posts := lo.origs ++ lo.added }, added := lo.added, warns := lo.warns }) := by
  unfold AutoXact.finish verify
  simp only
  by_cases hmb : lo.added.any FPost.mustBalance = true
  · simp only [hmb, if_true]
    by_cases hs : sameCommCost (lo.origs ++ lo.added) = true
    · simp [hs]
    · have hs' : sameCommCost (lo.origs ++ lo.added) = false := by simpa using hs
      simp only [hs', Bool.false_eq_true, if_false]
      by_cases hb : balanced env (lo.origs ++ lo.added) = true
      · simp [hb]
      · have hb' : balanced env (lo.origs ++ lo.added) = false := by simpa using hb
        simp [hb']
  · have hmb' : lo.added.any FPost.mustBalance = false := by simpa using hmb
    simp [hmb']

/-- Journal level: whenever applying the rules seen so far raises (an unbalanced
    extension, a failing assert, an expression error, …), the transaction is not
    added to the journal and an error naming the transaction and one of the rules
    seen so far is recorded. -/
theorem C16.extension_error_drops_transaction (m : Matcher) (pre : List Item) (x : Xact) (fx : FXact)
    (e : LErr) (rl : Nat)
    (hf : finalize ((load m pre).prec.bumpAll (x.posts.filterMap (·.amount))).get x = .ok fx)
    (he : applyRulesSpec m ((load m pre).prec.bumpAll (x.posts.filterMap (·.amount))).get (rulesOf pre) fx 0
            = .error (e, rl)) :
    (load m (pre ++ [.xact x])).xacts = (load m pre).xacts ∧
    (load m (pre ++ [.xact x])).errs = (load m pre).errs ++ [(x.line, rl, e)] ∧
    ∃ r ∈ rulesOf pre, r.line = rl := by
  have := C16.load_applies_rules_so_far m pre x
  simp only [hf, he] at this
  refine ⟨this.1, this.2.1, ?_⟩
  clear this hf
  generalize (PrecTable.get _) = env at he
  generalize rulesOf pre = rs at he ⊢
  generalize (0 : Nat) = w at he
  induction rs generalizing fx w with
  | nil => simp [applyRulesSpec] at he
  | cons r rs ih =>
    simp only [applyRulesSpec] at he
    split at he
    · obtain ⟨r', hr', h2⟩ := ih _ _ he
      exact ⟨r', List.mem_cons_of_mem _ hr', h2⟩
    · cases he; exact ⟨r, List.mem_cons_self .., rfl⟩

/-- `assert` lines: the checks of a matched posting raise "Transaction assertion
    failed" exactly when some `assert` line evaluates to false while every line
    before it evaluates (and every earlier `assert` holds). -/
theorem C16.assert_fails_iff_error (env : PrecEnv) (ip : FPost) (cs : List Check) :
    runChecks env ip cs = .error .assertFailed ↔
      ∃ pre c post, cs = pre ++ c :: post ∧ c.kind = .assert ∧ checkTruth env ip c = some false ∧
        ∀ d ∈ pre, ∃ b, checkTruth env ip d = some b ∧ (d.kind = .assert → b = true) :=
  runChecks_assert_iff env ip cs

/-- `check` lines never reject: when every line is a `check` whose expression
    evaluates, the result is never an error — it is the number of lines that are
    false (one warning each). -/
theorem C16.check_never_rejects (env : PrecEnv) (ip : FPost) (cs : List Check)
    (h : ∀ c ∈ cs, c.kind = .check ∧ (checkTruth env ip c).isSome) :
    runChecks env ip cs = .ok ((cs.filter (fun c => checkTruth env ip c = some false)).length) :=
  runChecks_check_only env ip cs h

/-- A successful extension means every matched posting passed the rule's
    `assert` lines and every line's amount could be computed (predicates without
    `any()`/`all()`): a failing `assert` on ANY matched posting makes the whole
    extension an error. -/
theorem C16.matched_postings_pass_asserts (m : Matcher) (env : PrecEnv) (r : Rule) (st : RState) (x : FXact) (e : Ext)
    (h : MemoOK m r.pred st) (haf : r.pred.anyFree = true) (hok : (extend m env r st x).2 = .ok e) :
    ∀ ip ∈ x.posts, r.matches m x.payee ip = true →
      runChecks env (annotate r ip) r.checks ≠ .error .assertFailed ∧
      ∃ gs, genLines env r x (annotate r ip) 0 r.lines = .ok gs ∧ gs.length = r.lines.length := by
  rw [(extend_refines m env r st x h).1] at hok
  obtain ⟨lo, hlo, _, _, _, _⟩ := finish_ok hok
  obtain ⟨_, _, _, h4⟩ := specGo_closed m env r x haf lo hlo
  intro ip hip hm
  obtain ⟨⟨k, hk⟩, ⟨gs, hgs⟩⟩ := h4 ip hip hm
  exact ⟨(by rw [hk]; intro hh; cases hh), gs, hgs, genLines_length _ _ _ hgs⟩

/-! ### non-vacuity: concrete instances -/

namespace C16Examples

def exEnv : PrecEnv := fun c => if c = "$" then 2 else 0
def exAmt (q : Rat) (p : Nat) (c : String) : Amount := { q := q, prec := p, keep := false, comm := c }
def exPost (a : String) (q : Rat) (line : Nat) : FPost :=
  { account := a, kind := .real, state := 0, amount := exAmt q 2 "$", cost := none, note := none, line := line,
    generated := false, calculated := false }
def exX : FXact := { payee := "payee 1", line := 4, state := 1,
                     posts := [exPost "Expenses:Food" 10 5, exPost "Assets:Cash" (-10) 6] }
/-- a matcher the kernel can evaluate (string equality on literals); the theorems hold for every matcher -/
def exM : Matcher := fun pat text => decide (pat = text)
def exLine (acct : String) (k : PostKind) (a : Amount) (line : Nat) : RuleLine :=
  { account := acct, kind := k, state := 2, amt := .lit a, cost := none, note := none, line := line }
def exRule : Rule :=
  { pred := .acct "Expenses:Food", line := 1, notes := [], checks := [],
    lines := [exLine "Budget:$account" .virtual (exAmt (1/10) 1 "") 2, exLine "Fixed" .bvirtual (exAmt 5 0 "AAA") 3] }

/-- what a posting shows apart from its account (computing the account needs `String.replace`, which the
    kernel does not unfold) -/
def view (p : FPost) : Nat × PostKind × ItemState × Amount × Bool := (p.line, p.kind, p.state, p.amount, p.generated)

/-- a rule fires on the matching posting only; 0.1 × $10.00 = $1 exactly (precision 3), the fixed amount is as
    written; the transaction is cleared, so are the generated postings (the rule lines say pending) -/
example : (specGo exM exEnv exRule exX).toOption.map (fun o => o.added.map view) =
    some [(2, .virtual, 1, exAmt 1 3 "$", true), (3, .bvirtual, 1, exAmt 5 0 "AAA", true)] := by
  decide +kernel

/-- … and the [balanced virtual] fixed amount leaves a residual: error -/
example : ((extend exM exEnv exRule RState.init exX).2.toOption.map (·.warns)) = none := by decide +kernel

/-- with only the (virtual) line the extension is accepted -/
example : ((extend exM exEnv { exRule with lines := exRule.lines.take 1 } RState.init exX).2.toOption.map
    (·.xact.posts.length)) = some 3 := by decide +kernel

/-- the memo is filled: both account names are recorded with the quick path's answers -/
example : (extend exM exEnv exRule RState.init exX).1.memo =
    [("Assets:Cash", false), ("Expenses:Food", true)] := by decide +kernel

/-- a predicate the quick path cannot evaluate switches the rule to the general evaluator for good -/
example : (extend exM exEnv { exRule with pred := .and (.acct "Expenses:Food") (.amtGt 5) } RState.init exX).1.tryQuick
    = false := by decide +kernel

/-- any() sees the postings generated earlier in the same pass: the second posting matches only because the
    first one's generated posting is already in the transaction -/
def exAnyRule : Rule :=
  { exRule with pred := .or (.acct "Expenses:Food") (.any (.amtGt 50)),
                lines := [exLine "Gen" .virtual (exAmt 10 0 "") 2] }
example : (specGo exM exEnv exAnyRule exX).toOption.map (fun o => o.added.map (·.amount.q)) = some [100, -100] := by
  decide +kernel

/-- a rule-level note reaches the matched posting and the generated one; a note after the line only the latter -/
def exNoteRule : Rule :=
  { exRule with lines := exRule.lines.take 1, notes := [{ text := " lead", applyTo := none }, { text := " tail", applyTo := some 0 }] }
example : (specGo exM exEnv exNoteRule exX).toOption.map (fun o => (o.origs.map (·.note), o.added.map (·.note))) =
    some ([some " lead", none], [some " lead\n tail"]) := by decide +kernel

/-- journal level: the rule placed after the first transaction extends only the second -/
def exXact (line : Nat) : Xact :=
  { date := 18262, aux := none, state := 0, code := "", payee := "p", note := "", line := line, endLine := line + 2,
    posts := [{ account := "Expenses:Food", kind := .real, state := 0, amount := some (exAmt 10 2 "$"), cost := none,
                assert := none, note := "", line := line + 1 },
              { account := "Assets:Cash", kind := .real, state := 0, amount := none, cost := none, assert := none,
                note := "", line := line + 2 }] }
def exRule2 : Rule := { exRule with lines := exRule.lines.take 1, line := 5 }

example : ((load exM [.xact (exXact 1), .rule exRule2, .xact (exXact 8)]).xacts.map (·.posts.length)) = [2, 3] := by
  decide +kernel

example : (load exM [.xact (exXact 1), .rule exRule, .xact (exXact 8)]).errs = [(8, 1, .unbalanced)] := by
  decide +kernel

end C16Examples

end Ledger
