/-
C17 — sorting and regrouping options only reorder or merge postings.

Model: Model/Regroup.lean (sort_posts / sort_xacts / compare_items /
sort_value_is_less_than, truncate_xacts, collapse_posts, subtotal_posts,
by_payee_posts, day_of_week_posts, calc_posts, stacked as chain.cc stacks them).
All theorems are for every posting list and every valuation of the postings
(`RPost.value`: what the amount expression yields, e.g. the cost under -B).

* `--sort`: the output is a permutation of the input (`sort_perm`); when the key
  comparison is a strict weak order on the postings it is ordered by the key
  (`sort_sorted`), ties keep the input order (`sort_stable`), and it is the only
  arrangement with these two properties (`sort_unique`).  The hypothesis is
  proved for date / payee / account keys, amounts of one commodity, amounts that
  all carry a commodity, and every compound key of these (`sortValueLess_swo`).
  It is FALSE in general (`sort_key_swo_everywhere_false`, witness −10 EUR, $0, $5).
  `--sort-xacts` does the same inside every transaction and leaves the
  transactions in place (`sort_xacts`); `--sort-all` is `--sort`.
* `--head N` / `--tail M`, alone or together, negative counts included: the
  handler (per-posting state machine with its early stop, and the two loops of
  flush) keeps the transactions whose index passes the window of flush
  (`truncate_window`, `window_spec`), which is `take N`, `drop (len − M)`, their
  union, `drop K` for `--head -K` and `take (len − K)` for `--tail -K`.
* `--subtotal`, `--by-payee`, `--dow`, `--collapse`, `--depth N`: `GroupSums` –
  one row per group, every group present, each row's value and the grand total
  equal to the per-commodity sums (denotation `den`) of the member postings; also
  for two stages in a row (`*_then_*`; subtotal_posts reads the compound value of a
  row handed down to it – `subtotal_reads_compound`, extracted; without that the
  row is lost, `compound_row_lost_without_flag`), and with the grand total through
  any stack of stages (`regroup_total`).
  subtotal_posts sums `post.amount`, not the amount expression: under a valuation
  that differs from the amount its rows are not the sums of the register's values
  (`subtotal_valued_everywhere_false`).
  Rows of one transaction under `--depth N` come in account-name order
  (`collapse_depth_rows_sorted`).

The comparison operators of the truncation window, of the totals map and the
`.simplified()` flag are the ones read from the source (Gen/Regroup.lean): the
theorems below are proved against those, and the function bodies the model
mirrors, the option wiring and chain_post_handlers are pinned.
-/
import LedgerModel.Lemmas.RegroupSort
import LedgerModel.Lemmas.RegroupRuns
import LedgerModel.Lemmas.RegroupSums
import LedgerModel.Lemmas.RegroupGroups
import LedgerModel.Lemmas.RegroupSortX
import LedgerModel.Model.RegroupPinned

namespace Ledger
open Regroup

/-! ### tie to the source text -/

/-- the handler bodies found in the working tree are the ones the model mirrors -/
theorem C17.bodies_pinned : Gen.Regroup.bodies = Pinned.Regroup.bodies := rfl

/-- chain.cc stacks the handlers in the order the model's `report` assumes -/
theorem C17.chain_pinned : Gen.Regroup.chainOrder = Pinned.Regroup.chainOrder := rfl

/-- sort_posts sorts with std::stable_sort (a stable algorithm) -/
theorem C17.sort_is_stable_sort : Gen.Regroup.sortCall = "std::stable_sort" := rfl

/-- the regrouping maps are ordered maps keyed as the model keys them -/
theorem C17.containers_pinned :
    (Gen.Regroup.valuesMapType, Gen.Regroup.totalsMapType, Gen.Regroup.payeeMapType,
     Gen.Regroup.subtotalKey, Gen.Regroup.dowIndex) =
    (Pinned.Regroup.valuesMapType, Pinned.Regroup.totalsMapType, Pinned.Regroup.payeeMapType,
     Pinned.Regroup.subtotalKey, Pinned.Regroup.dowIndex) := rfl

/-- collapse's totals map compares account names with `<` (ascending name order) -/
theorem C17.totals_order : Gen.Regroup.totalsOrder = .lt := rfl

/-- the truncation window and early stop compare as the model was proved for -/
theorem C17.window_ops :
    (Gen.Regroup.truncHeadPos, Gen.Regroup.truncHeadNeg, Gen.Regroup.truncTailPos,
     Gen.Regroup.truncTailNeg, Gen.Regroup.truncEarlyStop, Gen.Regroup.sortKeySimplified) =
    (.lt, .ge, .le, .gt, .ge, true) := rfl

/-! ### --sort -/

/-- `--sort` outputs exactly the postings it was given. -/
theorem C17.sort_perm (ks : List SortKey) (l : List RPost) : (sortPosts ks l).Perm l :=
  sortBy_perm _ l

/-- Ordered by the key: no posting is followed by one that sorts strictly before it. -/
theorem C17.sort_sorted (ks : List SortKey) (l : List RPost) (h : SWOOn (postLess ks) l) :
    (sortPosts ks l).Pairwise (fun a b => postLess ks b a = false) :=
  sortBy_pairwise h

/-- Stable: if `a` stands before `b` in the input and `b` does not sort strictly
    before `a` (in particular when they tie), `a` stands before `b` in the output. -/
theorem C17.sort_stable (ks : List SortKey) (l : List RPost) (h : SWOOn (postLess ks) l)
    {a b : RPost} (hba : postLess ks b a = false) (hs : [a, b].Sublist l) :
    [a, b].Sublist (sortPosts ks l) :=
  sortBy_stable h hba hs

/-- The stable arrangement is unique: any rearrangement `m` of the
    position-tagged input in which each element may precede all later ones
    (not strictly greater; on a tie, earlier in the input) is the model's output. -/
theorem C17.sort_unique (ks : List SortKey) (l : List RPost) (h : SWOOn (postLess ks) l)
    (m : List (RPost × Nat)) (hp : m.Perm l.zipIdx) (hm : m.Pairwise (MayPrecede (postLess ks))) :
    m.map (·.1) = sortPosts ks l :=
  sortBy_unique h m hp hm

/-- compare_items is a strict weak order on `l` for every key list over date,
    payee, account and amount (each possibly inverted), provided the amount key
    – if used – meets amounts of one commodity (zeros of any commodity allowed)
    or only non-zero amounts that all carry a commodity (decidable guard
    `amountKeyGuard`). -/
theorem C17.sortValueLess_swo (ks : List SortKey) (l : List RPost) (h : amountKeyGuard ks l = true) :
    SWOOn (postLess ks) l :=
  postLess_swo_of_guard ks l h

/-- Keys that never involve the amount are always a strict weak order. -/
theorem C17.sortValueLess_swo_no_amount (ks : List SortKey) (l : List RPost)
    (h : ∀ k ∈ ks, k.field ≠ .amount) : SWOOn (postLess ks) l :=
  postLess_swo_of_guard ks l (by
    simp only [amountKeyGuard, Bool.or_eq_true]
    exact Or.inl (Or.inl (List.all_eq_true.mpr (fun k hk => by simpa using h k hk))))

/-- The mixed-commodity amount key: among non-zero amounts that all carry a
    commodity, `<` is the lexicographic order on (commodity symbol, quantity)
    – value.cc falls back to commodity order, and `>` is boost's `b < a`. -/
theorem C17.mixed_amount_key (l : List RPost) (h : AllCommoditised l) (a b : RPost) (ha : a ∈ l) (hb : b ∈ l) :
    fieldLt .amount a b = decide (lexLt (amtC a, amtQ a) (amtC b, amtQ b)) :=
  fieldLt_amount_mixed h a ha b hb

/-- The full statement one would like: the key comparison is a strict weak
    order on every posting list. -/
def C17.SortKeySWOEverywhere : Prop := ∀ (ks : List SortKey) (l : List RPost), SWOOn (postLess ks) l

def C17.w (line : Nat) (q : Rat) (comm : String) : RPost :=
  { line := line, xid := 1, date := 18262, payee := "p", account := "A", virt := false,
    amount := .amt { q := q, prec := 2, keep := false, comm := comm },
    value := .amt { q := q, prec := 2, keep := false, comm := comm }, vdate := 18262 }

/-- It is false: −10 EUR < $0 (numerically, the zero being INTEGER 0 after
    `.simplified()`), $0 < $5, yet $5 < −10 EUR (by commodity symbol). -/
theorem C17.sort_key_swo_everywhere_false : ¬ C17.SortKeySWOEverywhere := by
  intro h
  have hs := h [⟨.amount, false⟩] [C17.w 2 (-10) "EUR", C17.w 3 0 "$", C17.w 4 5 "$"]
  have h1 : postLess [⟨.amount, false⟩] (C17.w 2 (-10) "EUR") (C17.w 3 0 "$") = true := by decide +kernel
  have h2 : postLess [⟨.amount, false⟩] (C17.w 3 0 "$") (C17.w 4 5 "$") = true := by decide +kernel
  have h3 : postLess [⟨.amount, false⟩] (C17.w 2 (-10) "EUR") (C17.w 4 5 "$") = false := by decide +kernel
  have := hs.trans _ _ _ (by simp) (by simp) (by simp) h1 h2
  rw [h3] at this
  cases this

/-- The property at full strength for `--sort`: for every key list and every
    posting list the output is ordered by the key. -/
def C17.SortOrderedEverywhere : Prop :=
  ∀ (ks : List SortKey) (l : List RPost), (sortPosts ks l).Pairwise (fun a b => postLess ks b a = false)

/-- It fails on the same witness: whatever arrangement of −10 EUR, $0, $5 a sort
    by amount produces, some posting is followed by one that compares strictly
    less (the three form a cycle).  `C17.sort_sorted` is the partial theorem,
    its guard being `amountKeyGuard` through `C17.sortValueLess_swo`. -/
theorem C17.sort_ordered_everywhere_false : ¬ C17.SortOrderedEverywhere := by
  intro h
  have hs := h [⟨.amount, false⟩] [C17.w 2 (-10) "EUR", C17.w 3 0 "$", C17.w 4 5 "$"]
  have hp := C17.sort_perm [⟨.amount, false⟩] [C17.w 2 (-10) "EUR", C17.w 3 0 "$", C17.w 4 5 "$"]
  have h1 : postLess [⟨.amount, false⟩] (C17.w 2 (-10) "EUR") (C17.w 3 0 "$") = true := by decide +kernel
  have h2 : postLess [⟨.amount, false⟩] (C17.w 3 0 "$") (C17.w 4 5 "$") = true := by decide +kernel
  have h3 : postLess [⟨.amount, false⟩] (C17.w 4 5 "$") (C17.w 2 (-10) "EUR") = true := by decide +kernel
  have hab : C17.w 2 (-10) "EUR" ≠ C17.w 3 0 "$" := by decide +kernel
  have hbc : C17.w 3 0 "$" ≠ C17.w 4 5 "$" := by decide +kernel
  have hac : C17.w 2 (-10) "EUR" ≠ C17.w 4 5 "$" := by decide +kernel
  generalize sortPosts [⟨.amount, false⟩] [C17.w 2 (-10) "EUR", C17.w 3 0 "$", C17.w 4 5 "$"] = out at hs hp
  cases out with
  | nil => have := hp.length_eq; simp at this
  | cons x tl =>
    have hx : ∀ y ∈ tl, postLess [⟨.amount, false⟩] y x = false := (List.pairwise_cons.mp hs).1
    have hmem : ∀ y, y ∈ [C17.w 2 (-10) "EUR", C17.w 3 0 "$", C17.w 4 5 "$"] → y = x ∨ y ∈ tl := by
      intro y hy; exact List.mem_cons.mp (hp.symm.subset hy)
    have hxm : x ∈ [C17.w 2 (-10) "EUR", C17.w 3 0 "$", C17.w 4 5 "$"] := hp.subset (by simp)
    simp only [List.mem_cons, List.not_mem_nil, or_false] at hxm
    rcases hxm with rfl | rfl | rfl
    · rcases hmem (C17.w 4 5 "$") (by simp) with e | e
      · exact hac e.symm
      · have := hx _ e; rw [h3] at this; cases this
    · rcases hmem (C17.w 2 (-10) "EUR") (by simp) with e | e
      · exact hab e
      · have := hx _ e; rw [h1] at this; cases this
    · rcases hmem (C17.w 3 0 "$") (by simp) with e | e
      · exact hbc e
      · have := hx _ e; rw [h2] at this; cases this

/-! ### --sort-xacts -/

/-- `--sort-xacts`: the postings are permuted inside their transactions only – the
    transactions (runs of one `xact`) of the output are those of the input, in the
    same order, each sorted by `sort_posts` (so `sort_perm`, `sort_sorted`,
    `sort_stable`, `sort_unique` apply to every transaction by itself). -/
theorem C17.sort_xacts (ks : List SortKey) (l : List RPost) :
    (sortXacts ks l).Perm l ∧
    sortXacts ks l = ((runs pxid l).map (sortPosts ks)).flatten ∧
    runs pxid (sortXacts ks l) = (runs pxid l).map (sortPosts ks) :=
  ⟨sortXacts_perm ks l, by simp [sortXacts, List.flatMap_def, pxid], sortXacts_runs ks l⟩

/-- every transaction of the `--sort-xacts` output is ordered by the key and stable,
    when the comparison is a strict weak order on that transaction -/
theorem C17.sort_xacts_sorted (ks : List SortKey) (l : List RPost)
    (h : ∀ g ∈ runs pxid l, SWOOn (postLess ks) g) :
    ∀ g' ∈ runs pxid (sortXacts ks l), g'.Pairwise (fun a b => postLess ks b a = false) := by
  intro g' hg'
  rw [sortXacts_runs] at hg'
  obtain ⟨g, hg, rfl⟩ := List.mem_map.mp hg'
  exact C17.sort_sorted ks g (h g hg)

/-! ### --head / --tail -/

/-- `runs` is the decomposition into transactions the handlers see: it
    concatenates back to the input, every block is non-empty and of one
    transaction, neighbouring blocks are of different transactions. -/
theorem C17.runs_spec {α : Type} (xid : α → Nat) (l : List α) :
    (runs xid l).flatten = l ∧ GoodRuns xid none (runs xid l) :=
  ⟨runs_flatten xid l, runs_good xid l⟩

/-- In the plain register (any limit predicate) the runs are exactly the
    journal's transactions that have a posting left, in journal order. -/
theorem C17.plain_runs (f : Filter) (j : Journal) (hd : j.xacts.Pairwise (fun a b => a.line ≠ b.line)) :
    runs pxid (plainPosts f j) = (j.xacts.map (xactPosts f)).filter (fun g => !g.isEmpty) :=
  plain_runs_aux f j.xacts hd

/-- For EVERY pair of counts (positive, zero, negative) the truncate_xacts handler
    keeps exactly the transactions whose index `i` (of `len`) passes the window -/
theorem C17.truncate_window {α : Type} (xid : α → Nat) (head tail : Int) (rows : List α) :
    truncate xid head tail rows =
      selRuns (fun i => truncPrint head tail ((runs xid rows).length : Nat) (i : Int)) 0 (runs xid rows) :=
  Regroup.truncate_window xid head tail rows

/-- … and the window is: the first `head`, or all but the first `-head`, or the last
    `tail`, or all but the last `-tail` (their union when both are given). -/
theorem C17.window_spec (head tail len i : Int) :
    truncPrint head tail len i = true ↔
      (head > 0 ∧ i < head) ∨ (head < 0 ∧ i ≥ -head) ∨ (tail > 0 ∧ len - i ≤ tail) ∨ (tail < 0 ∧ len - i > -tail) :=
  truncPrint_iff head tail len i

/-- `--head N` keeps exactly the first N transactions, for every N ≥ 0
    (N = 0: nothing; N beyond the count: everything). -/
theorem C17.truncate_head {α : Type} (xid : α → Nat) (N : Nat) (rows : List α) :
    truncate xid (N : Int) 0 rows = ((runs xid rows).take N).flatten :=
  truncate_head_eq xid N rows

/-- `--tail N` keeps exactly the last N transactions, for every N ≥ 0. -/
theorem C17.truncate_tail {α : Type} (xid : α → Nat) (N : Nat) (rows : List α) :
    truncate xid 0 (N : Int) rows = ((runs xid rows).drop ((runs xid rows).length - N)).flatten :=
  truncate_tail_eq xid N rows

/-- `--head N --tail M` keeps the first N transactions and the last M (a union, as
    flush computes it: nothing twice, everything when N + M ≥ count). -/
theorem C17.truncate_head_tail {α : Type} (xid : α → Nat) (N M : Nat) (rows : List α) :
    truncate xid (N : Int) (M : Int) rows =
      ((runs xid rows).take N ++ (runs xid rows).drop (max N ((runs xid rows).length - M))).flatten :=
  truncate_head_tail_eq xid N M rows

/-- `--head -K`: all but the first K transactions; `--tail -K`: all but the last K. -/
theorem C17.truncate_negative {α : Type} (xid : α → Nat) (K : Nat) (hK : 0 < K) (rows : List α) :
    truncate xid (-(K : Int)) 0 rows = ((runs xid rows).drop K).flatten ∧
    truncate xid 0 (-(K : Int)) rows = ((runs xid rows).take ((runs xid rows).length - K)).flatten :=
  ⟨truncate_neg_head_eq xid K hK rows, truncate_neg_tail_eq xid K hK rows⟩

/-- In the report the truncated rows are rows of the register computed before
    (running totals included: the handler sits behind calc_posts). -/
theorem C17.head_tail_report (o : Opts) (posts s : List RPost) (h : regroup o posts = .ok s)
    (ho : o.head.isSome ∨ o.tail.isSome) :
    report o posts = .ok (selRuns
      (fun i => truncPrint (o.head.getD 0) (o.tail.getD 0)
        ((runs (fun r : RPost × Value => r.1.xid) (register (sortStage o s))).length : Nat) (i : Int)) 0
      (runs (fun r : RPost × Value => r.1.xid) (register (sortStage o s)))) := by
  simp only [report, h, Except.map, truncStage, ho, if_true]
  rw [Regroup.truncate_window]

/-! ### regrouping -/

/-- the amounts of a journal's postings are single quantities, and valued as themselves -/
theorem C17.plain_good (f : Filter) (j : Journal) :
    AllQty (plainPosts f j) ∧ GoodAmts (plainPosts f j) ∧ ∀ p ∈ plainPosts f j, rawAmt p = p.value := by
  have key : ∀ p ∈ plainPosts f j, ∃ a, p.amount = .amt a ∧ p.value = .amt a := by
    intro p hp
    simp only [plainPosts, List.mem_flatMap] at hp
    obtain ⟨x, _, hx⟩ := hp
    simp only [xactPosts, List.mem_filterMap] at hx
    obtain ⟨q, _, hq⟩ := hx
    split at hq
    · split at hq
      · cases hq; exact ⟨_, rfl, rfl⟩
      · cases hq
    · cases hq
  refine ⟨fun p hp => ?_, fun p hp => ?_, fun p hp => ?_⟩
  · obtain ⟨a, _, h2⟩ := key p hp; simp [h2, isQty]
  · obtain ⟨a, h1, _⟩ := key p hp; exact ⟨.amt a, subAmt_amt h1, rfl⟩
  · obtain ⟨a, h1, h2⟩ := key p hp; simp [rawAmt, subAmt_amt h1, h2]

/-- calc_posts: the running total on row `k` is the per-commodity sum of the
    values of rows `0..k`; on the last row it is the grand total. -/
theorem C17.running_total (rows : List RPost) (hq : AllQty rows) (c : Comm) (k : Nat) (r : RPost × Value)
    (hr : (register rows)[k]? = some r) : r.2.den c = sumDen (rows.take (k + 1)) c := by
  have := runTotals_den .void rfl rows hq c k r hr
  have hv : Value.void.den c = 0 := rfl
  rw [this, hv]; grind

/-- `--subtotal`: one row per account, each the exact sum of that account's
    `post.amount`s (`rawAmt`), whatever the valuation. -/
theorem C17.subtotal_sums (posts rows : List RPost) (hq : GoodAmts posts) (h : subtotal posts = .ok rows) :
    GroupSums rawAmt (fun r => r.value) (fun p => p.account) (fun r => r.account) posts rows :=
  (subtotal_groups posts rows hq h).1

/-- `--by-payee`: one row per (payee, account). -/
theorem C17.by_payee_sums (posts rows : List RPost) (hq : GoodAmts posts) (h : byPayee posts = .ok rows) :
    GroupSums rawAmt (fun r => r.value) (fun p => (p.payee, p.account)) (fun r => (r.payee, r.account)) posts rows :=
  byPayee_groups posts rows hq h

/-- `--dow`: one row per (day of the week, account). -/
theorem C17.dow_sums (posts rows : List RPost) (hq : GoodAmts posts) (h : dow posts = .ok rows) :
    GroupSums rawAmt (fun r => r.value) (fun p => (Cal.weekday p.date, p.account)) (fun r => (Cal.weekday r.date, r.account))
      posts rows :=
  dow_groups posts rows hq h

/-- `--collapse`: transaction by transaction; a transaction with a single
    posting is passed through, any other becomes one `<Total>` row holding the
    exact sum of the values (amount expression) of its postings; the grand total is preserved. -/
theorem C17.collapse_sums (posts : List RPost) (hq : AllQty posts) :
    collapse 0 true id posts = ((runs pxid posts).map (collapseGroup 0 true id)).flatten ∧
    (∀ g ∈ runs pxid posts,
      (collapseGroup 0 true id g = g ∧ g.length = 1) ∨
      (GroupSums (fun p => p.value) (fun r => r.value) (fun _ => "<Total>") (fun r => r.account) g (collapseGroup 0 true id g))) ∧
    (∀ c, sumDen (collapse 0 true id posts) c = sumDen posts c) := by
  refine ⟨collapse_eq_runs 0 true id posts, ?_, fun c => (collapse_total 0 true id (fun _ => List.Perm.refl _) posts hq c).1⟩
  intro g hg
  have hq' : AllQty g := fun p hp => hq p (runs_mem_subset posts g hg p hp)
  rcases collapseGroup_groups 0 true id (fun _ => List.Perm.refl _) g hq' (runs_mem_nonempty posts g hg) with
    ⟨_, _, h1, h2⟩ | ⟨h, _⟩
  · exact Or.inl ⟨h2, h1⟩
  · exact Or.inr h

/-- `--depth N` (N ≥ 1): every transaction becomes one row per ancestor account
    at depth ≤ N, each the exact sum of the values of the postings below it,
    whatever order `σ` the totals map is enumerated in; the grand total is preserved. -/
theorem C17.depth_sums (n : Nat) (hn : n ≠ 0) (σ : AMap Value → AMap Value) (hσ : ∀ m, (σ m).Perm m)
    (posts : List RPost) (hq : AllQty posts) :
    collapse n false σ posts = ((runs pxid posts).map (collapseGroup n false σ)).flatten ∧
    (∀ g ∈ runs pxid posts,
      GroupSums (fun p => p.value) (fun r => r.value) (fun p => depthAccount n p.account) (fun r => r.account) g
        (collapseGroup n false σ g)) ∧
    (∀ c, sumDen (collapse n false σ posts) c = sumDen posts c) := by
  refine ⟨collapse_eq_runs n false σ posts, ?_, fun c => (collapse_total n false σ hσ posts hq c).1⟩
  intro g hg
  have hq' : AllQty g := fun p hp => hq p (runs_mem_subset posts g hg p hp)
  have hk : totalsKey n = fun p => depthAccount n p.account := by
    funext p; simp [totalsKey, hn]
  rcases collapseGroup_groups n false σ hσ g hq' (runs_mem_nonempty posts g hg) with ⟨_, h, _⟩ | ⟨h, _⟩
  · cases h
  · rw [← hk]; exact h

/-- Under `--depth N` the rows of one transaction come in strictly ascending account
    name order – the order of the totals map, whose comparator (read from the
    source, `C17.totals_order`) is `<` on `fullname()`. -/
theorem C17.collapse_depth_rows_sorted (n : Nat) (posts : List RPost) :
    ∀ g ∈ runs pxid posts,
      ((collapseGroup n false id g).map (fun r => r.account)).Pairwise
        (fun a b => Gen.Regroup.totalsOrder = .lt ∧ a < b) := by
  intro g _
  exact (collapseGroup_rows_sorted n g).imp (fun h => ⟨rfl, h⟩)

/-! ### two regrouping options together (chain.cc order: dow | by-payee → subtotal → collapse) -/

/-- subtotal_posts takes the compound value of a posting handed down by another
    subtotalling handler (the source as extracted; before fix 08839e9 it did not). -/
theorem C17.subtotal_reads_compound : Gen.Regroup.subtotalReadsCompound = true := by decide

/-- `--by-payee --subtotal`: the outcome is the `--subtotal` regrouping of the original
    postings – every account's row is the exact sum of its postings, no guard needed. -/
theorem C17.by_payee_then_subtotal (posts r1 r2 : List RPost) (hq : GoodAmts posts) (h1 : byPayee posts = .ok r1)
    (h2 : subtotal r1 = .ok r2) :
    GroupSums rawAmt (fun r => r.value) (fun p => p.account) (fun r => r.account) posts r2 :=
  byPayee_subtotal_groups posts r1 r2 hq h1 (noCompound_of_flag C17.subtotal_reads_compound r1) h2

/-- `--dow --subtotal`: likewise. -/
theorem C17.dow_then_subtotal (posts r1 r2 : List RPost) (hq : GoodAmts posts) (h1 : dow posts = .ok r1)
    (h2 : subtotal r1 = .ok r2) :
    GroupSums rawAmt (fun r => r.value) (fun p => p.account) (fun r => r.account) posts r2 :=
  dow_subtotal_groups posts r1 r2 hq h1 (noCompound_of_flag C17.subtotal_reads_compound r1) h2

/-- two postings of one payee to one account in two commodities -/
def C17.w2 : List RPost :=
  [{ C17.w 2 1 "$" with payee := "p", account := "A" }, { C17.w 3 1 "EUR" with payee := "p", account := "A" }]

def C17.okOr (e : Except RErr (List RPost)) : List RPost :=
  match e with
  | .ok r => r
  | .error _ => []

/-- Why the flag matters (the witness of the defect fixed by 08839e9): `--by-payee` hands
    `A  $1, 1 EUR` over as ONE compound row worth $1; read as `post.amount` only
    (`subAmtWith false`) it is a null amount, i.e. contributes nothing to `--subtotal`. -/
theorem C17.compound_row_lost_without_flag :
    (C17.okOr (byPayee C17.w2)).map (fun r => (r.account, decide (r.value.den "$" = 1), (subAmtWith false r).isNone,
      subAmtWith true r == some r.amount)) = [("A", true, true, true)] := by decide +kernel

/-- … and with it the stacked report of the witness is right: A = $1 + 1 EUR. -/
theorem C17.compound_row_kept_with_flag :
    (C17.okOr (subtotal (C17.okOr (byPayee C17.w2)))).map
      (fun r => (r.account, decide (r.value.den "$" = 1), decide (r.value.den "EUR" = 1))) = [("A", true, true)] := by
  decide +kernel

/-- `--subtotal --collapse` / `--subtotal --depth N`: the subtotal rows form one transaction, so
    the outcome is the original postings regrouped by ancestor account at depth N (one `<Total>`
    for N = 0), unless `--collapse` passes a lone row through. -/
theorem C17.subtotal_then_collapse (depth : Nat) (pass : Bool) (posts r1 : List RPost) (hq : GoodAmts posts)
    (h1 : subtotal posts = .ok r1) :
    (depth = 0 ∧ pass = true ∧ r1.length = 1 ∧ collapse depth pass id r1 = r1) ∨
    GroupSums rawAmt (fun r => r.value) (fun p => totalsKeyOf depth p.account) (fun r => r.account) posts
      (collapse depth pass id r1) :=
  subtotal_collapse_groups depth pass posts r1 hq h1

/-- `--by-payee --depth N` (N ≥ 1): one row per (payee, ancestor account at depth N) -/
theorem C17.by_payee_then_depth (n : Nat) (hn : n ≠ 0) (posts r1 : List RPost) (hq : GoodAmts posts)
    (h1 : byPayee posts = .ok r1) :
    GroupSums rawAmt (fun r => r.value) (fun p => (p.payee, depthAccount n p.account)) (fun r => (r.payee, r.account))
      posts (collapse n false id r1) :=
  byPayee_depth_groups n hn posts r1 hq h1

/-- `--dow --depth N` (N ≥ 1): one row per (day of the week, ancestor account at depth N) -/
theorem C17.dow_then_depth (n : Nat) (hn : n ≠ 0) (posts r1 : List RPost) (hq : GoodAmts posts)
    (h1 : dow posts = .ok r1) :
    GroupSums rawAmt (fun r => r.value) (fun p => (Cal.weekday p.date, depthAccount n p.account))
      (fun r => (Cal.weekday r.date, r.account)) posts (collapse n false id r1) :=
  dow_depth_groups n hn posts r1 hq h1

/-- The grand total through ANY stack of regrouping stages (--dow | --by-payee, --subtotal,
    --collapse / --depth N): the per-commodity sum of the rows is that of the postings, given that
    the first subtotal-family stage sees amounts valued as themselves (`hfirst`: no valuation
    such as -B, which subtotal_posts ignores – `C17.subtotal_valued_everywhere_false`). -/
theorem C17.regroup_total (o : Opts) (posts rows : List RPost) (h : regroup o posts = .ok rows)
    (hq : AllQty posts)
    (hfirst : (o.pre ≠ .none ∨ o.subtotal = true) → GoodAmts posts ∧ ∀ p ∈ posts, rawAmt p = p.value)
    (c : Comm) : sumDen rows c = sumDen posts c :=
  (Regroup.regroup_total o posts rows h hq hfirst
    (fun _ _ s1 _ => noCompound_of_flag C17.subtotal_reads_compound s1) c).1

/-- … and the running total printed on the last row of the report is that grand total
    (sorting included; truncation only drops rows). -/
theorem C17.grand_total (o : Opts) (posts s : List RPost) (h : regroup o posts = .ok s)
    (hq : AllQty posts)
    (hfirst : (o.pre ≠ .none ∨ o.subtotal = true) → GoodAmts posts ∧ ∀ p ∈ posts, rawAmt p = p.value)
    (c : Comm) (r : RPost × Value) (hl : (register (sortStage o s)).getLast? = some r) :
    r.2.den c = sumDen posts c := by
  obtain ⟨htot, hqs⟩ := Regroup.regroup_total o posts s h hq hfirst
    (fun _ _ s1 _ => noCompound_of_flag C17.subtotal_reads_compound s1) c
  have hperm : (sortStage o s).Perm s := by
    unfold sortStage
    split
    · exact List.Perm.refl _
    · exact sortBy_perm _ _
    · exact sortXacts_perm _ _
  have hq2 : AllQty (sortStage o s) := fun p hp => hqs p (hperm.subset hp)
  have hlen : (register (sortStage o s)).length = (sortStage o s).length := by
    have := congrArg List.length (runTotals_fst .void (sortStage o s))
    simpa [register] using this
  rw [List.getLast?_eq_getElem?] at hl
  have := C17.running_total (sortStage o s) hq2 c _ r hl
  rw [this, hlen, ← htot]
  have e : (sortStage o s).take ((sortStage o s).length - 1 + 1) = sortStage o s := by
    apply List.take_of_length_le; omega
  rw [e]
  exact wsum_perm _ hperm

/-- The valuation: one would like `--subtotal` rows to be the sums of the register's
    values (what the plain register shows as amounts, e.g. costs under -B). -/
def C17.SubtotalValuedEverywhere : Prop :=
  ∀ (posts rows : List RPost), GoodAmts posts → AllQty posts → subtotal posts = .ok rows →
    ∀ c, sumDen rows c = sumDen posts c

/-- a lot of 10 AAA valued at its cost $20 -/
def C17.w3 : List RPost :=
  [{ C17.w 2 10 "AAA" with value := .amt { q := 20, prec := 2, keep := false, comm := "$" } }]

/-- It is false: subtotal_posts adds up `post.amount` (filters.cc 902), not the amount
    expression.  `C17.subtotal_sums` is the theorem that holds (sums of `rawAmt`); they
    coincide when the valuation is the identity (`hfirst` of `C17.regroup_total`). -/
theorem C17.subtotal_valued_everywhere_false : ¬ C17.SubtotalValuedEverywhere := by
  intro h
  have hg : GoodAmts C17.w3 := by
    intro p hp
    simp only [C17.w3, List.mem_cons, List.not_mem_nil, or_false] at hp
    subst hp; exact ⟨_, rfl, rfl⟩
  have hq : AllQty C17.w3 := by
    intro p hp
    simp only [C17.w3, List.mem_cons, List.not_mem_nil, or_false] at hp
    subst hp; rfl
  have h1 : subtotal C17.w3 = .ok (C17.okOr (subtotal C17.w3)) := by decide +kernel
  have := h _ _ hg hq h1 "$"
  have hne : ¬ (sumDen (C17.okOr (subtotal C17.w3)) "$" = sumDen C17.w3 "$") := by decide +kernel
  exact hne this

/-! ### non-vacuity -/

example : amountKeyGuard [⟨.date, false⟩, ⟨.amount, true⟩] sample = true := by decide +kernel
example : SWOOn (postLess [⟨.date, false⟩, ⟨.amount, true⟩]) sample :=
  C17.sortValueLess_swo _ _ (by decide +kernel)
example : (sortPosts [⟨.date, false⟩, ⟨.amount, true⟩] sample).Pairwise
    (fun a b => postLess [⟨.date, false⟩, ⟨.amount, true⟩] b a = false) :=
  C17.sort_sorted _ _ (C17.sortValueLess_swo _ _ (by decide +kernel))
example : AllCommoditised sample := allCommoditised_of_guard (by decide +kernel)
example : (runs pxid sample).map List.length = [2, 4, 2] := by decide +kernel
example : (truncate pxid 2 0 sample).map (·.line) = [2, 3, 6, 7, 8, 9] := by decide +kernel
example : (truncate pxid 0 1 sample).map (·.line) = [12, 13] := by decide +kernel
example : (truncate pxid 1 1 sample).map (·.line) = [2, 3, 12, 13] := by decide +kernel
example : (truncate pxid (-1) 0 sample).map (·.line) = [6, 7, 8, 9, 12, 13] := by decide +kernel
example : (truncate pxid 0 (-2) sample).map (·.line) = [2, 3] := by decide +kernel
example : ((subtotal sample).toOption.map (fun rows => rows.map (·.account))) =
    some ["Assets:Bank:Checking", "Assets:Cash", "Expenses:Food", "Expenses:Rent"] := by decide +kernel
example : ((byPayee sample).toOption.map List.length) = some 6 := by decide +kernel
example : ((dow sample).toOption.map List.length) = some 6 := by decide +kernel
example : (collapse 0 true id sample).map (·.account) = ["<Total>", "<Total>", "<Total>"] := by decide +kernel
example : ∀ c, sumDen (collapse 1 false id sample) c = sumDen sample c :=
  (C17.depth_sums 1 (by decide) id (fun _ => List.Perm.refl _) sample sample_allQty).2.2
example : ((subtotal (C17.okOr (byPayee sample))).toOption.map List.length) = some 4 := by decide +kernel

end Ledger
