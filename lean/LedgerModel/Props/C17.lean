/-
C17 — sorting and regrouping options only reorder or merge postings.

Model: Model/Regroup.lean (sort_posts / compare_items / sort_value_is_less_than,
truncate_xacts, collapse_posts, subtotal_posts, by_payee_posts,
day_of_week_posts, calc_posts).  All theorems are for every posting list.

* `--sort`: the output is a permutation of the input (`sort_perm`); when the key
  comparison is a strict weak order on the postings it is ordered by the key
  (`sort_sorted`), ties keep the input order (`sort_stable`), and it is the only
  arrangement with these two properties (`sort_unique`), so the particular
  stable algorithm (merge sort here, libstdc++'s std::stable_sort there) does not
  matter.  The hypothesis is proved for date / payee / account keys, amounts of
  one commodity, amounts that all carry a commodity, and every compound key of
  these (`sortValueLess_swo`).  It is FALSE in general: `.simplified()` turns a
  zero amount into INTEGER 0, which compares numerically with every commodity,
  while two different commodities compare by symbol
  (`sort_key_swo_everywhere_false`, witness −10 EUR, $0, $5).
* `--head N` / `--tail N`: the handler (per-posting state machine with its early
  stop, and the two loops of flush) equals `take N` / `drop (len − N)` on the list
  of transaction groups, for every N ≥ 0 (`truncate_head`, `truncate_tail`).
* `--subtotal`, `--by-payee`, `--dow`, `--collapse`, `--depth N`: `GroupSums` –
  one row per group, every group present, each row's value and the grand total
  equal to the per-commodity sums (denotation `den`) of the member postings.

The comparison operators of the truncation window and the `.simplified()` flag
are the ones read from the source (Gen/Regroup.lean): the theorems below are
proved against those, and the function bodies the model mirrors are pinned.
-/
import LedgerModel.Lemmas.RegroupSort
import LedgerModel.Lemmas.RegroupRuns
import LedgerModel.Lemmas.RegroupSums
import LedgerModel.Lemmas.RegroupGroups
import LedgerModel.Model.RegroupPinned

namespace Ledger
open Regroup

/-! ### tie to the source text -/

/-- the handler bodies found in the working tree are the ones the model mirrors -/
theorem C17.bodies_pinned : Gen.Regroup.bodies = Pinned.Regroup.bodies := rfl

/-- chain.cc stacks the handlers in the order the model's `report` assumes -/
theorem C17.chain_pinned : Gen.Regroup.chainOrder = Pinned.Regroup.chainOrder := rfl

/-- sort_posts sorts with std::stable_sort (a stable algorithm) -/
theorem C17.sort_is_stable_sort : Gen.Regroup.sortCall = "std::stable_sort" := rfl

/-- the regrouping maps are ordered maps keyed as the model keys them -/
theorem C17.containers_pinned :
    (Gen.Regroup.valuesMapType, Gen.Regroup.totalsMapType, Gen.Regroup.payeeMapType,
     Gen.Regroup.subtotalKey, Gen.Regroup.subtotalAmount, Gen.Regroup.dowIndex) =
    (Pinned.Regroup.valuesMapType, Pinned.Regroup.totalsMapType, Pinned.Regroup.payeeMapType,
     Pinned.Regroup.subtotalKey, Pinned.Regroup.subtotalAmount, Pinned.Regroup.dowIndex) := rfl

/-- the truncation window and early stop compare as the model was proved for -/
theorem C17.window_ops :
    (Gen.Regroup.truncHeadPos, Gen.Regroup.truncHeadNeg, Gen.Regroup.truncTailPos,
     Gen.Regroup.truncTailNeg, Gen.Regroup.truncEarlyStop, Gen.Regroup.sortKeySimplified) =
    (.lt, .ge, .le, .gt, .ge, true) := rfl

/-! ### --sort -/

/-- `--sort` outputs exactly the postings it was given. -/
theorem C17.sort_perm (ks : List SortKey) (l : List RPost) : (sortPosts ks l).Perm l :=
  sortBy_perm _ l

/-- Ordered by the key: no posting is followed by one that sorts strictly before it. -/
theorem C17.sort_sorted (ks : List SortKey) (l : List RPost) (h : SWOOn (postLess ks) l) :
    (sortPosts ks l).Pairwise (fun a b => postLess ks b a = false) :=
  sortBy_pairwise h

/-- Stable: if `a` stands before `b` in the input and `b` does not sort strictly
    before `a` (in particular when they tie), `a` stands before `b` in the output. -/
theorem C17.sort_stable (ks : List SortKey) (l : List RPost) (h : SWOOn (postLess ks) l)
    {a b : RPost} (hba : postLess ks b a = false) (hs : [a, b].Sublist l) :
    [a, b].Sublist (sortPosts ks l) :=
  sortBy_stable h hba hs

/-- The stable arrangement is unique: any rearrangement `m` of the
    position-tagged input in which each element may precede all later ones
    (not strictly greater; on a tie, earlier in the input) is the model's output. -/
theorem C17.sort_unique (ks : List SortKey) (l : List RPost) (h : SWOOn (postLess ks) l)
    (m : List (RPost × Nat)) (hp : m.Perm l.zipIdx) (hm : m.Pairwise (MayPrecede (postLess ks))) :
    m.map (·.1) = sortPosts ks l :=
  sortBy_unique h m hp hm

/-- compare_items is a strict weak order on `l` for every key list over date,
    payee, account and amount (each possibly inverted), provided the amount key
    – if used – meets amounts of one commodity (zeros of any commodity allowed)
    or only non-zero amounts that all carry a commodity (decidable guard
    `amountKeyGuard`). -/
theorem C17.sortValueLess_swo (ks : List SortKey) (l : List RPost) (h : amountKeyGuard ks l = true) :
    SWOOn (postLess ks) l :=
  postLess_swo_of_guard ks l h

/-- Keys that never involve the amount are always a strict weak order. -/
theorem C17.sortValueLess_swo_no_amount (ks : List SortKey) (l : List RPost)
    (h : ∀ k ∈ ks, k.field ≠ .amount) : SWOOn (postLess ks) l :=
  postLess_swo_of_guard ks l (by
    simp only [amountKeyGuard, Bool.or_eq_true]
    exact Or.inl (Or.inl (List.all_eq_true.mpr (fun k hk => by simpa using h k hk))))

/-- The mixed-commodity amount key: among non-zero amounts that all carry a
    commodity, `<` is the lexicographic order on (commodity symbol, quantity)
    – value.cc falls back to commodity order, and `>` is boost's `b < a`. -/
theorem C17.mixed_amount_key (l : List RPost) (h : AllCommoditised l) (a b : RPost) (ha : a ∈ l) (hb : b ∈ l) :
    fieldLt .amount a b = decide (lexLt (amtC a, amtQ a) (amtC b, amtQ b)) :=
  fieldLt_amount_mixed h a ha b hb

/-- The full statement one would like: the key comparison is a strict weak
    order on every posting list. -/
def C17.SortKeySWOEverywhere : Prop := ∀ (ks : List SortKey) (l : List RPost), SWOOn (postLess ks) l

def C17.w (line : Nat) (q : Rat) (comm : String) : RPost :=
  { line := line, xid := 1, date := 18262, payee := "p", account := "A", virt := false,
    amount := .amt { q := q, prec := 2, keep := false, comm := comm } }

/-- It is false: −10 EUR < $0 (numerically, the zero being INTEGER 0 after
    `.simplified()`), $0 < $5, yet $5 < −10 EUR (by commodity symbol). -/
theorem C17.sort_key_swo_everywhere_false : ¬ C17.SortKeySWOEverywhere := by
  intro h
  have hs := h [⟨.amount, false⟩] [C17.w 2 (-10) "EUR", C17.w 3 0 "$", C17.w 4 5 "$"]
  have h1 : postLess [⟨.amount, false⟩] (C17.w 2 (-10) "EUR") (C17.w 3 0 "$") = true := by decide +kernel
  have h2 : postLess [⟨.amount, false⟩] (C17.w 3 0 "$") (C17.w 4 5 "$") = true := by decide +kernel
  have h3 : postLess [⟨.amount, false⟩] (C17.w 2 (-10) "EUR") (C17.w 4 5 "$") = false := by decide +kernel
  have := hs.trans _ _ _ (by simp) (by simp) (by simp) h1 h2
  rw [h3] at this
  cases this

/-- The property at full strength for `--sort`: for every key list and every
    posting list the output is ordered by the key. -/
def C17.SortOrderedEverywhere : Prop :=
  ∀ (ks : List SortKey) (l : List RPost), (sortPosts ks l).Pairwise (fun a b => postLess ks b a = false)

/-- It fails on the same witness: whatever arrangement of −10 EUR, $0, $5 a sort
    by amount produces, some posting is followed by one that compares strictly
    less (the three form a cycle).  `C17.sort_sorted` is the partial theorem,
    its guard being `amountKeyGuard` through `C17.sortValueLess_swo`. -/
theorem C17.sort_ordered_everywhere_false : ¬ C17.SortOrderedEverywhere := by
  intro h
  have hs := h [⟨.amount, false⟩] [C17.w 2 (-10) "EUR", C17.w 3 0 "$", C17.w 4 5 "$"]
  have hp := C17.sort_perm [⟨.amount, false⟩] [C17.w 2 (-10) "EUR", C17.w 3 0 "$", C17.w 4 5 "$"]
  have h1 : postLess [⟨.amount, false⟩] (C17.w 2 (-10) "EUR") (C17.w 3 0 "$") = true := by decide +kernel
  have h2 : postLess [⟨.amount, false⟩] (C17.w 3 0 "$") (C17.w 4 5 "$") = true := by decide +kernel
  have h3 : postLess [⟨.amount, false⟩] (C17.w 4 5 "$") (C17.w 2 (-10) "EUR") = true := by decide +kernel
  have hab : C17.w 2 (-10) "EUR" ≠ C17.w 3 0 "$" := by decide +kernel
  have hbc : C17.w 3 0 "$" ≠ C17.w 4 5 "$" := by decide +kernel
  have hac : C17.w 2 (-10) "EUR" ≠ C17.w 4 5 "$" := by decide +kernel
  generalize sortPosts [⟨.amount, false⟩] [C17.w 2 (-10) "EUR", C17.w 3 0 "$", C17.w 4 5 "$"] = out at hs hp
  cases out with
  | nil => have := hp.length_eq; simp at this
  | cons x tl =>
    have hx : ∀ y ∈ tl, postLess [⟨.amount, false⟩] y x = false := (List.pairwise_cons.mp hs).1
    have hmem : ∀ y, y ∈ [C17.w 2 (-10) "EUR", C17.w 3 0 "$", C17.w 4 5 "$"] → y = x ∨ y ∈ tl := by
      intro y hy; exact List.mem_cons.mp (hp.symm.subset hy)
    have hxm : x ∈ [C17.w 2 (-10) "EUR", C17.w 3 0 "$", C17.w 4 5 "$"] := hp.subset (by simp)
    simp only [List.mem_cons, List.not_mem_nil, or_false] at hxm
    rcases hxm with rfl | rfl | rfl
    · rcases hmem (C17.w 4 5 "$") (by simp) with e | e
      · exact hac e.symm
      · have := hx _ e; rw [h3] at this; cases this
    · rcases hmem (C17.w 2 (-10) "EUR") (by simp) with e | e
      · exact hab e
      · have := hx _ e; rw [h1] at this; cases this
    · rcases hmem (C17.w 3 0 "$") (by simp) with e | e
      · exact hbc e
      · have := hx _ e; rw [h2] at this; cases this

/-! ### --head / --tail -/

/-- `runs` is the decomposition into transactions the handlers see: it
    concatenates back to the input, every block is non-empty and of one
    transaction, neighbouring blocks are of different transactions. -/
theorem C17.runs_spec {α : Type} (xid : α → Nat) (l : List α) :
    (runs xid l).flatten = l ∧ GoodRuns xid none (runs xid l) :=
  ⟨runs_flatten xid l, runs_good xid l⟩

/-- In the plain register (any limit predicate) the runs are exactly the
    journal's transactions that have a posting left, in journal order. -/
theorem C17.plain_runs (f : Filter) (j : Journal) (hd : j.xacts.Pairwise (fun a b => a.line ≠ b.line)) :
    runs pxid (plainPosts f j) = (j.xacts.map (xactPosts f)).filter (fun g => !g.isEmpty) :=
  plain_runs_aux f j.xacts hd

/-- `--head N` keeps exactly the first N transactions, for every N ≥ 0
    (N = 0: nothing; N beyond the count: everything). -/
theorem C17.truncate_head {α : Type} (xid : α → Nat) (N : Nat) (rows : List α) :
    truncate xid (N : Int) 0 rows = ((runs xid rows).take N).flatten :=
  truncate_head_eq xid N rows

/-- `--tail N` keeps exactly the last N transactions, for every N ≥ 0. -/
theorem C17.truncate_tail {α : Type} (xid : α → Nat) (N : Nat) (rows : List α) :
    truncate xid 0 (N : Int) rows = ((runs xid rows).drop ((runs xid rows).length - N)).flatten :=
  truncate_tail_eq xid N rows

/-- In the report the truncated rows are rows of the plain register, running
    totals included (the handler sits behind calc_posts). -/
theorem C17.head_tail_report (N : Nat) (posts : List RPost) :
    report (.head N) posts = .ok (((runs (fun r => r.1.xid) (register posts)).take N).flatten) ∧
    report (.tail N) posts = .ok (((runs (fun r => r.1.xid) (register posts)).drop
      ((runs (fun r => r.1.xid) (register posts)).length - N)).flatten) := by
  constructor
  · simp only [report]; rw [truncate_head_eq]
  · simp only [report]; rw [truncate_tail_eq]

/-! ### regrouping -/

/-- the amounts of a journal's postings are quantities -/
theorem C17.plain_allQty (f : Filter) (j : Journal) : AllQty (plainPosts f j) := by
  intro p hp
  simp only [plainPosts, List.mem_flatMap] at hp
  obtain ⟨x, _, hx⟩ := hp
  simp only [xactPosts, List.mem_filterMap] at hx
  obtain ⟨q, _, hq⟩ := hx
  split at hq
  · split at hq
    · cases hq; rfl
    · cases hq
  · cases hq

/-- calc_posts: the running total on row `k` is the per-commodity sum of the
    amounts of rows `0..k`; on the last row it is the grand total. -/
theorem C17.running_total (rows : List RPost) (hq : AllQty rows) (c : Comm) (k : Nat) (r : RPost × Value)
    (hr : (register rows)[k]? = some r) : r.2.den c = sumDen (rows.take (k + 1)) c := by
  have := runTotals_den .void rfl rows hq c k r hr
  have hv : Value.void.den c = 0 := rfl
  rw [this, hv]; grind

/-- `--subtotal`: one row per account, each the exact sum of that account's postings. -/
theorem C17.subtotal_sums (posts rows : List RPost) (hq : AllQty posts) (h : subtotal posts = .ok rows) :
    GroupSums (fun p => p.account) (fun r => r.account) posts rows :=
  subtotal_groups posts rows hq h

/-- `--by-payee`: one row per (payee, account). -/
theorem C17.by_payee_sums (posts rows : List RPost) (hq : AllQty posts) (h : byPayee posts = .ok rows) :
    GroupSums (fun p => (p.payee, p.account)) (fun r => (r.payee, r.account)) posts rows :=
  byPayee_groups posts rows hq h

/-- `--dow`: one row per (day of the week, account). -/
theorem C17.dow_sums (posts rows : List RPost) (hq : AllQty posts) (h : dow posts = .ok rows) :
    GroupSums (fun p => (Cal.weekday p.date, p.account)) (fun r => (Cal.weekday r.date, r.account)) posts rows :=
  dow_groups posts rows hq h

/-- `--collapse`: transaction by transaction; a transaction with a single
    posting is passed through, any other becomes one `<Total>` row holding the
    exact sum of its postings; the grand total is preserved. -/
theorem C17.collapse_sums (posts : List RPost) (hq : AllQty posts) :
    collapse 0 true id posts = ((runs pxid posts).map (collapseGroup 0 true id)).flatten ∧
    (∀ g ∈ runs pxid posts,
      (collapseGroup 0 true id g = g ∧ g.length = 1) ∨
      (GroupSums (fun _ => "<Total>") (fun r => r.account) g (collapseGroup 0 true id g))) ∧
    (∀ c, sumDen (collapse 0 true id posts) c = sumDen posts c) := by
  refine ⟨collapse_eq_runs 0 true id posts, ?_, fun c => (collapse_total 0 true id (fun _ => List.Perm.refl _) posts hq c).1⟩
  intro g hg
  have hq' : AllQty g := fun p hp => hq p (runs_mem_subset posts g hg p hp)
  rcases collapseGroup_groups 0 true id (fun _ => List.Perm.refl _) g hq' (runs_mem_nonempty posts g hg) with
    ⟨_, _, h1, h2⟩ | ⟨h, _⟩
  · exact Or.inl ⟨h2, h1⟩
  · exact Or.inr h

/-- `--depth N` (N ≥ 1): every transaction becomes one row per ancestor account
    at depth ≤ N, each the exact sum of the postings below it, whatever order
    `σ` the totals map (keyed by `account_t *`) is enumerated in; the grand
    total is preserved. -/
theorem C17.depth_sums (n : Nat) (hn : n ≠ 0) (σ : AMap Value → AMap Value) (hσ : ∀ m, (σ m).Perm m)
    (posts : List RPost) (hq : AllQty posts) :
    collapse n false σ posts = ((runs pxid posts).map (collapseGroup n false σ)).flatten ∧
    (∀ g ∈ runs pxid posts,
      GroupSums (fun p => depthAccount n p.account) (fun r => r.account) g (collapseGroup n false σ g)) ∧
    (∀ c, sumDen (collapse n false σ posts) c = sumDen posts c) := by
  refine ⟨collapse_eq_runs n false σ posts, ?_, fun c => (collapse_total n false σ hσ posts hq c).1⟩
  intro g hg
  have hq' : AllQty g := fun p hp => hq p (runs_mem_subset posts g hg p hp)
  have hk : totalsKey n = fun p => depthAccount n p.account := by
    funext p; simp [totalsKey, hn]
  rcases collapseGroup_groups n false σ hσ g hq' (runs_mem_nonempty posts g hg) with ⟨_, h, _⟩ | ⟨h, _⟩
  · cases h
  · rw [← hk]; exact h

/-- The grand total: under each regrouping option the running total printed on
    the last row equals, per commodity, the sum of all postings of the plain
    register (no commodity dropped, none invented). -/
theorem C17.grand_total (o : Opt)
    (ho : o = .subtotal ∨ o = .collapse ∨ o = .byPayee ∨ o = .dow ∨ ∃ n, o = .depth n)
    (posts : List RPost) (hq : AllQty posts) (rows : List (RPost × Value)) (h : report o posts = .ok rows)
    (c : Comm) (r : RPost × Value) (hl : rows.getLast? = some r) : r.2.den c = sumDen posts c := by
  have key : ∀ rs : List RPost, AllQty rs → sumDen rs c = sumDen posts c → rows = register rs →
      r.2.den c = sumDen posts c := by
    intro rs hqs hs he
    subst he
    have hlen : (register rs).length = rs.length := by
      have := congrArg List.length (runTotals_fst .void rs)
      simpa [register] using this
    rw [List.getLast?_eq_getElem?] at hl
    have := C17.running_total rs hqs c _ r hl
    rw [this, hlen, ← hs]
    congr 1
    apply List.take_of_length_le; omega
  have viaExcept : ∀ (e : Except RErr (List RPost)), e.map register = .ok rows →
      ∃ rs, e = .ok rs ∧ rows = register rs := by
    intro e he
    cases e with
    | error _ => simp [Except.map] at he
    | ok rs => exact ⟨rs, rfl, by simpa [Except.map] using he.symm⟩
  rcases ho with rfl | rfl | rfl | rfl | ⟨n, rfl⟩
  · obtain ⟨rs, h1, h2⟩ := viaExcept _ h
    have g := C17.subtotal_sums posts rs hq h1
    exact key rs g.qty (g.total c) h2
  · simp only [report, Except.ok.injEq] at h
    have g := collapse_total 0 true id (fun _ => List.Perm.refl _) posts hq c
    exact key _ g.2 g.1 h.symm
  · obtain ⟨rs, h1, h2⟩ := viaExcept _ h
    have g := C17.by_payee_sums posts rs hq h1
    exact key rs g.qty (g.total c) h2
  · obtain ⟨rs, h1, h2⟩ := viaExcept _ h
    have g := C17.dow_sums posts rs hq h1
    exact key rs g.qty (g.total c) h2
  · simp only [report, Except.ok.injEq] at h
    have g := collapse_total n false id (fun _ => List.Perm.refl _) posts hq c
    exact key _ g.2 g.1 h.symm

/-! ### non-vacuity -/

example : amountKeyGuard [⟨.date, false⟩, ⟨.amount, true⟩] sample = true := by decide +kernel
example : SWOOn (postLess [⟨.date, false⟩, ⟨.amount, true⟩]) sample :=
  C17.sortValueLess_swo _ _ (by decide +kernel)
example : (sortPosts [⟨.date, false⟩, ⟨.amount, true⟩] sample).Pairwise
    (fun a b => postLess [⟨.date, false⟩, ⟨.amount, true⟩] b a = false) :=
  C17.sort_sorted _ _ (C17.sortValueLess_swo _ _ (by decide +kernel))
example : AllCommoditised sample := allCommoditised_of_guard (by decide +kernel)
example : (runs pxid sample).map List.length = [2, 4, 2] := by decide +kernel
example : (truncate pxid 2 0 sample).map (·.line) = [2, 3, 6, 7, 8, 9] := by decide +kernel
example : (truncate pxid 0 1 sample).map (·.line) = [12, 13] := by decide +kernel
example : ((subtotal sample).toOption.map (fun rows => rows.map (·.account))) =
    some ["Assets:Bank:Checking", "Assets:Cash", "Expenses:Food", "Expenses:Rent"] := by decide +kernel
example : ((byPayee sample).toOption.map List.length) = some 6 := by decide +kernel
example : ((dow sample).toOption.map List.length) = some 6 := by decide +kernel
example : (collapse 0 true id sample).map (·.account) = ["<Total>", "<Total>", "<Total>"] := by decide +kernel
example : ∀ c, sumDen (collapse 1 false id sample) c = sumDen sample c :=
  (C17.depth_sums 1 (by decide) id (fun _ => List.Perm.refl _) sample sample_allQty).2.2

end Ledger
