/-
C18 — machine-readable outputs are well-formed and faithful.

"CSV/XML/emacs outputs are well-formed and round-trip the field values": for
every string a journal can put in a payee, account, code, note or commodity,
the text ledger writes for it is read back, by the conventional reader of the
format, as exactly that string — and the surrounding document structure
(record/field boundaries, markup, parentheses) is not disturbed by it.

The statements are about the escaping functions as they are in the working
tree: `csvQuote`, `csvQuoteRfc`, `emacsEscape`, `xmlEscape` are defined from
`Gen.quotedPairs`, `Gen.quotedRfcPairs`, `Gen.emacsEscapePairs`,
`Gen.xmlEntityPairs` (tools/extract_emit.py), so `lake build` re-proves
every statement against the current source.  All for arbitrary strings / documents, by
induction; no bound.

Known violation on the pinned tree: `quoted()` (report.cc fn_quoted) escapes the
quote as `\"` but leaves the backslash alone.  `C18.csv_roundtrip` is the full
statement; it is conditional on the flag `csvFaithful` that is computed from the
extracted source text (false on the pinned tree), `C18.csv_roundtrip_false`
proves the negation of the full statement under the complementary flag on the
witness payee `a\`, and `C18.csv_roundtrip_partial` is the part that holds
regardless (backslash-free fields).
-/
import LedgerModel.Lemmas.Emit
import LedgerModel.Gen.EmitFns
import LedgerModel.Model.EmitFnsPinned

namespace Ledger
open Emit

/-! ### tie of the row template and of the emacs field list to the source -/

/-- The bodies of fn_quoted / fn_quoted_rfc, of the emacs emitter (write_xact,
    operator(), escape_string, flush) and of the XML put_* emitters found in the
    working tree are the ones this model was written against. -/
theorem C18.emit_fns_pinned : Gen.emitFns = Pinned.emitFns := rfl

/-- report.h's default `--csv-format` is exactly: the extracted columns, each
    wrapped in the one quoting function, joined by commas, ended by a newline —
    i.e. the shape `csvRowWith` models. -/
theorem C18.csv_format_shape :
    Gen.csvFormat = csvFormatOf Gen.csvQuoter Gen.csvColumns ∧
    (Gen.csvQuoter = "quoted" ∨ Gen.csvQuoter = "quoted_rfc") := by decide +kernel

/-- emacs.cc streams every string-valued field through `escape_string`, and the
    only operands it streams raw are line numbers and the two halves of the
    date (pinned copy of the extracted operand lists: dropping an
    `escape_string` call changes `Gen.emacsEscapedFields`/`emacsRawStreams`). -/
theorem C18.emacs_fields_pinned :
    Gen.emacsEscapedFields = ["xact.pos->pathname.string()", "*xact.code", "xact.payee",
      "post.reported_account()->fullname()", "post.amount", "*post.cost", "*post.note"] ∧
    Gen.emacsRawStreams = ["xact.pos->beg_line", "-1", "(date/65536)", "(date%65536)",
      "post.pos->beg_line", "-1"] ∧
    Gen.xmlWriter = "boost::property_tree::write_xml" := by decide

/-! ### CSV -/

/-- RFC 4180 (`quoted_rfc`): any document — any number of records, any fields,
    including quotes, commas, newlines and backslashes — is read back exactly
    by the quote-doubling reader. -/
theorem C18.csv_rfc_roundtrip (rows : List (List Str)) (hne : ∀ row ∈ rows, row ≠ []) :
    csvReadRfc (csvDocRfc rows) = some rows := by
  unfold csvReadRfc csvDocRfc
  rw [quotedRfc_is_wrapQ]
  exact csvGo_doc .rfc _ rows hne (fun _ _ s _ => readsBack_rfc _ quotedRfc_hq quotedRfc_ho s)

/-- one record, as a corollary -/
theorem C18.csv_rfc_row_roundtrip (fields : List Str) (hne : fields ≠ []) :
    csvReadRfc (csvRowRfc fields) = some [fields] := by
  have := C18.csv_rfc_roundtrip [fields] (by simpa using hne)
  simpa [csvDocRfc, csvDocWith, csvRowRfc] using this

/-- FULL STATEMENT for the shipped `csv` report: every document is read back
    exactly by the dialect its quoting function belongs to.  Holds whenever the
    source makes `csvFaithful` true (the format uses `quoted_rfc`, or `quoted`
    also escapes the backslash); on the pinned tree the flag is false and
    `C18.csv_roundtrip_false` applies instead. -/
theorem C18.csv_roundtrip (h : csvFaithful = true)
    (rows : List (List Str)) (hne : ∀ row ∈ rows, row ≠ []) :
    ledgerCsvRead (ledgerCsvDoc rows) = some rows := by
  unfold ledgerCsvRead ledgerCsvDoc
  cases hs : shipsRfc
  · have hb : quotedEscapesBackslash = true := by simpa [csvFaithful, hs] using h
    have hq : ledgerQuote = wrapQ (escape Gen.quotedPairs) := by
      funext s; simp [ledgerQuote, hs, quoted_is_wrapQ]
    have hd : ledgerDialect = .backslash := by simp [ledgerDialect, hs]
    rw [hq, hd]
    exact csvGo_doc .backslash _ rows hne
      (fun _ _ s _ => readsBack_backslash _ quoted_hq (quoted_hb hb) quoted_ho s)
  · have hq : ledgerQuote = wrapQ (escape Gen.quotedRfcPairs) := by
      funext s; simp [ledgerQuote, hs, quotedRfc_is_wrapQ]
    have hd : ledgerDialect = .rfc := by simp [ledgerDialect, hs]
    rw [hq, hd]
    exact csvGo_doc .rfc _ rows hne (fun _ _ s _ => readsBack_rfc _ quotedRfc_hq quotedRfc_ho s)

/-- the witnesses: a payee ending in a backslash, and one holding `\"` -/
def C18.witness1 : List (List Str) := [[['a', '\\']]]
def C18.witness2 : List (List Str) := [[['a', '\\', '"', 'b']]]

/-- NEGATION of the full statement on the pinned tree (`csvFaithful = false`):
    the record ledger writes for the single field `a\` is `"a\"` + newline, which
    no dialect reads back — the backslash reader takes `\"` for an escaped quote
    and runs off the end, the RFC reader does read `a\` here but fails on `a\"b`
    (written `"a\\"b"`), so neither conventional dialect recovers both. -/
theorem C18.csv_roundtrip_false (h : csvFaithful = false) :
    ¬ (∀ rows : List (List Str), (∀ row ∈ rows, row ≠ []) → ledgerCsvRead (ledgerCsvDoc rows) = some rows) ∧
    csvReadBackslash (ledgerCsvDoc C18.witness1) ≠ some C18.witness1 ∧
    csvReadBackslash (ledgerCsvDoc C18.witness2) ≠ some C18.witness2 ∧
    csvReadRfc (ledgerCsvDoc C18.witness2) ≠ some C18.witness2 := by
  refine ⟨fun H => ?_, ?_, ?_, ?_⟩
  · have := H C18.witness1 (by decide)
    revert this h; decide
  all_goals (revert h; decide)

/-- What holds for the source as it is now, with no hypothesis: either the flag
    is true and every document round-trips, or it is false and not every
    document does (`#eval Emit.csvFaithful` / driver op `emit.info` say which;
    false on the pinned tree). -/
theorem C18.csv_verdict :
    (csvFaithful = true ∧
      ∀ rows : List (List Str), (∀ row ∈ rows, row ≠ []) → ledgerCsvRead (ledgerCsvDoc rows) = some rows) ∨
    (csvFaithful = false ∧
      ¬ ∀ rows : List (List Str), (∀ row ∈ rows, row ≠ []) → ledgerCsvRead (ledgerCsvDoc rows) = some rows) := by
  cases h : csvFaithful
  · exact Or.inr ⟨rfl, (C18.csv_roundtrip_false h).1⟩
  · exact Or.inl ⟨rfl, C18.csv_roundtrip h⟩

/-- PARTIAL: whatever the flag, documents whose fields hold no backslash are read
    back exactly (guard: `noBackslash`, decidable). -/
theorem C18.csv_roundtrip_partial
    (rows : List (List Str)) (hne : ∀ row ∈ rows, row ≠ [])
    (hbs : ∀ row ∈ rows, ∀ f ∈ row, noBackslash f = true) :
    ledgerCsvRead (ledgerCsvDoc rows) = some rows := by
  unfold ledgerCsvRead ledgerCsvDoc
  cases hs : shipsRfc
  · have hq : ledgerQuote = wrapQ (escape Gen.quotedPairs) := by
      funext s; simp [ledgerQuote, hs, quoted_is_wrapQ]
    have hd : ledgerDialect = .backslash := by simp [ledgerDialect, hs]
    rw [hq, hd]
    exact csvGo_doc .backslash _ rows hne
      (fun row hr s hsr => readsBack_backslash_partial _ quoted_hq quoted_ho s (hbs row hr s hsr))
  · have hq : ledgerQuote = wrapQ (escape Gen.quotedRfcPairs) := by
      funext s; simp [ledgerQuote, hs, quotedRfc_is_wrapQ]
    have hd : ledgerDialect = .rfc := by simp [ledgerDialect, hs]
    rw [hq, hd]
    exact csvGo_doc .rfc _ rows hne (fun _ _ s _ => readsBack_rfc _ quotedRfc_hq quotedRfc_ho s)

/-- `join()` (the note column of the csv report): the result holds no newline —
    a record stays on one line —, a text without newlines is copied unchanged
    (every character of every script), and for a text without backslashes the
    reader that turns `\\n` back into a newline recovers it exactly. -/
theorem C18.join_faithful (s : Str) :
    '\n' ∉ joinLines s ∧
    ((∀ c ∈ s, c ≠ '\n') → joinLines s = s) ∧
    (noBackslash s = true → unjoinLines false (joinLines s) = s) := by
  refine ⟨?_, ?_, ?_⟩
  · induction s with
    | nil => simp [joinLines, escape]
    | cons c s ih =>
      rw [joinLines_cons]
      by_cases h : c = '\n'
      · simp [h, ih]
      · simp only [h, ite_false, List.cons_append, List.nil_append, List.mem_cons, not_or]
        exact ⟨fun e => h e.symm, ih⟩
  · induction s with
    | nil => intro _; simp [joinLines, escape]
    | cons c s ih =>
      intro h
      rw [joinLines_cons]
      have hc : c ≠ '\n' := h c (by simp)
      simp [hc, ih (fun x hx => h x (by simp [hx]))]
  · induction s with
    | nil => intro _; simp [joinLines, escape, unjoinLines]
    | cons c s ih =>
      intro h
      simp only [noBackslash, List.all_cons, Bool.and_eq_true, bne_iff_ne, ne_eq] at h
      have ih' := ih (by simpa [noBackslash] using h.2)
      rw [joinLines_cons]
      by_cases hn : c = '\n'
      · subst hn; simp [unjoinLines, ih']
      · simp [hn, unjoinLines, h.1, ih']

/-- the note column of the shipped format is the only one that goes through `join()` -/
theorem C18.csv_join_columns :
    columnJoins = [false, false, false, false, false, false, false, true] := by decide +kernel

/-! ### XML -/

/-- The text the XML writer produces for any string is read back as that
    string by a reader of XML character data (so every `&` in it starts a
    complete, known reference and there is no bare `<`), and it contains none of
    `<`, `>`, `"`, `'`: it is well-formed as element content and inside an
    attribute value alike. -/
theorem C18.xml_escape_roundtrip (s : Str) :
    xmlUnescape (xmlEscape s) = some s ∧
    ∀ x ∈ xmlEscape s, x ≠ '<' ∧ x ≠ '>' ∧ x ≠ '"' ∧ x ≠ '\'' := by
  cases s with
  | nil => exact ⟨by simp [xmlEscape, xmlUnescape, xmlGo], by simp [xmlEscape]⟩
  | cons c t =>
    by_cases hb : allBlank (c :: t) = true
    · have hc : c = ' ' ∧ allBlank t = true := by
        simpa [allBlank, List.all_cons] using hb
      refine ⟨?_, ?_⟩
      · simp only [xmlEscape, hb, ite_true, xmlUnescape]
        rw [xmlBlankRef_reads, xmlGo_blanks t hc.2, hc.1]; rfl
      · intro x hx
        simp only [xmlEscape, hb, ite_true, List.mem_append] at hx
        rcases hx with hx | hx
        · simp only [Gen.xmlBlankRef, List.mem_cons, List.mem_nil_iff, or_false] at hx
          rcases hx with rfl | rfl | rfl | rfl | rfl <;> decide
        · have : x = ' ' := by
            have := List.all_eq_true.mp hc.2 x hx
            simpa using this
          subst this; decide
    · refine ⟨?_, ?_⟩
      · simp only [xmlEscape, hb, xmlUnescape]
        have := xmlGo_escape (c :: t) []
        simpa [xmlGo] using this
      · intro x hx
        simp only [xmlEscape, hb] at hx
        obtain ⟨c', _, hx'⟩ := mem_escape hx
        exact xml_escChar_clean c' x hx'

/-! ### Emacs -/

/-- A string literal written by emacs.cc is read back, by a Lisp reader, as the
    original string, and the reader stops exactly at the closing quote —
    whatever the string holds (quotes, backslashes, parentheses, newlines). -/
theorem C18.emacs_escape_roundtrip (s t : Str) :
    sexpReadString (emacsStr s ++ t) = some (s, t) := by
  simp [emacsStr, sexpReadString, sexpStrBody_emacs]

/-- Parentheses and quotes inside a written string never count: scanning the
    literal from code state returns to code state at the same depth. -/
theorem C18.emacs_balanced (d : Nat) (s t : Str) :
    sexpScan d .code (emacsStr s ++ t) = sexpScan d .code t :=
  sexpScan_emacsStr d s t

/-- The whole `emacs` report, for any list of transactions with any postings
    and any field contents, is a balanced s-expression (depth 0 at the end, never
    negative, not ending inside a string). -/
theorem C18.emacs_doc_balanced (xs : List EXact) :
    sexpScan 0 .code (emacsDoc xs) = some 0 := by
  cases xs with
  | nil => rfl
  | cons x xs =>
    have h1 : emacsDoc (x :: xs) = '(' :: '(' :: (emacsXact x ++ (emacsMore xs ++ [')', ')', '\n'])) := by
      simp [emacsDoc]
    have h2 : ∀ r, sexpScan 0 .code ('(' :: '(' :: r) = sexpScan 2 .code r := by
      intro r; simp [sexpScan]
    rw [h1, h2, neutral_xact x, scan_more 1 xs]
    decide

/-! ### non-vacuity -/

example : csvRow ["a\"b".toList, "x,y".toList] = "\"a\\\"b\",\"x,y\"\n".toList := by decide
example : csvReadRfc (csvDocRfc [["a\\".toList, "q\"\n,".toList], ["".toList]])
    = some [["a\\".toList, "q\"\n,".toList], ["".toList]] := by decide
example : csvReadBackslash (csvDoc [["say \"hi\", ok".toList]]) = some [["say \"hi\", ok".toList]] := by decide
example : ledgerCsvRecord ["2020/01/02".toList, [], "p".toList, "A".toList, "EUR".toList, "5".toList, [], " crème\n brûlée".toList]
    = (ledgerCsvRow ["2020/01/02".toList, [], "p".toList, "A".toList, "EUR".toList, "5".toList, [], " crème\\n brûlée".toList]) := by decide +kernel
example : xmlEscape "a<b & \"c\"".toList = "a&lt;b &amp; &quot;c&quot;".toList := by decide
example : xmlEscape "  ".toList = "&#32; ".toList := by decide
example : emacsStr "a\\\"(b".toList = "\"a\\\\\\\"(b\"".toList := by decide
example : sexpScan 0 .code (emacsDoc [⟨"f".toList, 1, 24077, 12928, none, ")(\"".toList,
    [⟨2, "A:(b".toList, "$1".toList, .cleared, none, some "n)".toList⟩]⟩]) = some 0 := by decide

end Ledger
