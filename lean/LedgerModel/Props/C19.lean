/-
C19 — output is a function of the input alone.

The model is a pure function, so its determinism is vacuous; the content proved
here is ORDER-INDEPENDENCE: no enumeration order of a hash map / address-ordered
map reaches an output.  Every such container of src/ is listed in
`Gen.orderContainers` (re-extracted on every run, pinned below); each consumer
is a function of the enumeration `l` of a finite map, and the theorem is
`l ~ l' → out l = out l'` (`~` = `List.Perm`, keys pairwise distinct).

Six consumers of the pinned tree (54ea96f) leaked the order.  For each, the full
statement is kept as a `def … : Prop`, its negation is proved on a concrete
witness, and what remains order-free is proved as `…_partial`:
  collapse_posts::totals_map  (filters.h 431)      reg --collapse --depth N rows in address order     REPAIRED c8b647e
  put_balance                 (balance.cc 375-379) xml <amount> elements in hash order                 REPAIRED 36e5f68
  posts_commodities_iterator  (iterators.cc 141)   prices / pricedb groups in address order            REPAIRED fc0aedd
  top_amount                  (report.cc 517-521)  first entry of the hash map                         REPAIRED c1ef985
  value_t::is_less_than       (value.cc 965-975)   balance < amount: first deciding component / throw  REPAIRED 89c0598
  balance_t::strip_annotations (balance.cc 263-271) merged lots keep the FIRST lot's keep_precision    known finding
The five repaired ones are read from the source into `Gen` flags: the leak
theorems are stated under the OLD value of the flag, the `…_fixed` theorems are
obligations that the working tree has the repaired form, and
`xml_balance_order_free`, `top_amount_order_free`, `collapse_order_free`,
`prices_order_free`, `lt_balance_order_free` are the unconditional order-freedom results that follow.

Uninitialised reads and wall-clock dependence cannot be exhibited by a model;
they are only EXERCISED by the runtime part of tools/props/c19.py.
-/
import LedgerModel.Lemmas.OrderSources
import LedgerModel.Gen.OrderSourceFns
import LedgerModel.Model.OrderSourcesPinned
import LedgerModel.Model.OrderSourceFnsPinned

namespace Ledger
open OS

/-! ### tie to the source -/

/-- The unordered / pointer-keyed containers of the working tree are exactly the
    classified ones (a new one breaks this and has to be modelled or reported). -/
theorem C19.containers_pinned : Gen.orderContainers = Pinned.orderContainers := rfl

/-- The functions that enumerate `balance_t::amounts` are exactly the classified ones. -/
theorem C19.walks_pinned : Gen.amountsWalks = Pinned.amountsWalks := rfl

/-- The bodies of the consumers mirrored by Model/OrderSources.lean (sorted_amounts,
    map_sorted_amounts, print, put_balance, compare_by_commodity, collapse_posts,
    subtotal_posts, post_splitter::flush, top_amount, posts_commodities_iterator::reset,
    finalize's two-commodity branch) and the key types of their maps are the pinned ones. -/
theorem C19.fns_pinned : Gen.orderSourceFns = Pinned.orderSourceFns := rfl

/-- The comparators of the pointer-keyed ordered containers are the classified ones … -/
theorem C19.comparators_pinned : Gen.comparators = Pinned.comparators := rfl

/-- … and none of them falls back to comparing the pointers: a `std::map<T*, …, C>` whose `C` ends in
    `lhs < rhs` lists equal-named entries in heap-address order. -/
theorem C19.comparators_name_only : ∀ e ∈ Gen.comparators, e.2.1 = "name-only" := by decide

/-! ### order-free consumers -/

/-- Generic form: a consumer that sorts the enumeration of a finite map by ANY
    total order on its keys forgets the enumeration (covers compare_by_commodity
    on annotated commodities as far as it is a total order, and every
    `std::map` with a comparator). -/
theorem C19.sortBy_key_perm {α κ : Type} (key : α → κ) (le : κ → κ → Bool)
    (htrans : ∀ a b c, le a b = true → le b c = true → le a c = true)
    (htotal : ∀ a b, (le a b || le b a) = true)
    (hanti : ∀ a b, le a b = true → le b a = true → a = b)
    (l l' : List α) (hp : l.Perm l') (hd : l.Pairwise (fun x y => key x ≠ key y)) :
    sortBy key le l = sortBy key le l' :=
  sortBy_eq_of_perm key le htrans htotal hanti hp hd

/-- balance_t::sorted_amounts: the sorted view of a balance does not depend on
    the hash order σ. -/
theorem C19.sortedAmounts_perm (b b' : Balance) (hp : b.Perm b')
    (hd : b.Pairwise (fun x y => x.comm ≠ y.comm)) : sortedAmounts b = sortedAmounts b' :=
  sortByName_eq_of_perm Amount.comm hp hd

/-- … and it is sorted and a rearrangement of the balance (it is the sorted view). -/
theorem C19.sortedAmounts_sorted (b : Balance) :
    (sortedAmounts b).Pairwise (fun x y => x.comm ≤ y.comm) ∧ (sortedAmounts b).Perm b := by
  refine ⟨?_, OS.sortBy_perm _ _ b⟩
  have := List.pairwise_mergeSort (le := fun (x y : Amount) => commLe x.comm y.comm)
    (fun a b c => commLe_trans a.comm b.comm c.comm) (fun a b => commLe_total a.comm b.comm) b
  exact this.imp (fun h => by simpa [commLe] using h)

/-- balance_t::print (every report column that shows a balance): independent of σ. -/
theorem C19.printBalance_perm (env : PrecEnv) (b b' : Balance) (hp : b.Perm b')
    (hd : b.Pairwise (fun x y => x.comm ≠ y.comm)) : printBalance env b = printBalance env b' := by
  unfold printBalance; rw [C19.sortedAmounts_perm b b' hp hd]

/-- The denotation of a balance (what every sum, total and equality test uses)
    is independent of σ. -/
theorem C19.balance_den_perm (b b' : Balance) (hp : b.Perm b') (c : Comm) : b.den c = b'.den c := by
  induction hp with
  | nil => rfl
  | cons x _ ih => simp only [Balance.den_cons, ih]
  | swap x y l => simp only [Balance.den_cons]; grind
  | trans _ _ ih1 ih2 => exact ih1.trans ih2

/-- `is_zero` / `is_realzero` style walks (all / any) are independent of σ. -/
theorem C19.isRealZero_perm (b b' : Balance) (hp : b.Perm b') : b.isRealZero = b'.isRealZero :=
  hp.all_eq

/-- is_greater_than's BALANCE row (value.cc; since 89c0598 it walks sorted_amounts too) never throws and is
    independent of the order it is walked in, sorted or not. -/
theorem C19.gt_balance_order_free (b b' : Balance) (v : Value)
    (hv : (∃ n, v = .int n) ∨ (∃ a, v = .amt a)) (hp : b.Perm b') : gtAll b v = gtAll b' v := by
  rw [gtAll_eq_all v hv b, gtAll_eq_all v hv b', hp.all_eq]
  cases b with
  | nil => rw [List.Perm.nil_eq hp]
  | cons x xs =>
    cases b' with
    | nil => exact absurd hp.symm (List.not_perm_nil_cons _ _) |> False.elim
    | cons y ys => rfl

/-- xact_base_t::finalize, two-commodity branch: whichever of the two entries the
    hash map yields first, every posting gets the same cost — provided the top
    posting's commodity is one of the two (it is whenever that posting's amount
    is not zero: `C19.finalize_top_mem`). -/
theorem C19.finalize_order_free (env : PrecEnv) (top : Comm) (x y : Amount) (posts : List Amount)
    (hxy : x.comm ≠ y.comm) (htop : top = x.comm ∨ top = y.comm) :
    finalizeCosts env top [x, y] posts = finalizeCosts env top [y, x] posts := by
  simp only [finalizeCosts, finalize2]
  congr 1
  rcases htop with rfl | rfl
  · have h2 : y.comm ≠ x.comm := fun h => hxy h.symm
    simp [h2, Or.comm]
  · simp [hxy, Or.comm]

/-- The guard of `finalize_order_free` holds for the balance finalize builds when
    the top posting's amount is not zero. -/
theorem C19.finalize_top_mem (p : Amount) (ps : List Amount) (hp : p.q ≠ 0) :
    ∃ a ∈ xactBalance (p :: ps), a.comm = p.comm := by
  unfold xactBalance
  simp only [List.foldl_cons]
  apply hasKey_foldl
  unfold Balance.addAmt
  simp only [hp, if_false]
  exact hasKey_addGo_self [] p

/-- Full statement without the guard. -/
def C19.FinalizeOrderFree : Prop :=
  ∀ (env : PrecEnv) (top : Comm) (x y : Amount) (posts : List Amount), x.comm ≠ y.comm →
    finalizeCosts env top [x, y] posts = finalizeCosts env top [y, x] posts

/-- The excluded point: a zero-amount top posting of a THIRD commodity
    (`A  0 AAA` / `B  5.00 EUR` / `C  -3.00 USD`): which posting receives the
    computed cost depends on the enumeration of the two-entry hash map. -/
theorem C19.finalize_zero_top_order_leaks : ¬ C19.FinalizeOrderFree := by
  intro h
  have := h (fun _ => 2) "AAA" ⟨5, 2, false, "EUR"⟩ ⟨-3, 2, false, "USD"⟩
    [⟨0, 0, false, "AAA"⟩, ⟨5, 2, false, "EUR"⟩, ⟨-3, 2, false, "USD"⟩] (by decide)
  revert this
  decide +kernel

/-- Maps keyed by a name (subtotal_posts::values_map, by_payee_posts, the account
    tree's children): rows leave in name order whatever order they were found in. -/
theorem C19.subtotal_order_free {β : Type} (l l' : List (String × β)) (hp : l.Perm l')
    (hd : l.Pairwise (fun x y => x.1 ≠ y.1)) : emitByName l = emitByName l' := by
  unfold emitByName
  exact sortByName_eq_of_perm (fun e => e.1) hp hd

/-! ### collapse_posts with --depth: rows in address order -/

def C19.CollapseOrderFree : Prop :=
  ∀ (addr addr' : String → Nat) (t : List (String × Balance)),
    t.Pairwise (fun x y => addr x.1 ≠ addr y.1) → t.Pairwise (fun x y => addr' x.1 ≠ addr' y.1) →
    collapseRows addr t = collapseRows addr' t

/-- With the totals keyed by `account_t*`, two address assignments give two row orders. -/
theorem C19.collapse_order_leaks (h : Gen.collapseTotalsOrder = "address") : ¬ C19.CollapseOrderFree := by
  intro hfree
  have := hfree (fun s => if s = "Assets" then 1 else 2) (fun s => if s = "Assets" then 2 else 1)
    [("Assets", [⟨3, 2, false, "$"⟩]), ("Equity", [⟨-3, 2, false, "$"⟩])] (by decide) (by decide)
  simp only [collapseRows, h, if_true] at this
  have e1 : sortBy (fun e : String × Balance => if e.1 = "Assets" then 1 else 2) Nat.ble
      [("Assets", [⟨3, 2, false, "$"⟩]), ("Equity", [⟨-3, 2, false, "$"⟩])]
      = [("Assets", [⟨3, 2, false, "$"⟩]), ("Equity", [⟨-3, 2, false, "$"⟩])] :=
    sortBy_of_sorted _ _ (by decide)
  have e2 : sortBy (fun e : String × Balance => if e.1 = "Assets" then 2 else 1) Nat.ble
      [("Assets", [⟨3, 2, false, "$"⟩]), ("Equity", [⟨-3, 2, false, "$"⟩])]
      = [("Equity", [⟨-3, 2, false, "$"⟩]), ("Assets", [⟨3, 2, false, "$"⟩])] :=
    sortByAddr_eq_sorted _ (List.Perm.swap _ _ _) (by decide) (by decide)
  rw [e1, e2] at this
  revert this
  decide +kernel

/-- What IS order-free: the multiset of rows (accounts with their sums). -/
theorem C19.collapse_rows_perm_partial (addr addr' : String → Nat) (t : List (String × Balance)) :
    (collapseRows addr t).Perm (collapseRows addr' t) := by
  unfold collapseRows
  split
  · exact (OS.sortBy_perm _ _ t).trans (OS.sortBy_perm _ _ t).symm
  · split
    · exact List.Perm.refl _
    · exact List.Perm.refl _

/-- Once the map is ordered by name or by first insertion, the rows are order-free. -/
theorem C19.collapse_order_free_of_fixed (h : Gen.collapseTotalsOrder ≠ "address") : C19.CollapseOrderFree := by
  intro addr addr' t _ _
  simp only [collapseRows, h, if_false]

/-! ### put_balance: xml `<amount>` elements in hash order -/

def C19.XmlBalanceOrderFree : Prop :=
  ∀ (b b' : Balance), b.Perm b' → b.Pairwise (fun x y => x.comm ≠ y.comm) → putBalance b = putBalance b'

theorem C19.xml_balance_order_leaks (h : Gen.putBalanceSorted = false) : ¬ C19.XmlBalanceOrderFree := by
  intro hfree
  have := hfree [⟨5 / 2, 2, false, "EUR"⟩, ⟨3, 0, false, "USD"⟩] [⟨3, 0, false, "USD"⟩, ⟨5 / 2, 2, false, "EUR"⟩]
    (List.Perm.swap _ _ _) (by decide)
  simp only [putBalance, h] at this
  revert this
  decide +kernel

/-- What IS order-free: the multiset of `<amount>` elements. -/
theorem C19.xml_balance_perm_partial (b b' : Balance) (hp : b.Perm b') :
    (putBalance b).Perm (putBalance b') := by
  unfold putBalance
  apply List.Perm.map
  split
  · exact (OS.sortBy_perm _ _ b).trans (hp.trans (OS.sortBy_perm _ _ b').symm)
  · exact hp

theorem C19.xml_balance_order_free_of_sorted (h : Gen.putBalanceSorted = true) : C19.XmlBalanceOrderFree := by
  intro b b' hp hd
  simp only [putBalance, h, if_true]
  rw [C19.sortedAmounts_perm b b' hp hd]

/-! ### balance < amount: first deciding component

value.cc is_less_than, BALANCE row.  The pinned tree walked the hash map as it came and
stopped at the first deciding component (or threw on the first incomparable one);
89c0598 walks `sorted_amounts`.  `Value.lt` walks `Value.ltWalkOrder x`, which is the
sorted walk exactly when `Gen.ltBalanceSorted` (read from the source by tools/extract.py). -/

def C19.LtBalanceOrderFree : Prop :=
  ∀ (b b' : Balance) (v : Value), ((∃ n, v = .int n) ∨ (∃ a, v = .amt a)) → b.Perm b' →
    b.Pairwise (fun x y => x.comm ≠ y.comm) → Value.lt (.bal b) v = Value.lt (.bal b') v

/-- Regression obligation: the working tree walks the sorted amounts. -/
theorem C19.lt_balance_sorted_flag : Gen.ltBalanceSorted = true := by decide

/-- With the UNSORTED walk `(2.50 EUR + 3 USD) < 2.50 EUR` is `false` when the hash map
    yields EUR first and throws "different commodities" when it yields USD first. -/
theorem C19.lt_balance_order_leaks (h : Gen.ltBalanceSorted = false) : ¬ C19.LtBalanceOrderFree := by
  intro hfree
  have := hfree [⟨5 / 2, 2, false, "EUR"⟩, ⟨3, 0, false, "USD"⟩] [⟨3, 0, false, "USD"⟩, ⟨5 / 2, 2, false, "EUR"⟩]
    (.amt ⟨5 / 2, 2, false, "EUR"⟩) (Or.inr ⟨_, rfl⟩) (List.Perm.swap _ _ _) (by decide)
  simp only [Value.lt, Value.ltWalkOrder, h] at this
  revert this
  decide +kernel

/-- With the sorted walk the comparison does not depend on the enumeration of the balance
    (answer AND which "different commodities" error is raised). -/
theorem C19.lt_balance_order_free_of_sorted (h : Gen.ltBalanceSorted = true) : C19.LtBalanceOrderFree := by
  intro b b' v hv hp hd
  have hs : Value.ltWalkOrder b = Value.ltWalkOrder b' := by
    simp only [Value.ltWalkOrder, h, if_true]
    exact sortByComm_eq_of_perm hp hd
  rcases hv with ⟨n, rfl⟩ | ⟨a, rfl⟩
  · simp only [Value.lt, hs]
  · simp only [Value.lt, hs]

/-- `balance < amount` / `balance < integer` is order-free on the working tree. -/
theorem C19.lt_balance_order_free : C19.LtBalanceOrderFree :=
  C19.lt_balance_order_free_of_sorted C19.lt_balance_sorted_flag

/-! ### strip_annotations: the merged lot keeps the first lot's keep_precision flag -/

def C19.StripAnnotationsOrderFree : Prop :=
  ∀ (strip : Comm → Comm) (b b' : Balance), b.Perm b' → b.Pairwise (fun x y => x.comm ≠ y.comm) →
    stripAnnotations strip b = stripAnnotations strip b'

/-- A total holding `10.00 abc {2 BTC}` (rounded at display) and `2/3 abc` with keep_precision
    set: stripped, the sum 32/3 abc carries the flag of whichever lot the hash map yields first,
    so it prints as `10.67 abc` or as `10.66666667 abc`. -/
theorem C19.strip_annotations_order_leaks : ¬ C19.StripAnnotationsOrderFree := by
  intro hfree
  have := hfree (fun _ => "abc") [⟨10, 2, false, "abc {2 BTC}"⟩, ⟨2 / 3, 8, true, "abc"⟩]
    [⟨2 / 3, 8, true, "abc"⟩, ⟨10, 2, false, "abc {2 BTC}"⟩] (List.Perm.swap _ _ _) (by decide)
  revert this
  decide +kernel

/-- What IS order-free: the exact quantity of every commodity of the stripped balance. -/
theorem C19.strip_annotations_den_perm_partial (strip : Comm → Comm) (b b' : Balance) (hp : b.Perm b')
    (c : Comm) : (stripAnnotations strip b).den c = (stripAnnotations strip b').den c := by
  have h : ∀ l : Balance, (stripAnnotations strip l).den c
      = Balance.den (l.map (fun a => { a with comm := strip a.comm })) c := by
    intro l
    have := Balance.add_den [] (l.map (fun a => { a with comm := strip a.comm })) c
    simp only [Balance.add, Balance.den_nil] at this
    unfold stripAnnotations
    rw [this]; grind
  rw [h b, h b']
  exact C19.balance_den_perm _ _ (hp.map _) c

/-! ### prices / pricedb: commodity groups in address order -/

def C19.PricesOrderFree : Prop :=
  ∀ (addr addr' : Comm → Nat) (g : List (Comm × List Rat)),
    g.Pairwise (fun x y => addr x.1 ≠ addr y.1) → g.Pairwise (fun x y => addr' x.1 ≠ addr' y.1) →
    pricesGroups addr g = pricesGroups addr' g

theorem C19.prices_order_leaks (h : Gen.pricesSetOrder = "address") : ¬ C19.PricesOrderFree := by
  intro hfree
  have := hfree (fun s => if s = "AAA" then 1 else 2) (fun s => if s = "AAA" then 2 else 1)
    [("AAA", [1]), ("EUR", [2])] (by decide) (by decide)
  simp only [pricesGroups, h, if_true] at this
  have e1 : sortBy (fun g : Comm × List Rat => if g.1 = "AAA" then 1 else 2) Nat.ble [("AAA", [1]), ("EUR", [2])]
      = [("AAA", [1]), ("EUR", [2])] := sortBy_of_sorted _ _ (by decide)
  have e2 : sortBy (fun g : Comm × List Rat => if g.1 = "AAA" then 2 else 1) Nat.ble [("AAA", [1]), ("EUR", [2])]
      = [("EUR", [2]), ("AAA", [1])] := sortByAddr_eq_sorted _ (List.Perm.swap _ _ _) (by decide) (by decide)
  rw [e1, e2] at this
  revert this
  decide +kernel

theorem C19.prices_groups_perm_partial {β : Type} (addr addr' : Comm → Nat) (g : List (Comm × β)) :
    (pricesGroups addr g).Perm (pricesGroups addr' g) := by
  unfold pricesGroups
  split
  · exact (OS.sortBy_perm _ _ g).trans (OS.sortBy_perm _ _ g).symm
  · split
    · exact List.Perm.refl _
    · exact List.Perm.refl _

/-- Once the commodities are kept by name or by first appearance, the groups are order-free. -/
theorem C19.prices_order_free_of_fixed (h : Gen.pricesSetOrder ≠ "address") : C19.PricesOrderFree := by
  intro addr addr' g _ _
  simp only [pricesGroups, h, if_false]

/-! ### top_amount: first entry of the hash map -/

def C19.TopAmountOrderFree : Prop :=
  ∀ (b b' : Balance), b.Perm b' → b.Pairwise (fun x y => x.comm ≠ y.comm) → topAmount b = topAmount b'

theorem C19.top_amount_order_leaks (h : Gen.topAmountSorted = false) : ¬ C19.TopAmountOrderFree := by
  intro hfree
  have := hfree [⟨5 / 2, 2, false, "EUR"⟩, ⟨3, 0, false, "USD"⟩] [⟨3, 0, false, "USD"⟩, ⟨5 / 2, 2, false, "EUR"⟩]
    (List.Perm.swap _ _ _) (by decide)
  simp only [topAmount, h] at this
  revert this
  decide +kernel

/-- What IS order-free: the result is one of the components. -/
theorem C19.top_amount_mem_partial (b : Balance) (a : Amount) (h : topAmount b = some a) : a ∈ b := by
  unfold topAmount at h
  split at h
  · exact (OS.sortBy_perm _ _ b).mem_iff.mp (List.mem_of_head? h)
  · exact List.mem_of_head? h

theorem C19.top_amount_order_free_of_sorted (h : Gen.topAmountSorted = true) : C19.TopAmountOrderFree := by
  intro b b' hp hd
  simp only [topAmount, h, if_true]
  rw [C19.sortedAmounts_perm b b' hp hd]

/-! ### the four repaired consumers: obligations on the working tree

Each flag is read from the source on every run; a regression of one of the four
repairs (put_balance 36e5f68, top_amount c1ef985, collapse totals_map c8b647e,
posts_commodities_iterator fc0aedd) turns the flag back and breaks the proof.
The `…_order_leaks` theorems above stay as theorems about the old form. -/

theorem C19.put_balance_fixed : Gen.putBalanceSorted = true := by decide
theorem C19.top_amount_fixed : Gen.topAmountSorted = true := by decide
theorem C19.collapse_totals_fixed : Gen.collapseTotalsOrder ≠ "address" := by decide
theorem C19.prices_set_fixed : Gen.pricesSetOrder ≠ "address" := by decide

/-- `ledger xml`: the `<amount>` elements of a balance do not depend on the hash order. -/
theorem C19.xml_balance_order_free : C19.XmlBalanceOrderFree :=
  C19.xml_balance_order_free_of_sorted C19.put_balance_fixed

/-- `top_amount` does not depend on the hash order. -/
theorem C19.top_amount_order_free : C19.TopAmountOrderFree :=
  C19.top_amount_order_free_of_sorted C19.top_amount_fixed

/-- `reg --collapse --depth N`: the rows do not depend on the accounts' addresses. -/
theorem C19.collapse_order_free : C19.CollapseOrderFree :=
  C19.collapse_order_free_of_fixed C19.collapse_totals_fixed

/-- `prices` / `pricedb`: the groups do not depend on the commodities' addresses. -/
theorem C19.prices_order_free : C19.PricesOrderFree :=
  C19.prices_order_free_of_fixed C19.prices_set_fixed

/-! ### compare_by_commodity on lots: the "only one side has it" branches mirror each other

`sortedAmounts_perm` needs the comparator to be a total order on the lots of one
balance.  For two lots that differ only in the PRESENCE of a detail the two
mirrored branches of the source must answer with opposite signs; otherwise
stable_sort leaves such a pair in hash order.  The return values are read from
commodity.cc on every run (`Gen.lotPresenceReturns`). -/

theorem C19.lot_presence_returns_antisymm :
    ∀ e ∈ Gen.lotPresenceReturns, e.2.1 = - e.2.2 ∧ e.2.1 < 0 := by decide

/-- Two lots equal in symbol, price and date, one with a (tag) and one without: each
    direction of the comparison is the negation of the other and the untagged lot sorts first. -/
theorem C19.compare_lots_tag_presence_antisymm (sym : String) (price : Option Rat) (date : Option Int)
    (t : String) (hann : price.isSome ∨ date.isSome) :
    compareLots ⟨sym, price, date, some t⟩ ⟨sym, price, date, none⟩
      = - compareLots ⟨sym, price, date, none⟩ ⟨sym, price, date, some t⟩
    ∧ compareLots ⟨sym, price, date, none⟩ ⟨sym, price, date, some t⟩ < 0 := by
  have hs : ¬ sym < sym := String.lt_irrefl sym
  have h1 : (presenceRet "tag").1 = -1 := by decide
  have h2 : (presenceRet "tag").2 = 1 := by decide
  cases price <;> cases date <;>
    simp_all [compareLots, Lot.annotated, cmpDetail, Rat.lt_irrefl]

/-- … the same for the presence of a lot date … -/
theorem C19.compare_lots_date_presence_antisymm (sym : String) (price : Option Rat) (d : Int) (tag : Option String)
    (hann : price.isSome ∨ tag.isSome) :
    compareLots ⟨sym, price, some d, tag⟩ ⟨sym, price, none, tag⟩
      = - compareLots ⟨sym, price, none, tag⟩ ⟨sym, price, some d, tag⟩
    ∧ compareLots ⟨sym, price, none, tag⟩ ⟨sym, price, some d, tag⟩ < 0 := by
  have hs : ¬ sym < sym := String.lt_irrefl sym
  have h1 : (presenceRet "date").1 = -1 := by decide
  have h2 : (presenceRet "date").2 = 1 := by decide
  cases price <;> cases tag <;>
    simp_all [compareLots, Lot.annotated, cmpDetail, Rat.lt_irrefl]

/-- … and of a lot price. -/
theorem C19.compare_lots_price_presence_antisymm (sym : String) (p : Rat) (date : Option Int) (tag : Option String)
    (hann : date.isSome ∨ tag.isSome) :
    compareLots ⟨sym, some p, date, tag⟩ ⟨sym, none, date, tag⟩
      = - compareLots ⟨sym, none, date, tag⟩ ⟨sym, some p, date, tag⟩
    ∧ compareLots ⟨sym, none, date, tag⟩ ⟨sym, some p, date, tag⟩ < 0 := by
  have hs : ¬ sym < sym := String.lt_irrefl sym
  have h1 : (presenceRet "price").1 = -1 := by decide
  have h2 : (presenceRet "price").2 = 1 := by decide
  cases date <;> cases tag <;>
    simp_all [compareLots, Lot.annotated, cmpDetail]

/-! ### non-vacuity -/

/-- a three-commodity balance in two hash orders prints the same three lines -/
example : printBalance (fun _ => 2) [⟨3, 0, false, "USD"⟩, ⟨5 / 2, 2, false, "EUR"⟩, ⟨1, 0, false, "AAA"⟩]
    = [("AAA", 1), ("EUR", 5 / 2), ("USD", 3)] := by
  unfold printBalance sortedAmounts
  rw [sortByName_eq_sorted (s := [⟨1, 0, false, "AAA"⟩, ⟨5 / 2, 2, false, "EUR"⟩, ⟨3, 0, false, "USD"⟩]) _
    (by decide +kernel) (by decide) (by decide)]
  decide +kernel
example : printBalance (fun _ => 2) [⟨1, 0, false, "AAA"⟩, ⟨3, 0, false, "USD"⟩, ⟨5 / 2, 2, false, "EUR"⟩]
    = [("AAA", 1), ("EUR", 5 / 2), ("USD", 3)] := by
  unfold printBalance sortedAmounts
  rw [sortByName_eq_sorted (s := [⟨1, 0, false, "AAA"⟩, ⟨5 / 2, 2, false, "EUR"⟩, ⟨3, 0, false, "USD"⟩]) _
    (by decide +kernel) (by decide) (by decide)]
  decide +kernel
/-- finalize: `A 10 AAA / B $-10 / C 5 AAA` gives A and C the costs $6⅔ and $3⅓ in either order -/
example : finalizeCosts (fun _ => 2) "AAA" [⟨15, 0, false, "AAA"⟩, ⟨-10, 2, false, "$"⟩]
    [⟨10, 0, false, "AAA"⟩, ⟨-10, 2, false, "$"⟩, ⟨5, 0, false, "AAA"⟩]
    = some [some ("$", 20 / 3), none, some ("$", 10 / 3)] := by decide +kernel
example : finalizeCosts (fun _ => 2) "AAA" [⟨-10, 2, false, "$"⟩, ⟨15, 0, false, "AAA"⟩]
    [⟨10, 0, false, "AAA"⟩, ⟨-10, 2, false, "$"⟩, ⟨5, 0, false, "AAA"⟩]
    = some [some ("$", 20 / 3), none, some ("$", 10 / 3)] := by decide +kernel
/-- `(2.50 EUR + 3 USD) < 2.50 EUR` in both enumerations: the sorted walk meets EUR first and answers `false` -/
example : Value.lt (.bal [⟨5 / 2, 2, false, "EUR"⟩, ⟨3, 0, false, "USD"⟩]) (.amt ⟨5 / 2, 2, false, "EUR"⟩) = .ok false
    ∧ Value.lt (.bal [⟨3, 0, false, "USD"⟩, ⟨5 / 2, 2, false, "EUR"⟩]) (.amt ⟨5 / 2, 2, false, "EUR"⟩) = .ok false := by
  decide +kernel
/-- subtotal rows of three accounts found in two orders -/
example : emitByName [("Income", 1), ("Assets:Cash", 2), ("Assets", 3)] = [("Assets", 3), ("Assets:Cash", 2), ("Income", 1)]
    ∧ emitByName [("Assets", 3), ("Income", 1), ("Assets:Cash", 2)] = [("Assets", 3), ("Assets:Cash", 2), ("Income", 1)] := by
  unfold emitByName
  exact ⟨sortByName_eq_sorted _ (by decide +kernel) (by decide) (by decide), sortByName_eq_sorted _ (by decide +kernel) (by decide) (by decide)⟩
/-- the pair of the seeded regression: `1 AAA {$5} [2020/01/01] (t)` against the untagged lot -/
example : compareLots ⟨"AAA", some 5, some 18262, some "t"⟩ ⟨"AAA", some 5, some 18262, none⟩ = 1
    ∧ compareLots ⟨"AAA", some 5, some 18262, none⟩ ⟨"AAA", some 5, some 18262, some "t"⟩ = -1 := by decide +kernel
/-- bal > amt on a two-commodity balance: defined, and the same in both orders -/
example : gtAll [⟨2, 0, false, "AAA"⟩, ⟨3, 0, false, "EUR"⟩] (.amt ⟨1, 0, false, "AAA"⟩) = .ok true := by decide +kernel
example : gtAll [⟨3, 0, false, "EUR"⟩, ⟨2, 0, false, "AAA"⟩] (.amt ⟨1, 0, false, "AAA"⟩) = .ok true := by decide +kernel

end Ledger
