/-
C20 — time-clock entries yield the exact elapsed time.

The model is `Timelog.step : State → Event → State × Out` (Model/Timelog.lean),
folded over a file by `readAll` and closed at end of input by `runAll`; it
mirrors timelog.cc 44-197 line by line.  Everything below is for arbitrary
event lists / arbitrary timestamps (no bound), by invariants of `step`.

Tie to the source: `C20.source_pinned` (the bodies of timelog.cc's five
functions, the error messages, the matching chain, the clock-letter dispatch,
the fixed columns of textual.cc's clock directives, the --day-break / --now
plumbing, skip_ws / next_element, re-extracted from the working tree on every
run, are the text this model was written against), `C20.directives_pinned`
(the bodies of the two clock directives), `Gen.Timelog.acctOffsetBounded`
(interpreted), and the differential check tools/props/c20.py.

Modelled behaviour that is called out (DESIGN §5 C20): with exactly one session
open the code closes it whatever account the `o` line names
(`C20.single_open_closes_any`); the matching theorem is therefore stated for
check-outs that name an open account (`C20.match_refines_same_account`) or
none with one session open (`C20.match_accountless_single`).
-/
import LedgerModel.Model.Proto
import LedgerModel.Lemmas.Timelog
import LedgerModel.Gen.Timelog
import LedgerModel.Model.TimelogPinned

namespace Ledger
open Timelog

/-- What the extractor finds in the working tree is what the model mirrors. -/
theorem C20.source_pinned :
    (Gen.Timelog.dtOffset, Gen.Timelog.dtLen, Gen.Timelog.acctOffset, Gen.Timelog.dispatch,
      Gen.Timelog.errorMessages, Gen.Timelog.matchChain, Gen.Timelog.shapes, Gen.Timelog.plumbing) =
    (Pinned.Timelog.dtOffset, Pinned.Timelog.dtLen, Pinned.Timelog.acctOffset, Pinned.Timelog.dispatch,
      Pinned.Timelog.errorMessages, Pinned.Timelog.matchChain, Pinned.Timelog.shapes, Pinned.Timelog.plumbing) := rfl

/-- The two clock directives of textual.cc (column reads, construction of the event, the call
    into `time_log_t`) are the text this model was written against.  (After a repair of the
    column read this theorem must be refreshed, deliberately, with `tools/repin.py Timelog`;
    `Gen.Timelog.acctOffsetBounded` is the interpreted part.) -/
theorem C20.directives_pinned : Gen.Timelog.directives = Pinned.Timelog.directives := rfl

/-! ### one matched pair, one posting, exactly `out − in` seconds, on the check-in day -/

/-- A check-out that is accepted (no `--day-break`) removes exactly one open check-in `o`
    and yields exactly one posting: to `o`'s account, of exactly `e.ts − o.ts` seconds,
    dated on the day of the check-in. -/
theorem C20.checkout_one_posting (st st' : State) (e : Event) (ps : List Posting) (s : Option Session)
    (hk : e.kind = .cout) (h : step false st e = (st', .ok (ps, s))) :
    ∃ o l1 l2, st = l1 ++ o :: l2 ∧ st' = l1 ++ l2 ∧ o.ts ≤ e.ts ∧
      s = some ⟨o.acct, o.ts, e.ts⟩ ∧
      ps = [{ day := dayOf o.ts, acct := o.acct, secs := e.ts - o.ts, payee := payeeOf o e,
              code := codeOf o e, cleared := e.completed, tin := o.ts, tout := e.ts }] := by
  simp only [step, hk, clockOut] at h
  split at h
  · simp at h
  · rename_i o rest hm
    obtain ⟨l1, l2, h1, h2⟩ := matchOut_split st e.acct o rest hm
    split at h
    · simp at h
    · rename_i hlt
      simp only [Prod.mk.injEq, Except.ok.injEq] at h
      obtain ⟨rfl, rfl, rfl⟩ := h
      exact ⟨o, l1, l2, h1, h2, by omega, rfl, rfl⟩

/-- A check-in produces no posting; it only extends the open list. -/
theorem C20.checkin_no_posting (db : Bool) (st st' : State) (e : Event) (ps : List Posting) (s : Option Session)
    (hk : e.kind = .cin) (h : step db st e = (st', .ok (ps, s))) :
    ps = [] ∧ s = none ∧ ∃ a, e.acct = some a ∧ st' = st ++ [⟨a, e.ts, e.desc⟩] ∧ ∀ o ∈ st, o.acct ≠ a := by
  simp only [step, hk, clockIn] at h
  split at h
  · simp at h
  · rename_i a ha
    split at h
    · simp at h
    · rename_i hany
      simp only [Prod.mk.injEq, Except.ok.injEq] at h
      obtain ⟨rfl, rfl, rfl⟩ := h
      refine ⟨rfl, rfl, a, ha, rfl, ?_⟩
      intro o ho hoa
      exact hany (List.any_eq_true.mpr ⟨o, ho, by simp [hoa]⟩)

/-- **Session seconds are exact** (whole files, no `--day-break`): the postings ledger holds
    after reading any event list and closing at `now` are, in order, one per matched
    check-in/check-out pair: to that pair's account, dated on the check-in day, of exactly
    `out − in` seconds. -/
theorem C20.session_seconds_exact (evs : List Event) (now : Int) :
    (runAll false evs now).posts.map Posting.key = (runAll false evs now).sess.map Session.key := by
  have hstep : ∀ st e, (outPosts (step false st e).2).map Posting.key = (outSess (step false st e).2).map Session.key := by
    intro st e
    unfold step
    split
    · unfold clockIn; split
      · rfl
      · split <;> rfl
    · unfold clockOut; split
      · rfl
      · split
        · rfl
        · simp [outPosts, outSess, mkPosts, mkPost, Posting.key, Session.key]
  have hread : (readAll false evs).posts.map Posting.key = (readAll false evs).sess.map Session.key := by
    unfold readAll
    refine foldl_inv (accStep false) (fun acc => acc.posts.map Posting.key = acc.sess.map Session.key) ?_ evs {} rfl
    intro b x hb
    simp only [accStep, List.map_append, hb, hstep]
  have hclose : ∀ (as : List String) (st : State) (ps : List Posting) (ss : List Session),
      ps.map Posting.key = ss.map Session.key →
      (closeLoop false now as st ps ss).2.1.map Posting.key = (closeLoop false now as st ps ss).2.2.1.map Session.key := by
    intro as
    induction as with
    | nil => intro st ps ss h; exact h
    | cons x xs ih =>
      intro st ps ss h
      unfold closeLoop
      have hc := hstep st (closeEvent now x)
      simp only [step, closeEvent] at hc
      split
      · rename_i st' r heq
        apply ih
        simp only [closeEvent] at heq
        rw [heq] at hc
        simp only [outPosts] at hc
        simp only [List.map_append, h, hc]
      · exact h
  exact hclose _ _ _ _ hread

/-! ### `--day-break` -/

/-- **The day-break split.**  For a session `[in, out]`, `in ≤ out`, the pieces made by the
    loop of timelog.cc 134-157: (1) sum to exactly `out − in`; (2) are all on the session's
    account, each of positive length `tout − tin`, dated on the day of its own beginning, and
    lying within that one calendar day (`[tin, tout − 1]` is on day `p.day`; a piece may end
    exactly on the midnight that ends its day); (3) are dated on the consecutive days
    `day(in), day(in)+1, …, day(out − 1)`, one piece per day touched; (4) an empty session
    (`out = in`) yields no piece at all. -/
theorem C20.daybreak_sum (o : Open) (e : Event) (h : o.ts ≤ e.ts) :
    sumSecs (mkPosts true o e) = e.ts - o.ts ∧
    (∀ p ∈ mkPosts true o e,
        p.acct = o.acct ∧ p.secs = p.tout - p.tin ∧ 0 < p.secs ∧ p.secs ≤ 86400 ∧
        p.day = dayOf p.tin ∧ dayOf (p.tout - 1) = p.day ∧ o.ts ≤ p.tin ∧ p.tout ≤ e.ts) ∧
    (o.ts < e.ts →
        (mkPosts true o e).map (·.day) = daysFrom (dayOf o.ts) ((dayOf (e.ts - 1) - dayOf o.ts).toNat + 1)) ∧
    (o.ts = e.ts → mkPosts true o e = []) := by
  refine ⟨mkPosts_sum true o e h, ?_, ?_, ?_⟩
  · intro p hp
    simp only [mkPosts, if_true] at hp
    obtain ⟨s, t, rfl, hs, hst, ht, hto⟩ := dayBreak_forall (mkPost o e) e.ts o.ts p hp
    have := daysEnd_le s
    refine ⟨rfl, rfl, ?_, ?_, rfl, ?_, hs, hto⟩
    · simp only [mkPost]; omega
    · simp only [mkPost]; omega
    · simp only [mkPost]; exact dayOf_pred_of_le_daysEnd hst ht
  · intro hlt
    simp only [mkPosts, if_true]
    exact dayBreak_days (mkPost o e) (fun _ _ => rfl) e.ts o.ts hlt
  · intro heq
    simp only [mkPosts, if_true]
    exact dayBreak_nil_of_not_lt _ (by omega)

/-- **The loop terminates**: its measure is `out − begin` (a natural number while the loop
    runs); every iteration that does not leave the loop replaces `begin` by the next
    midnight, which is strictly later, so the measure strictly decreases.  (This is the
    obligation Lean discharged to accept `Timelog.dayBreak`.) -/
theorem C20.daybreak_terminates (b out : Int) (h1 : b < out) (h2 : ¬ out ≤ daysEnd b) :
    b < daysEnd b ∧ (out - daysEnd b).toNat < (out - b).toNat := by
  have := daysEnd_gt b
  exact ⟨this, by omega⟩

/-! ### an account's time is the sum of its sessions -/

/-- **For every event list, with or without `--day-break`, and every account: the account's
    reported time equals the sum of the lengths of its sessions.** -/
theorem C20.account_time_eq_sum_sessions (db : Bool) (evs : List Event) (now : Int) (a : String) :
    acctTotal a (runAll db evs now).posts = sessTotal a (runAll db evs now).sess := by
  simp only [runAll]
  exact closeLoop_total db now a _ _ _ _ (readAll_total db evs a)

/-- **Sessions are the matched pairs of the input**: every session that is counted begins
    at a check-in line of the file for that same account and ends at a check-out line of the
    file (or at `now`, for sessions still open at end of input), and never has negative length. -/
theorem C20.sessions_from_events (db : Bool) (evs : List Event) (now : Int) :
    ∀ s ∈ (runAll db evs now).sess,
      s.tin ≤ s.tout ∧
      (∃ e ∈ evs, e.kind = .cin ∧ e.acct = some s.acct ∧ e.ts = s.tin) ∧
      ((∃ e ∈ evs, e.kind = .cout ∧ e.ts = s.tout) ∨ s.tout = now) := by
  intro s hs
  have hb := closeLoop_backed db now evs ((readAll db evs).st.map (·.acct)) (readAll db evs).st
    (readAll db evs).posts (readAll db evs).sess (backed_now evs now _ _ (readAll_backed db evs))
  obtain ⟨a, b, c⟩ := hb.2 s hs
  refine ⟨a, b, ?_⟩
  rcases c with c | c
  · exact Or.inl c
  · exact Or.inr (by simpa using c.symm)

/-- **`--day-break` changes nothing but the splitting**: the same sessions are matched, the same
    lines are rejected, and every account's reported time is the same with and without it. -/
theorem C20.daybreak_same_sessions (evs : List Event) (now : Int) :
    (runAll true evs now).sess = (runAll false evs now).sess ∧
    (runAll true evs now).errs = (runAll false evs now).errs ∧
    (runAll true evs now).closeErr = (runAll false evs now).closeErr ∧
    ∀ a, acctTotal a (runAll true evs now).posts = acctTotal a (runAll false evs now).posts := by
  have hcore : (readAll true evs).core = (readAll false evs).core := foldl_core evs {} {} rfl
  simp only [Acc.core, Prod.mk.injEq] at hcore
  obtain ⟨hst, hss, her, _⟩ := hcore
  have hcl := closeLoop_core now ((readAll false evs).st.map (·.acct)) (readAll false evs).st
    (readAll true evs).posts (readAll false evs).posts (readAll false evs).sess
  have hsess : (runAll true evs now).sess = (runAll false evs now).sess := by
    simp only [runAll, hst, hss]; rw [hcl.2]
  refine ⟨hsess, by simp only [runAll, her], ?_, ?_⟩
  · simp only [runAll, hst, hss]; rw [hcl.2]
  · intro a
    rw [C20.account_time_eq_sum_sessions, C20.account_time_eq_sum_sessions, hsess]

/-! ### the malformed kinds are errors -/

/-- **The three malformed kinds are errors** (whatever else is on the line, in both modes):
    (1) a check-out with nothing open; (2) a second check-in to an account that is open;
    (3) a check-out earlier than the check-in it is matched with (the session is consumed
    all the same, timelog.cc 86/104 before 118). -/
theorem C20.errors (db : Bool) :
    (∀ e, e.kind = .cout → step db [] e = ([], .error .outNoIn)) ∧
    (∀ st e a, e.kind = .cin → e.acct = some a → (∃ o ∈ st, o.acct = a) →
        step db st e = (st, .error .doubleIn)) ∧
    (∀ st e o rest, e.kind = .cout → matchOut st e.acct = .ok (o, rest) → e.ts < o.ts →
        step db st e = (rest, .error .outBeforeIn)) := by
  refine ⟨?_, ?_, ?_⟩
  · intro e hk
    simp [step, hk, clockOut, matchOut]
  · intro st e a hk ha ⟨o, ho, hoa⟩
    have : st.any (fun o => o.acct = a) = true := List.any_eq_true.mpr ⟨o, ho, by simp [hoa]⟩
    simp [step, hk, clockIn, ha, this]
  · intro st e o rest hk hm hlt
    simp [step, hk, clockOut, hm, hlt]

/-- Two further rejected check-outs: several sessions open and no account on the line;
    several sessions open and an account that is not open. -/
theorem C20.errors_unmatched (db : Bool) (o1 o2 : Open) (os : List Open) (e : Event) (hk : e.kind = .cout) :
    (e.acct = none → step db (o1 :: o2 :: os) e = (o1 :: o2 :: os, .error .needAccount)) ∧
    (∀ a, e.acct = some a → (∀ o ∈ o1 :: o2 :: os, o.acct ≠ a) →
        step db (o1 :: o2 :: os) e = (o1 :: o2 :: os, .error .noMatch)) := by
  refine ⟨?_, ?_⟩
  · intro ha
    simp [step, hk, clockOut, matchOut, ha]
  · intro a ha hno
    simp [step, hk, clockOut, matchOut, ha, takeAcct_none a _ hno]

/-- **Errors are reported and nothing is printed**: if the line after any prefix `pre` is
    rejected, the error is recorded with that line's number and the run shows no register
    rows at all (ledger's exit status is then non-zero). -/
theorem C20.errors_reported (db : Bool) (pre post : List Event) (e : Event) (now : Int) (k : Timelog.Err)
    (h : (step db (readAll db pre).st e).2 = .error k) :
    (pre.length + 1, k) ∈ (runAll db (pre ++ e :: post) now).errs ∧
    (runAll db (pre ++ e :: post) now).rows = none := by
  have hmem : (pre.length + 1, k) ∈ (readAll db (pre ++ e :: post)).errs := by
    rw [readAll_append, List.foldl_cons]
    apply foldl_errs_mono
    simp only [accStep, h, outErrs, readAll_line, List.mem_append, List.mem_singleton, or_true]
  refine ⟨hmem, ?_⟩
  simp only [Result.rows, runAll]
  have : (readAll db (pre ++ e :: post)).errs.isEmpty = false := by
    cases hl : (readAll db (pre ++ e :: post)).errs with
    | nil => rw [hl] at hmem; cases hmem
    | cons _ _ => rfl
  simp [this]

/-! ### the matching rule -/

/-- Invariant of `step`: no account is open twice. -/
theorem C20.open_accounts_nodup (db : Bool) (evs : List Event) :
    ((readAll db evs).st.map (·.acct)).Nodup := by
  unfold readAll
  refine foldl_inv (accStep db) (fun acc => (acc.st.map (·.acct)).Nodup) ?_ evs {} (by simp)
  intro b x hb
  exact step_nodup db b.st x hb

/-- **Matching refines "the open check-in of the same account"**, under the explicit guard
    that the check-out names an account that is open (`hopen`): the session that is closed
    is the open check-in `o` of exactly that account, and exactly it leaves the open list.
    (`hnd` is the invariant `C20.open_accounts_nodup`.) -/
theorem C20.match_refines_same_account (st : State) (hnd : (st.map (·.acct)).Nodup)
    (a : String) (o : Open) (ho : o ∈ st) (hopen : o.acct = a) :
    matchOut st (some a) = .ok (o, st.filter (fun x => x.acct ≠ a)) := by
  match st, hnd, ho with
  | [], _, ho => cases ho
  | [x], _, ho =>
    simp only [List.mem_singleton] at ho
    subst ho
    simp [matchOut, hopen]
  | x1 :: x2 :: xs, hnd, ho =>
    simp only [matchOut]
    rw [takeAcct_of_nodup a _ o hnd ho hopen]

/-- … and a check-out without an account, with exactly one session open, closes that one. -/
theorem C20.match_accountless_single (o : Open) : matchOut [o] none = .ok (o, []) := rfl

/-- The consequence for the postings: under the guard, every posting of an accepted
    check-out naming `a` is on account `a`, and the rejected case is `out < in`. -/
theorem C20.checkout_posts_same_account (db : Bool) (st : State) (hnd : (st.map (·.acct)).Nodup)
    (e : Event) (hk : e.kind = .cout) (a : String) (ha : e.acct = some a) (o : Open) (ho : o ∈ st) (hopen : o.acct = a) :
    (step db st e).1 = st.filter (fun x => x.acct ≠ a) ∧
    (e.ts < o.ts → (step db st e).2 = .error .outBeforeIn) ∧
    (o.ts ≤ e.ts → ∃ ps, (step db st e).2 = .ok (ps, some ⟨a, o.ts, e.ts⟩) ∧ (∀ p ∈ ps, p.acct = a) ∧
        sumSecs ps = e.ts - o.ts) := by
  have hm := C20.match_refines_same_account st hnd a o ho hopen
  simp only [step, hk, clockOut, ha, hm]
  refine ⟨by split <;> rfl, ?_, ?_⟩
  · intro hlt; simp [hlt]
  · intro hle
    have : ¬ e.ts < o.ts := by omega
    simp only [this, if_false]
    refine ⟨mkPosts db o e, by rw [hopen], ?_, mkPosts_sum db o e hle⟩
    intro p hp; rw [mkPosts_acct db o e p hp, hopen]

/-- The modelled behaviour outside the guard (timelog.cc 84-87): with exactly one session
    open, a check-out closes it **whatever account it names**. -/
theorem C20.single_open_closes_any (o : Open) (acct : Option String) : matchOut [o] acct = .ok (o, []) := rfl

/-! ### the account field is read at a fixed column (textual.cc 471, 500) -/

/-- Full statement: the account a clock line designates is a function of the line alone. -/
def C20.AcctFieldFromLine (off : Nat) (bounded : Bool) : Prop :=
  ∀ line s1 s2 : List Char, readAcctAt off bounded line s1 = readAcctAt off bounded line s2

/-- It holds for the repaired read (offset limited by the length of the line). -/
theorem C20.acct_field_from_line_bounded (off : Nat) : C20.AcctFieldFromLine off true := by
  intro line s1 s2
  simp only [readAcctAt, if_true]
  exact readFrom_indep _ line s1 s2 (Nat.min_le_right ..)

/-- It fails for the unbounded read at column 22 — witness: the 21-character line
    `o 2020/01/01 11:00:00` designates `A` or `B` depending on what an earlier line left
    behind its terminator. -/
theorem C20.acct_field_from_line_fails_unbounded : ¬ C20.AcctFieldFromLine 22 false := by
  intro h
  have := h "o 2020/01/01 11:00:00".toList "A".toList "B".toList
  revert this
  decide

/-- What is provable for the code as extracted (`Gen.Timelog.acctOffset`,
    `Gen.Timelog.acctOffsetBounded`): the account field depends on the line alone
    whenever the read is bounded **or** the line reaches the fixed column. -/
theorem C20.acct_field_from_line_partial (line s1 s2 : List Char)
    (guard : Gen.Timelog.acctOffsetBounded = true ∨ Gen.Timelog.acctOffset ≤ line.length) :
    readAcctAt Gen.Timelog.acctOffset Gen.Timelog.acctOffsetBounded line s1 =
    readAcctAt Gen.Timelog.acctOffset Gen.Timelog.acctOffsetBounded line s2 := by
  generalize Gen.Timelog.acctOffsetBounded = b at *
  generalize Gen.Timelog.acctOffset = off at *
  cases b with
  | true => exact C20.acct_field_from_line_bounded off line s1 s2
  | false =>
    have hk : off ≤ line.length := by
      rcases guard with h | h
      · cases h
      · exact h
    simp only [readAcctAt]
    exact readFrom_indep off line s1 s2 hk

/-- A line that carries an account at the fixed column: the text read is that account
    (up to the first TAB / double space), whatever follows the terminator. -/
theorem C20.acct_field_reads_line (s : List Char) :
    readAcctAt 22 false ("o 2020/01/01 11:00:00 Proj:x  payee".toList) s = "Proj:x".toList := by
  simp only [readAcctAt, Bool.false_eq_true, if_false]
  rw [readFrom_indep 22 _ s [] (by decide)]
  decide

/-! ### non-vacuity -/

/-- 2020-02-28 23:59:59 → 2020-03-01 00:00:00 (leap day in between), no `--day-break`:
    one posting of 86401 s on day 18320 = 2020-02-28. -/
example :
    (runAll false [⟨.cin, false, 1582934399, (some "C"), ""⟩, ⟨.cout, true, 1583020800, none, ""⟩] 1583107200).rows =
      some [{ day := 18320, acct := "C", secs := 86401, payee := "", code := "", cleared := true,
              tin := 1582934399, tout := 1583020800 }] := by decide

example : Cal.toYMD 18320 = (2020, 2, 28) ∧ Cal.toYMD 18321 = (2020, 2, 29) ∧ Cal.toYMD 18322 = (2020, 3, 1) := by decide

/-- the same session under `--day-break`: 1 s on 02-28 and 86400 s on 02-29, nothing on 03-01. -/
example :
    (mkPosts true ⟨"C", 1582934399, ""⟩ (⟨.cout, true, 1583020800, none, ""⟩)).map (fun p => (p.day, p.secs)) =
      [(18320, 1), (18321, 86400)] := by
  simp only [mkPosts, if_true]
  rw [dayBreak_unfold, if_pos (by decide), if_neg (by decide),
      dayBreak_unfold, if_pos (by decide), if_pos (by decide)]
  decide

/-- the three malformed kinds and the account-less check-out with two sessions open, in one file -/
example :
    (runAll false [⟨.cout, false, 10, (some "A"), ""⟩, ⟨.cin, false, 20, (some "A"), ""⟩, ⟨.cin, false, 30, (some "A"), ""⟩,
                   ⟨.cout, false, 5, (some "A"), ""⟩, ⟨.cin, false, 40, (some "A"), ""⟩, ⟨.cin, false, 50, (some "B"), ""⟩,
                   ⟨.cout, false, 60, none, ""⟩] 100).errs =
      [(1, .outNoIn), (3, .doubleIn), (4, .outBeforeIn), (7, .needAccount)] := by decide

/-- hypotheses of `match_refines_same_account` are satisfiable with several sessions open -/
example : matchOut [⟨"A", 1, ""⟩, ⟨"B", 2, ""⟩, ⟨"C", 3, ""⟩] (some "B") = .ok (⟨"B", 2, ""⟩, [⟨"A", 1, ""⟩, ⟨"C", 3, ""⟩]) := by
  decide

/-- the guard of `acct_field_from_line_partial` is satisfiable / its second disjunct is what holds today -/
example : Gen.Timelog.acctOffset ≤ ("o 2020/01/01 11:00:00 A".toList).length := by decide

end Ledger
