/-
MODEL COHERENCE — the independently written fragments of the same C++ routines
agree on their common domain.  For ALL inputs (no size bound); every guard is an
explicit decidable predicate on the parsed postings (Lemmas/CoherenceCore.lean).

1. `xact_base_t::finalize` (xact.cc 158-423) exists four times:
     `FinX.finalize`      Model/Finalize.lean   C01/C02
     `AutoXact.finalize`  Model/AutoXact.lean   C16
     `Assert.finalize`    Model/Assert.lean     C09
     `OF.finalize`        Model/OrderFree.lean  C08  (`acceptNoNull`, `inferred`, `stepX`)
   Results are compared as `Coh.Verdict`s — accepted with the finalised postings
   as `Coh.Row`s (account, kind, exact amount incl. precision counter and flag) /
   unbalanced / two nulls / null left — through the translations `Coh.verdictFin`,
   `verdictAuto`, `verdictAssert`, `verdictOF`, `Row.toAssert` (kind ↦ POST_VIRTUAL),
   `Row.toOF` (kind forgotten, date stamped).  FinX, AutoXact and OF keep the
   posting order; Assert appends the filled-in elided posting last, so it is
   compared up to a permutation (`Verdict.PermEq`).

   Guards (each shown NECESSARY below by a `decide`d witness on which the models
   differ; `tools/coherence_run.py` replays the witnesses on the real binary):
     `noVirtNull`     no `(virtual)` posting with an elided amount
     `someAmount`     not the all-null transaction            (AutoXact, Assert only)
     `noKeepAmt`      posting amounts carry no keep-precision flag   (FinX only)
     `noKeepCost`     cost amounts are handed over without the flag  (Assert only)
     `costHasAmount`  a cost only on a posting with an amount        (FinX only)
     `costOtherComm`  cost commodity ≠ amount commodity              (FinX only)
     `exchangeGuard`  in the implied two-commodity exchange the amounts are exact
                      decimals at their display precision            (FinX only)
     `noCostAssert`, `impliedCase = false`    AutoXact compared on the no-cost fragment only
                      (with a cost it annotates the amount with a lot, which the others do not model)
     `noLotAmt`, `noLotCost`   unannotated commodities (`Coh.plain`: no `{` in the symbol).  C01/C02
                      and C16 model lots (each in its own encoding), C08/C09 do not; on plain symbols
                      `FinX.commLe` is the plain symbol order (`COH.commLe_plain`), `FinX.liftEnv` is
                      the identity, and the lot FinX computes for a posting with a cost has the
                      posting's commodity as base (`COH.lotBase_annotate`), which is what a row keeps
2. with costs: the per-posting contribution to the residual and the residual
   balance per commodity agree in FinX / OF / Assert with NO guard
   (`cost_contribution_agree`, `cost_residual_agree`); as `Value`s under the flag guards;
   the lot a posting with a cost is annotated with agrees between FinX (`lotStep`) and
   AutoXact (`annotateCost`) in price quantity, price commodity and base symbol
   (`cost_lot_agree`).
3. per-account per-commodity sums: C05 `Reports`, C08 `OF`, C17 `Regroup` denote
   the same `Coh.jsum`.
   The four re-statements of `add_or_set_value` are one function, precision counters
   included (`add_or_set_value_agree`, `ownBalance_is_value_sum`).
4. every re-statement of the display-zero test is `Amount.isZero`.
-/
import LedgerModel.Lemmas.CoherenceCost
import LedgerModel.Lemmas.CoherenceSums
import LedgerModel.Model.Expr

namespace Ledger
open Coh

/-! ## 1. finalize: the four models -/

/-- C08 refines C01/C02: on the common domain `OF.finalize` returns exactly the
    verdict of `FinX.finalize` (no bucket, any enumeration of the hash map) on the
    lifted plain transaction, the rows in the same order with the posting kind
    forgotten (and, for a posting with a cost, the base commodity of the lot FinX
    computes).  Costs included. -/
theorem COH.finx_of_agree (env : PrecEnv) (enum : Balance → Balance) (henum : ∀ b, (enum b).Perm b)
    (x : Xact) (hk : noKeepAmt x.posts = true) (hvn : noVirtNull x.posts = true)
    (hco : costOtherComm x.posts = true) (hca : costHasAmount x.posts = true)
    (hla : noLotAmt x.posts = true) (hlc : noLotCost x.posts = true)
    (hg : exchangeGuard env x.posts = true) :
    verdictOF (OF.finalize env x.date x.posts)
      = (verdictFin (FinX.finalize env none enum (FinX.LXact.ofXact x))).map (Row.toOF x.date) := by
  rw [of_eq_ref env x.date x.posts hvn]
  exact congrArg _ (finalize_eq_ref' env enum henum x hk hvn hco hca hla hlc hg).symm

/-- C09 refines C01/C02 (kinds reduced to POST_VIRTUAL, rows up to order).  Costs included. -/
theorem COH.finx_assert_agree (cx : Assert.Ctx) (enum : Balance → Balance) (henum : ∀ b, (enum b).Perm b)
    (x : Xact) (hk : noKeepAmt x.posts = true) (hkc : noKeepCost x.posts = true)
    (hvn : noVirtNull x.posts = true) (hsa : someAmount x.posts = true)
    (hco : costOtherComm x.posts = true) (hca : costHasAmount x.posts = true)
    (hla : noLotAmt x.posts = true) (hlc : noLotCost x.posts = true)
    (hg : exchangeGuard cx.env x.posts = true) :
    (verdictAssert (Assert.finalize cx x.posts)).PermEq
      ((verdictFin (FinX.finalize cx.env none enum (FinX.LXact.ofXact x))).map Row.toAssert) := by
  have h := assert_eq_ref cx x.posts hvn hsa hkc
  rw [← finalize_eq_ref' cx.env enum henum x hk hvn hco hca hla hlc hg] at h
  exact h

theorem COH.noCost_guards (ps : List Posting) (h : noCostAssert ps = true) :
    costOtherComm ps = true ∧ costHasAmount ps = true := by
  have hc := noCost_of ps h
  unfold noCost at hc
  unfold costOtherComm costHasAmount
  constructor
  · rw [List.all_eq_true] at hc ⊢
    intro p hp
    have := hc p hp
    cases hpc : p.cost with
    | none => cases p.amount <;> rfl
    | some _ => rw [hpc] at this; cases this
  · rw [List.all_eq_true] at hc ⊢
    intro p hp
    have := hc p hp
    cases hpc : p.cost with
    | none => rfl
    | some _ => rw [hpc] at this; cases this

/-- C16 refines C01/C02: wherever `AutoXact.finalize` does not answer
    `unsupported` (no cost/assertion, no implied exchange) it returns exactly the
    verdict and the rows — account, kind, exact amount, in order — of `FinX.finalize`. -/
theorem COH.finx_autoxact_agree (env : PrecEnv) (enum : Balance → Balance) (henum : ∀ b, (enum b).Perm b)
    (x : Xact) (hca : noCostAssert x.posts = true) (hk : noKeepAmt x.posts = true)
    (hlot : noLotAmt x.posts = true)
    (hvn : noVirtNull x.posts = true) (hsa : someAmount x.posts = true)
    (himp : impliedCase env x.posts = false) :
    verdictAuto (AutoXact.finalize env x)
      = verdictFin (FinX.finalize env none enum (FinX.LXact.ofXact x)) := by
  rw [auto_eq_ref env x hca hk hlot hvn hsa himp]
  obtain ⟨h1, h2⟩ := COH.noCost_guards x.posts hca
  exact (finalize_eq_ref' env enum henum x hk hvn h1 h2 hlot
    (noLotCost_of_noCost x.posts (noCost_of x.posts hca)) (by unfold exchangeGuard; rw [himp]; rfl)).symm

/-- C16 and C08 agree. -/
theorem COH.autoxact_of_agree (env : PrecEnv) (x : Xact) (hca : noCostAssert x.posts = true)
    (hk : noKeepAmt x.posts = true) (hlot : noLotAmt x.posts = true)
    (hvn : noVirtNull x.posts = true) (hsa : someAmount x.posts = true)
    (himp : impliedCase env x.posts = false) :
    verdictOF (OF.finalize env x.date x.posts)
      = (verdictAuto (AutoXact.finalize env x)).map (Row.toOF x.date) := by
  rw [of_eq_ref env x.date x.posts hvn, auto_eq_ref env x hca hk hlot hvn hsa himp]

/-- C16 and C09 agree. -/
theorem COH.autoxact_assert_agree (cx : Assert.Ctx) (x : Xact) (hca : noCostAssert x.posts = true)
    (hk : noKeepAmt x.posts = true) (hlot : noLotAmt x.posts = true)
    (hvn : noVirtNull x.posts = true) (hsa : someAmount x.posts = true)
    (himp : impliedCase cx.env x.posts = false) :
    (verdictAssert (Assert.finalize cx x.posts)).PermEq
      ((verdictAuto (AutoXact.finalize cx.env x)).map Row.toAssert) := by
  have hkc : noKeepCost x.posts = true := by
    have hc := noCost_of x.posts hca
    unfold noCost at hc
    unfold noKeepCost
    rw [List.all_eq_true] at hc ⊢
    intro p hp
    have := hc p hp
    cases hpc : p.cost with
    | none => rfl
    | some _ => rw [hpc] at this; cases this
  rw [auto_eq_ref cx.env x hca hk hlot hvn hsa himp]
  exact assert_eq_ref cx x.posts hvn hsa hkc

/-- C08 and C09 agree, costs and the implied exchange included: both are the
    image of one verdict over rows. -/
theorem COH.of_assert_agree (cx : Assert.Ctx) (date : Int) (ps : List Posting)
    (hvn : noVirtNull ps = true) (hsa : someAmount ps = true) (hkc : noKeepCost ps = true) :
    ∃ v : Verdict Coh.Row, verdictOF (OF.finalize cx.env date ps) = v.map (Row.toOF date) ∧
      (verdictAssert (Assert.finalize cx ps)).PermEq (v.map Row.toAssert) :=
  ⟨Coh.ref cx.env ps, of_eq_ref cx.env date ps hvn, assert_eq_ref cx ps hvn hsa hkc⟩

/-- `OF.stepX` of a plain transaction (no `= AMOUNT`) is reading the postings
    followed by `OF.finalize` under the precisions learned so far: the theorems
    above carry over to C08's journal step. -/
theorem COH.stepX_is_finalize (st : OF.State) (x : OF.WXact) (ps : List Posting) (pool : OF.Pool)
    (hr : OF.readPosts st.pool x.posts = .ok (ps, pool)) (hplain : ∀ q ∈ ps, q.assert = none) :
    OF.stepX st x = (OF.finalize pool.precEnv x.date ps).map
      (fun es => { st with pool := pool, entries := st.entries ++ es }) :=
  stepX_eq st x ps pool hr hplain

/-- The guards `noKeepAmt` and `exchangeGuard` hold for every transaction as the
    journal reader produces it: amounts written as decimals, flag clear, the
    display precision raised to cover them (`FinX.observe`, amount.cc 1190-1195). -/
theorem COH.reader_amounts_exact (env : PrecEnv) (x : Xact)
    (hdec : ∀ p ∈ x.posts, ∀ a, p.amount = some a → FinX.Decimal a) :
    ∀ p ∈ x.posts, ∀ a, p.amount = some a → FinX.Exact (FinX.observe env (FinX.LXact.ofXact x)) a :=
  fun p hp a ha => FinX.exact_of_decimal _ a (hdec p hp a ha)
    (FinX.observe_covers env (FinX.LXact.ofXact x) ⟨p, none⟩ a
      (by unfold FinX.LXact.ofXact; exact List.mem_map.2 ⟨p, hp, rfl⟩) ha)

/-- THE coincidence lemma behind the guard `noLotAmt`: on unannotated commodities
    `commodity_t::compare_by_commodity` as C01/C02 models it (`FinX.commLe`: base
    symbol, price, date, tag) is the plain order of the symbols that C08, C09 and
    (on base symbols) C16 sort by. -/
theorem COH.commLe_plain (a b : Comm) (ha : plain a = true) (hb : plain b = true) :
    FinX.commLe a b = decide (a ≤ b) := Coh.commLe_plain a b ha hb

/-- … and the computed lot annotation `BASE{price}[date]` has base symbol `BASE`
    (what `rowOfFin` projects to). -/
theorem COH.lotBase_annotate (c : Comm) (pu : Amount) (date : String) (h : plain c = true) :
    FinX.lotBase (FinX.annotate c pu date) = c := Coh.lotBase_annotate c pu date h

/-- The display precision the zero test reads is learned the same way in C16's
    journal (`PrecTable.bumpAll` over the transaction's amounts) and in C01/C02's
    (`FinX.observe`), for every commodity but the null one (which `Amount.isZero`
    never looks up); without lot annotations (C16 files a lot under its base symbol). -/
theorem COH.prec_env_agree (t : AutoXact.PrecTable) (x : Xact) (c : Comm) (hc : c ≠ "")
    (hcl : plain c = true) (hl : noLotAmt x.posts = true) :
    (t.bumpAll (x.posts.filterMap (·.amount))).get c = FinX.observe t.get (FinX.LXact.ofXact x) c := by
  have hl' := noLotAmt_mem x.posts hl
  have hbc := baseComm_of_plain c hcl
  unfold AutoXact.PrecTable.bumpAll FinX.observe FinX.LXact.ofXact
  simp only [List.foldl_map]
  generalize x.posts = ps at hl'
  induction ps generalizing t with
  | nil => rfl
  | cons p ps ih =>
    have hl'' : ∀ q ∈ ps, ∀ a, q.amount = some a → plain a.comm = true :=
      fun q hq => hl' q (List.mem_cons_of_mem _ hq)
    cases ha : p.amount with
    | none =>
      simp only [List.filterMap_cons, ha, List.foldl_cons]
      exact ih t hl''
    | some a =>
      have hba := baseComm_of_plain a.comm (hl' p List.mem_cons_self a ha)
      simp only [List.filterMap_cons, ha, List.foldl_cons]
      rw [ih _ hl'']
      congr 1
      unfold AutoXact.PrecTable.bump
      by_cases hh : a.hasComm = true
      · rw [if_pos hh]
        by_cases hac : a.comm = c
        · subst hac
          simp [AutoXact.PrecTable.get, List.lookup, Nat.max_comm, hba]
        · have hca : (c == a.comm) = false := by
            simp only [beq_eq_false_iff_ne, ne_eq]; exact fun e => hac e.symm
          simp [AutoXact.PrecTable.get, List.lookup, hac, hca, hba, hbc]
      · rw [if_neg hh]
        have : a.comm = "" := by simpa [Amount.hasComm] using hh
        have hac : ¬ a.comm = c := by rw [this]; exact fun e => hc e.symm
        simp [hac]

/-! ### the guards are necessary: concrete disagreements between the models -/

private def eur (n : Int) (d : Nat) : Amount := { q := mkRat n (10 ^ d), prec := d, keep := false, comm := "EUR" }
private def usd (n : Int) (d : Nat) : Amount := { q := mkRat n (10 ^ d), prec := d, keep := false, comm := "USD" }
private def bare (n : Int) : Amount := { q := n, prec := 0, keep := false, comm := "" }
private def mkPost (acct : String) (k : PostKind) (a : Option Amount) (c : Option Cost) : Posting :=
  { account := acct, kind := k, state := 0, amount := a, cost := c, assert := none, note := "", line := 0 }
private def mkX (ps : List Posting) : Xact :=
  { date := 18000, aux := none, state := 0, code := "", payee := "p", note := "", posts := ps, line := 1, endLine := 3 }
private def env2 : PrecEnv := fun c => if c = "EUR" ∨ c = "USD" then 2 else 0
private def cx2 : Assert.Ctx := { env := env2, permissive := false }

/-- FINDING 1 (`someAmount`).  `2020/01/01 p⏎  A` — one posting, amount elided.
    ledger drops the transaction silently (finalize returns false, xact.cc 413-414);
    so do FinX and OF; AutoXact and Assert report an error. -/
private def wAllNull : Xact := mkX [mkPost "A" .real none none]
theorem COH.witness_all_null :
    verdictFin (FinX.finalize env2 none id (FinX.LXact.ofXact wAllNull)) = .accepted [] ∧
    verdictOF (OF.finalize env2 0 wAllNull.posts) = .accepted [] ∧
    verdictAuto (AutoXact.finalize env2 wAllNull) = .nullLeft ∧
    verdictAssert (Assert.finalize cx2 wAllNull.posts) = .nullLeft := by decide +kernel

/-- FINDING 2 (`costOtherComm`).  `A 10.00 EUR @ 1.00 EUR⏎ B -10.00 EUR`: ledger throws
    "A posting's cost must be of a different commodity than its amount" (xact.cc
    288-294); only FinX has the check, OF and Assert accept. -/
private def wSameComm : Xact :=
  mkX [mkPost "A" .real (some (eur 1000 2)) (some ⟨eur 100 2, true⟩), mkPost "B" .real (some (eur (-1000) 2)) none]
theorem COH.witness_same_comm_cost :
    FinX.finalize env2 none id (FinX.LXact.ofXact wSameComm) = .error .sameCommCost ∧
    (OF.finalize env2 0 wSameComm.posts).toBool = true ∧
    (Assert.finalize cx2 wSameComm.posts).toBool = true := by decide +kernel

/-- FINDING 3 (`exactAmts`, the null commodity).  `A -5 BTC⏎ B 3` (a bare number):
    the implicit exchange prices the BTC posting in … BTC (`amount_t` division keeps the
    left commodity when the dividend has none), and ledger throws the same-commodity
    error; FinX follows, OF and Assert accept because the signs are opposite. -/
private def wBare : Xact :=
  mkX [mkPost "A" .real (some { q := -5, prec := 0, keep := false, comm := "BTC" }) none,
       mkPost "B" .real (some (bare 3)) none]
theorem COH.witness_bare_implied :
    FinX.finalize env2 none id (FinX.LXact.ofXact wBare) = .error .sameCommCost ∧
    (OF.finalize env2 0 wBare.posts).toBool = true ∧
    (Assert.finalize cx2 wBare.posts).toBool = true := by decide +kernel

/-- FINDING 4 (`noVirtNull`).  `A 5.00 EUR⏎ (V)` — ledger (and FinX) stop at
    "does not balance" (ledger fails while rendering that very error); AutoXact
    and OF answer "null amount" first.  With `A⏎ (V)` ledger and FinX drop the
    transaction silently, the other three report an error. -/
private def wVirtNull : Xact := mkX [mkPost "A" .real (some (eur 500 2)) none, mkPost "V" .virtual none none]
private def wVirtNull2 : Xact := mkX [mkPost "A" .real none none, mkPost "V" .virtual none none]
theorem COH.witness_virtual_null :
    verdictFin (FinX.finalize env2 none id (FinX.LXact.ofXact wVirtNull)) = .unbalanced ∧
    verdictAssert (Assert.finalize cx2 wVirtNull.posts) = .unbalanced ∧
    verdictOF (OF.finalize env2 0 wVirtNull.posts) = .nullLeft ∧
    verdictAuto (AutoXact.finalize env2 wVirtNull) = .nullLeft ∧
    verdictFin (FinX.finalize env2 none id (FinX.LXact.ofXact wVirtNull2)) = .accepted [] ∧
    verdictOF (OF.finalize env2 0 wVirtNull2.posts) = .nullLeft ∧
    verdictAuto (AutoXact.finalize env2 wVirtNull2) = .nullLeft ∧
    verdictAssert (Assert.finalize cx2 wVirtNull2.posts) = .nullLeft := by decide +kernel

/-- (`noKeepAmt`) an amount that carries the keep-precision flag — which the
    reader never sets on a posting amount — is tested exactly by OF/AutoXact/Assert
    and at display precision by FinX, which clears the flag first (`rounded()`). -/
private def wKeep : Xact :=
  mkX [mkPost "A" .real (some { q := mkRat 4 1000, prec := 3, keep := true, comm := "EUR" }) none]
theorem COH.witness_keep_flag :
    (FinX.finalize env2 none id (FinX.LXact.ofXact wKeep)).toBool = true ∧
    OF.finalize env2 0 wKeep.posts = .error .unbalanced := by decide +kernel

/-- (`exchangeGuard`) an "amount" whose quantity is not a multiple of its own
    precision (1/5 with precision counter 0 — nothing the reader can produce):
    same signs, so OF/Assert reject; FinX doubles it to 2/5 under a larger
    precision counter, which now rounds to zero. -/
private def wInexact : Xact :=
  mkX [mkPost "A" .real (some { q := 1, prec := 0, keep := false, comm := "AAA" }) none,
       mkPost "B" .real (some { q := mkRat 1 5, prec := 0, keep := false, comm := "BBB" }) none]
theorem COH.witness_inexact_exchange :
    (FinX.finalize env2 none id (FinX.LXact.ofXact wInexact)).toBool = true ∧
    OF.finalize env2 0 wInexact.posts = .error .unbalanced ∧
    exchangeGuard env2 wInexact.posts = false := by decide +kernel

/-! ## 2. costs: the residual per commodity -/

/-- What one posting contributes to its transaction's residual in commodity `c`
    is the same rational in C01/C02 (`parseCost`), C08 (`totalCost`) and C09
    (`costTotal`).  No guard. -/
theorem COH.cost_contribution_agree (env : PrecEnv) (c : Comm) (p : Posting) :
    contribFin env c p = contribOF c p ∧ contribAssert c p = contribOF c p :=
  ⟨contrib_fin_eq_of env c p, contrib_assert_eq_of c p⟩

/-- The residual balance per commodity: C01's exact `residual` of the parsed
    postings, the denotation of C08's `xbalance`, and the denotation of whatever
    C09's `residual` scan returns, coincide.  No guard. -/
theorem COH.cost_residual_agree (env : PrecEnv) (x : Xact) (c : Comm) :
    FinX.residual ((FinX.LXact.ofXact x).posts.map (FinX.FPost.ofPosting env)) c
      = (OF.xbalance x.posts).den c ∧
    ∀ v np, Assert.residual x.posts .void none = .ok (v, np) → v.den c = (OF.xbalance x.posts).den c := by
  refine ⟨by rw [ofXact_posts]; exact residual_fin_eq env x.posts c, ?_⟩
  intro v np h
  rw [residual_assert_den c x.posts .void none v np h trivial, OF.xbalance_den]
  simp only [Value.den]; grind

/-- As `Value`s (entries with precision counters and flags, the input of the
    display-zero test): with the flag guards and nothing elided, C01's scan and
    C09's scan both return C08's `xbalance`. -/
theorem COH.cost_residual_value_agree (env : PrecEnv) (ps : List Posting) (hnull : OF.nullPosts ps = [])
    (hk : noKeepAmt ps = true) (hkc : noKeepCost ps = true) :
    FinX.scan (ps.map (fun p => FinX.FPost.ofPosting env ⟨p, none⟩)) 0 .void none = .ok (OF.xbalance ps, none) ∧
    Assert.residual ps .void none = .ok (OF.xbalance ps, none) := by
  refine ⟨scan_noNull' env ps hk hnull, ?_⟩
  rw [residual_none ps .void trivial hkc, hnull]
  rfl

/-- The lot a posting `a @ k` is annotated with (xact.cc 334-343, pool.cc 263-309):
    C01/C02's `lotStep` on the parsed posting and C16's `annotateCost` both keep
    quantity and total cost, and compute a per-unit price with the same exact
    quantity `|cost / amount|` and commodity; the annotated commodity has the
    posting's commodity as base symbol in either encoding.  Guards: unannotated
    commodities, amount not display-zero, cost in another commodity.  NOT equal:
    the precision counter of the price (C01/C02: that of `amount_t` division,
    C16: the cost's), which no report reads — the commodity key carries the exact ratio. -/
theorem COH.cost_lot_agree (env : PrecEnv) (ds : String) (day : Int) (p : Posting) (a : Amount) (k : Cost)
    (ha : p.amount = some a) (hk : p.cost = some k) (hz : a.isZero env = false)
    (hpa : plain a.comm = true) (hpk : plain k.amt.comm = true) (hne : a.comm ≠ k.amt.comm) :
    ∃ pu p1 p2,
      FinX.lotStep env ds (FinX.FPost.ofPosting env ⟨p, none⟩) = .ok (p1, none) ∧
      AutoXact.annotateCost env day (AutoXact.toPPost env p) = .ok p2 ∧
      p1.amount = some { a with comm := FinX.annotate a.comm pu ds } ∧
      p2.amount = some { a with comm := AutoXact.lotComm a.comm (autoPrice env a k) day } ∧
      p1.cost = some (FinX.parseCost env a k) ∧ p2.cost = some (FinX.parseCost env a k) ∧
      pu.q = (autoPrice env a k).q ∧ pu.comm = (autoPrice env a k).comm ∧
      FinX.lotBase (FinX.annotate a.comm pu ds) = a.comm ∧
      AutoXact.baseComm (AutoXact.lotComm a.comm (autoPrice env a k) day) = a.comm :=
  Coh.cost_lot_agree env ds day p a k ha hk hz hpa hpk hne

/-! ## 3. per-account per-commodity sums -/

/-- An account's own sum: C05 `acctAmount` (plain valuation, no limit), C08
    `ownBalance` and C17's plain register restricted to the account denote the
    same rational in every commodity.  The C08/C17 equality needs no guard; the
    C05 one needs the path/account-string correspondence on this journal. -/
theorem COH.own_sum_agree (j : Journal) (a : String) (c : Comm) :
    (OF.ownBalance (entriesOf j) a).den c
      = (Regroup.sumValue ((Regroup.plainPosts {} j).filter (fun p => decide (p.account = a)))).den c ∧
    ∀ r, pathFaithful j a = true →
      Reports.acctAmount Reports.valAmount (fun _ => true) (Reports.posts j) (pathOf a) = .ok r →
      r.den c = (OF.ownBalance (entriesOf j) a).den c := by
  refine ⟨?_, ?_⟩
  · rw [ownBalance_jsum]
    exact (sumValue_jsum j (fun s => decide (s = a)) c).symm
  · intro r hg h
    rw [acctAmount_jsum j a c r hg h, ownBalance_jsum]

/-- Without any guard: C05's sum for a path `q` is C08's sum over the entries
    whose account string has path `q` (`RPost.path` is `pathOf` of the account
    string).  What `pathFaithful` adds is only that `pathOf` is injective on the
    journal's account names. -/
theorem COH.own_sum_by_path (j : Journal) (q : Reports.Path) (c : Comm) (r : Value)
    (h : Reports.acctAmount Reports.valAmount (fun _ => true) (Reports.posts j) q = .ok r) :
    r.den c = OF.sumDen (fun e => decide (pathOf e.account = q)) c (entriesOf j) := by
  rw [acctAmount_jsum_path j q c r h]
  exact (sumDen_entriesOf j (fun s => decide (pathOf s = q)) c).symm

theorem COH.family_sum_by_path (j : Journal) (q : Reports.Path) (c : Comm) (r : Value)
    (h : Reports.acctTotal Reports.valAmount (fun _ => true) (Reports.posts j) q = .ok r) :
    r.den c = OF.sumDen (fun e => Reports.under q (pathOf e.account)) c (entriesOf j) := by
  rw [acctTotal_jsum_path j q c r h]
  exact (sumDen_entriesOf j (fun s => Reports.under q (pathOf s)) c).symm

/-- An account's total including sub-accounts: C05 `acctTotal`, C08 `familyBalance`, C17. -/
theorem COH.family_sum_agree (j : Journal) (a : String) (c : Comm) :
    (OF.familyBalance (entriesOf j) a).den c
      = (Regroup.sumValue ((Regroup.plainPosts {} j).filter (fun p => accountUnder p.account a))).den c ∧
    ∀ r, underFaithful j a = true →
      Reports.acctTotal Reports.valAmount (fun _ => true) (Reports.posts j) (pathOf a) = .ok r →
      r.den c = (OF.familyBalance (entriesOf j) a).den c := by
  refine ⟨?_, ?_⟩
  · rw [familyBalance_jsum]
    exact (sumValue_jsum j (fun s => accountUnder s a) c).symm
  · intro r hg h
    rw [acctTotal_jsum j a c r hg h, familyBalance_jsum]

/-- The grand total: C05's recursion over the account tree, the sum of all C08
    entries and the last running total of C17's plain register.  No guard. -/
theorem COH.grand_total_agree (j : Journal) (c : Comm) (r : Value)
    (h : Reports.grandTotal Reports.valAmount (fun _ => true) (Reports.posts j) = .ok r) :
    r.den c = (Regroup.sumValue (Regroup.plainPosts {} j)).den c ∧
    r.den c = OF.sumDen (fun _ => true) c (entriesOf j) := by
  have h1 := sumValue_jsum j (fun _ => true) c
  have hf : (Regroup.plainPosts {} j).filter (fun _ => true) = Regroup.plainPosts {} j :=
    List.filter_eq_self.2 (fun _ _ => rfl)
  rw [hf] at h1
  rw [grandTotal_jsum j c r h]
  exact ⟨h1.symm, (sumDen_entriesOf j (fun _ => true) c).symm⟩

/-- Precision counters of sums.  The four re-statements of `add_or_set_value`
    — C08 `OF.vadd`, C09 `Assert.accAdd`, C17 `Regroup.vplus`, and `Value.add`
    itself (C03) — are one function on VOID / AMOUNT / BALANCE: same entries, same
    precision counters (`max`), same flags. -/
theorem COH.add_or_set_value_agree (v : Value) (a : Amount) (h : VAB v) :
    Value.add v (.amt a) = .ok (OF.vadd v a) ∧ Assert.accAdd v a = OF.vadd v a ∧
    Regroup.vplus v (.amt a) = OF.vadd v a := by
  refine ⟨add_eq_vadd v a h, accAdd_eq_vadd v a h, ?_⟩
  unfold Regroup.vplus
  rw [add_eq_vadd v a h]

/-- … and C08's account balance (whose entries the driver now prints with their
    precision counters, `comm~q~prec`) is literally C03's `balance_t +=` fold. -/
theorem COH.ownBalance_is_value_sum (es : List OF.Entry) (a : String) :
    (es.filter (fun e => e.account = a)).foldl (fun v e => Regroup.vplus v (.amt e.amt)) (.bal [])
      = .bal (OF.ownBalance es a) := by
  unfold OF.ownBalance
  generalize es.filter (fun e => e.account = a) = l
  generalize ([] : Balance) = b
  induction l generalizing b with
  | nil => rfl
  | cons e l ih =>
    simp only [List.foldl_cons]
    exact ih (Balance.addAmt b e.amt)

/-! ## 4. the display-zero test -/

/-- The `value_t::is_zero` of C01/C02, C16 and C08 are one function … -/
theorem COH.valueIsZero_agree :
    FinX.valueIsZero = OF.valueIsZero ∧ AutoXact.valueIsZero = OF.valueIsZero :=
  ⟨valueIsZero_fin_eq_of, valueIsZero_auto_eq_of⟩

/-- … which on an amount IS `Amount.isZero` and on a balance asks it of every entry; -/
theorem COH.valueIsZero_is_isZero (env : PrecEnv) (a : Amount) (b : Balance) :
    OF.valueIsZero env (.amt a) = a.isZero env ∧
    OF.valueIsZero env (.bal b) = b.all (Amount.isZero env) ∧
    Assert.balIsZero env b = b.all (Amount.isZero env) := ⟨rfl, rfl, rfl⟩

/-- C09's version agrees on VOID / AMOUNT / BALANCE (all the residual fold reaches) … -/
theorem COH.valueIsZero_assert_agree (env : PrecEnv) (v : Value) (h : VAB v) :
    Assert.valueIsZero env v = OF.valueIsZero env v := valueIsZero_assert_eq_of env v h

/-- … and differs on a non-zero INTEGER, which it calls zero (unreachable in C09). -/
theorem COH.valueIsZero_assert_differs_on_int :
    Assert.valueIsZero (fun _ => 0) (.int 1) = true ∧ OF.valueIsZero (fun _ => 0) (.int 1) = false :=
  ⟨rfl, rfl⟩

/-- C15's truth value (`value_t::operator bool`) is the negated zero test. -/
theorem COH.truth_is_not_isZero (env : PrecEnv) (v : Value) :
    Value.truth env v = !FinX.valueIsZero env v := by
  cases v with
  | void => rfl
  | bool b => cases b <;> rfl
  | int n => simp [Value.truth, FinX.valueIsZero]
  | amt a => rfl
  | bal b =>
    simp only [Value.truth, FinX.valueIsZero]
    induction b with
    | nil => rfl
    | cons x xs ih => simp only [List.any_cons, List.all_cons, ih, Bool.not_and]

/-- C01's `displaysZero` (the zero test of an exact residual) is `Amount.isZero` of
    any flag-free amount whose precision counter exceeds the display precision. -/
theorem COH.displaysZero_is_isZero (env : PrecEnv) (a : Amount) (hk : a.keep = false)
    (hp : env a.comm < a.prec) : FinX.displaysZero env a.comm a.q = a.isZero env := by
  unfold FinX.displaysZero Amount.isZero
  have hcomm : ({ q := a.q, prec := env a.comm + 1, keep := false, comm := a.comm } : Amount).hasComm
      = a.hasComm := rfl
  rw [hcomm]
  cases a.hasComm with
  | false => rfl
  | true =>
    simp only [if_true]
    have h1 : ¬ (false = true ∨ env a.comm + 1 ≤ env a.comm) := by
      rintro (h | h)
      · cases h
      · omega
    have h2 : ¬ (a.keep = true ∨ a.prec ≤ env a.comm) := by
      rintro (h | h)
      · rw [hk] at h; cases h
      · omega
    rw [if_neg h1, if_neg h2]

/-- The condition under which the implied two-commodity exchange applies
    (`*x && *y`, xact.cc 257) is stated with `Amount.isZero` in all four models;
    C16's and C09's versions coincide when no cost is written. -/
theorem COH.implied_condition_agree (env : PrecEnv) (ps : List Posting) (v : Value)
    (hc : ps.any (fun p => p.cost.isSome) = false) :
    (Assert.impliedPrice env ps v).isSome = AutoXact.impliedPrice env v := by
  unfold Assert.impliedPrice AutoXact.impliedPrice
  cases v with
  | bal b =>
    match b with
    | [] => rfl
    | [_] => rfl
    | _ :: _ :: _ :: _ => rfl
    | [x, y] =>
      simp only [hc, Bool.false_eq_true, if_false]
      cases (!x.isZero env && !y.isZero env) <;> rfl
  | void => rfl
  | amt _ => rfl
  | int _ => rfl
  | bool _ => rfl

/-! ## non-vacuity: the guards hold on real transactions and every verdict occurs -/

/-- elided posting, two commodities (one generated posting): all four accept with the same rows -/
private def xFill : Xact :=
  mkX [mkPost "A" .real (some (eur 1000 2)) none, mkPost "C" .bvirtual (some (usd 250 2)) none,
       mkPost "B" .real none none]
example : noKeepAmt xFill.posts = true ∧ noKeepCost xFill.posts = true ∧ noVirtNull xFill.posts = true ∧
    someAmount xFill.posts = true ∧ costOtherComm xFill.posts = true ∧ costHasAmount xFill.posts = true ∧
    exchangeGuard env2 xFill.posts = true ∧ noCostAssert xFill.posts = true ∧
    noLotAmt xFill.posts = true ∧ impliedCase env2 xFill.posts = false := by decide +kernel
example : verdictFin (FinX.finalize env2 none id (FinX.LXact.ofXact xFill))
    = .accepted [⟨"A", .real, eur 1000 2⟩, ⟨"C", .bvirtual, usd 250 2⟩, ⟨"B", .real, (eur 1000 2).neg⟩,
                 ⟨"B", .real, (usd 250 2).neg⟩] := by decide +kernel
example : verdictAuto (AutoXact.finalize env2 xFill) = verdictFin (FinX.finalize env2 none id (FinX.LXact.ofXact xFill)) := by
  decide +kernel

/-- the implied exchange: guards hold (`exchangeGuard` through `exactAmts`), opposite signs accepted -/
private def xImplied : Xact :=
  mkX [mkPost "A" .real (some (eur 1000 2)) none, mkPost "B" .real (some (usd (-1234) 2)) none]
example : impliedCase env2 xImplied.posts = true ∧ exchangeGuard env2 xImplied.posts = true ∧
    noKeepAmt xImplied.posts = true ∧ noVirtNull xImplied.posts = true := by decide +kernel
example : (verdictFin (FinX.finalize env2 none id (FinX.LXact.ofXact xImplied))).map (Row.toOF 18000)
    = verdictOF (OF.finalize env2 18000 xImplied.posts) := by decide +kernel
/-- same signs: unbalanced everywhere -/
example : verdictFin (FinX.finalize env2 none id (FinX.LXact.ofXact
    (mkX [mkPost "A" .real (some (eur 1000 2)) none, mkPost "B" .real (some (usd 1234 2)) none]))) = .unbalanced := by
  decide +kernel

/-- a cost: `3 XX @ 0.333 USD` against `-1.00 USD`, residual -0.001 displays as zero: FinX, OF, Assert accept -/
private def xCost : Xact :=
  mkX [mkPost "A" .real (some { q := 3, prec := 0, keep := false, comm := "XX" }) (some ⟨usd 333 3, true⟩),
       mkPost "B" .real (some (usd (-100) 2)) none]
example : noKeepAmt xCost.posts = true ∧ noKeepCost xCost.posts = true ∧ costOtherComm xCost.posts = true ∧
    costHasAmount xCost.posts = true ∧ exchangeGuard env2 xCost.posts = true ∧
    noVirtNull xCost.posts = true ∧ someAmount xCost.posts = true := by decide +kernel
example : (FinX.finalize env2 none id (FinX.LXact.ofXact xCost)).toBool = true ∧ (OF.finalize env2 0 xCost.posts).toBool = true ∧
    (Assert.finalize cx2 xCost.posts).toBool = true := by decide +kernel

/-- two elided postings: the two-nulls verdict in all four -/
private def xTwo : Xact :=
  mkX [mkPost "A" .real (some (eur 1000 2)) none, mkPost "B" .real none none, mkPost "C" .real none none]
example : verdictFin (FinX.finalize env2 none id (FinX.LXact.ofXact xTwo)) = .twoNulls ∧
    verdictAuto (AutoXact.finalize env2 xTwo) = .twoNulls ∧
    verdictOF (OF.finalize env2 0 xTwo.posts) = .twoNulls ∧
    verdictAssert (Assert.finalize cx2 xTwo.posts) = .twoNulls := by decide +kernel

/-- the path guards of §3 hold on a journal with nested accounts -/
private def jSums : Journal :=
  { xacts := [mkX [mkPost "Assets:Bank" .real (some (eur 1000 2)) none,
                   mkPost "Assets:Bank:Savings" .real (some (eur 500 2)) none,
                   mkPost "Assets" .virtual (some (usd 100 2)) none,
                   mkPost "Assets:Banker" .real (some (eur (-1500) 2)) none]] }
-- `String.splitOn` does not reduce in the kernel, so the path guards are evaluated (not proved) here:
#guard pathFaithful jSums "Assets:Bank" && underFaithful jSums "Assets:Bank" && underFaithful jSums "Assets"
#guard pathFaithful jSums "Assets:Banker" && underFaithful jSums "Assets:Banker"
example : (OF.familyBalance (entriesOf jSums) "Assets:Bank").den "EUR" = 15 := by decide +kernel

end Ledger
