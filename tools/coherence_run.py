#!/usr/bin/env python3
"""Model-coherence cross-check (driver level).

The SAME transaction (tools/jgen.py AST) is handed to the driver ops of the four
independently written models of `xact_base_t::finalize`

    xact.fin       Model/Finalize.lean   (C01/C02)   under both hash enumerations
    autoxact.load  Model/AutoXact.lean   (C16)       journal with no rules
    assert.run     Model/Assert.lean     (C09)       strict mode, env = precision learned from the transaction
    of.load        Model/OrderFree.lean  (C08)       one file, one transaction

and to the rebuilt ledger binary (`reg --empty`).  Every answer is reduced to

    verdict : ok | ignored | unbalanced | two-nulls | null | same-comm-cost | unsupported | other:<text>
    rows    : sorted multiset of (account, exact quantity n/d, commodity)

and the answers are compared pairwise on the domain both models claim
(`unsupported` is a model saying "outside my fragment").  The decidable domain
guards of lean/LedgerModel/Lemmas/CoherenceCore.lean are recomputed for every
case: a disagreement between two models while ALL guards hold would contradict
the theorems of Props/Coherence.lean and is reported as UNEXPECTED (so is FinX,
the complete model, differing from the binary); a disagreement with a violated
guard is listed under that guard with one witness per signature (these are the
`COH.witness_*` theorems, replayed here on the real binary).

The Lean side of the same comparison (for all inputs) is
lean/LedgerModel/Props/Coherence.lean; this script finds witnesses fast.

usage: tools/coherence_run.py [--seed N] [--n COUNT] [--summary] [--no-ledger] [--json OUT]
exit status: 0 = nothing UNEXPECTED, 1 otherwise.
"""
import argparse
import itertools
import json
import os
import random
import shutil
import sys
import tempfile
from fractions import Fraction

sys.path.insert(0, os.path.dirname(os.path.abspath(__file__)))
import jgen      # noqa: E402
import vflib     # noqa: E402

# commodities without thousands marks / decimal comma: the amount text is then the same
# under every DECIMAL_COMMA state, so of.load's text scan is not what is being compared
COMMS = [jgen.Commodity("EUR", 2), jgen.Commodity("AAA", 0), jgen.Commodity("BTC", 4),
         jgen.Commodity("USD", 2)]
CMAP = {c.name: c for c in COMMS}
FMT = "%(account)|%(verif_rational(amount))|%(virtual)|%(calculated)\\n"


# ------------------------------------------------------------------ case construction

def P(account, q=None, comm="EUR", kind="real", dec=None, cost=None):
    """posting; q None = elided; cost = (q, comm, per_unit[, dec])"""
    c = CMAP.get(comm) or jgen.Commodity(comm, 0 if dec is None else dec)
    p = {"account": account, "kind": kind, "state": 0, "amount": None if q is None else jgen.amt(Fraction(q), c, dec),
         "cost": None, "assert": None, "note": ""}
    if cost is not None:
        cc = CMAP.get(cost[1]) or jgen.Commodity(cost[1], 2)
        d = dict(jgen.amt(Fraction(cost[0]), cc, cost[3] if len(cost) > 3 else None), per_unit=cost[2])
        p["cost"] = d
    return p


def X(*posts):
    return {"date": jgen.day_of(2020, 1, 15), "aux": None, "state": 0, "code": "", "payee": "p", "note": "",
            "posts": list(posts)}


def edge_cases():
    """hand-made boundary shapes: each is (label, xact)."""
    F = Fraction
    out = []
    A, B, C, V = "Assets:A", "Expenses:B", "Equity:C", "Budget:V"
    out += [
        ("balanced-2", X(P(A, 5), P(B, -5))),
        ("unbalanced-2", X(P(A, 5), P(B, -4))),
        ("one-null", X(P(A, 5), P(B))),
        ("null-first", X(P(B), P(A, 5))),
        ("null-two-comm", X(P(A, 5), P(C, 3, "AAA"), P(B))),
        ("null-three-comm", X(P(A, 5), P(C, 3, "USD"), P(C, 2, "AAA"), P(B))),
        ("two-nulls", X(P(A, 5), P(B), P(C))),
        ("two-nulls-bvirtual", X(P(A, 5), P(B, kind="bvirtual"), P(C))),
        ("three-nulls", X(P(A), P(B), P(C))),
        ("all-null-single", X(P(A))),
        ("single-posting", X(P(A, 5))),
        ("single-zero", X(P(A, 0))),
        ("virtual-only", X(P(V, 5, kind="virtual"))),
        ("virtual-plus-balanced", X(P(A, 5), P(B, -5), P(V, 7, kind="virtual"))),
        ("virtual-null", X(P(A, 5), P(B, -5), P(V, kind="virtual"))),
        ("virtual-null-unbalanced", X(P(A, 5), P(V, kind="virtual"))),
        ("virtual-null-and-real-null", X(P(A, 5), P(B), P(V, kind="virtual"))),
        ("two-real-nulls-and-virtual-null", X(P(A, 5), P(B), P(C), P(V, kind="virtual"))),
        ("two-virtual-nulls", X(P(A, 5), P(B, -5), P(V, kind="virtual"), P(C, kind="virtual"))),
        ("only-virtual-null", X(P(V, kind="virtual"))),
        ("bvirtual-null", X(P(A, 5), P(B, kind="bvirtual"))),
        ("bvirtual-balanced", X(P(A, 5, kind="bvirtual"), P(B, -5, kind="bvirtual"))),
        ("null-of-zero", X(P(A, 0), P(B))),
        ("null-of-cancelled", X(P(A, 5), P(C, -5), P(B))),
        ("null-of-cancelled-2comm", X(P(A, 5), P(C, -5), P(A, 3, "AAA"), P(C, -3, "AAA"), P(B))),
        ("null-one-left-of-two", X(P(A, 5), P(C, -5), P(A, 3, "AAA"), P(B))),
        ("null-zero-zero", X(P(A, 0), P(C, 0, "AAA"), P(B))),
        ("zero-zero", X(P(A, 0), P(C, 0, "AAA"))),
        ("implied-opposite", X(P(A, 5), P(B, -7, "USD"))),
        ("implied-same-sign", X(P(A, 5), P(B, 7, "USD"))),
        ("implied-three-posts", X(P(A, 5), P(C, 2), P(B, -7, "USD"))),
        ("implied-mixed", X(P(A, 5), P(C, -2), P(B, -7, "USD"), P(B, 1, "USD"))),
        ("implied-one-zero", X(P(A, 5), P(C, -5), P(B, 7, "USD"), P(B, -7, "USD"), P(A, 0, "AAA"))),
        ("two-comm-one-cancels", X(P(A, 5), P(C, -5), P(B, 7, "USD"))),
        ("three-comm", X(P(A, 5), P(B, -7, "USD"), P(C, 1, "AAA"))),
        ("bare-amounts", X(P(A, 5, ""), P(B, -5, ""))),
        ("bare-unbalanced", X(P(A, 5, ""), P(B, -4, ""))),
        ("bare-null", X(P(A, 5, ""), P(B))),
        ("bare-and-comm", X(P(A, 5, ""), P(B, -5, "EUR"))),
        ("bare-and-comm-null", X(P(A, 5, ""), P(C, 5, "EUR"), P(B))),
        ("digit-account-two-nulls", X(P("Assets:A1", 5), P("Expenses:B2"), P(C))),
        ("cost-unit", X(P(A, 10, "AAA", cost=(F(3, 2), "EUR", True)), P(B, -15))),
        ("cost-total", X(P(A, 10, "AAA", cost=(15, "EUR", False)), P(B, -15))),
        ("cost-total-neg", X(P(A, -10, "AAA", cost=(15, "EUR", False)), P(B, 15))),
        ("cost-null", X(P(A, 10, "AAA", cost=(F(3, 2), "EUR", True)), P(B))),
        ("cost-unbalanced", X(P(A, 10, "AAA", cost=(F(3, 2), "EUR", True)), P(B, -14))),
        ("cost-same-comm", X(P(A, 10, "EUR", cost=(1, "EUR", True)), P(B, -10))),
        ("cost-same-comm-total", X(P(A, 10, "EUR", cost=(10, "EUR", False)), P(B, -10))),
        ("cost-residual-below-display", X(P(A, 1, "AAA", cost=(F(333, 1000), "EUR", True, 3)), P(B, F(-33, 100)))),
        ("cost-residual-half-unit", X(P(A, 1, "AAA", cost=(F(335, 1000), "EUR", True, 3)), P(B, F(-33, 100)))),
        ("cost-residual-above-half", X(P(A, 1, "AAA", cost=(F(336, 1000), "EUR", True, 3)), P(B, F(-33, 100)))),
        ("cost-two-comm-left", X(P(A, 10, "AAA", cost=(F(3, 2), "EUR", True)), P(B, -7, "USD"))),
        ("cost-on-virtual", X(P(A, 5), P(B, -5), P(V, 1, "AAA", kind="virtual", cost=(2, "EUR", True)))),
    ]
    return out


def small_exhaustive():
    """bounded-exhaustive: 1..3 postings, each (kind x amount shape)."""
    shapes = [(None, "EUR"), (5, "EUR"), (-5, "EUR"), (0, "EUR"), (7, "USD"), (-7, "USD")]
    kinds = ["real", "virtual", "bvirtual"]
    accts = ["Assets:A", "Expenses:B", "Equity:C"]
    out = []
    for n in (1, 2, 3):
        for combo in itertools.product(itertools.product(kinds, shapes), repeat=n):
            # symmetry reduction: at most one non-real kind pattern per posting is still 18^n; keep n=3 only for real/virtual mixes
            if n == 3 and sum(1 for k, _ in combo if k == "bvirtual") > 0:
                continue
            posts = [P(accts[i], s[0], s[1], kind=k) for i, (k, s) in enumerate(combo)]
            out.append(("ex%d" % n, X(*posts)))
    return out


def random_cases(rng, n):
    out = []
    g = jgen.Gen(rng, comms=COMMS[:3], p_cost=0.0, p_virtual=0.15, p_bvirtual=0.15, magnitudes=[10, 1000])
    gc = jgen.Gen(rng, comms=COMMS[:3], p_cost=0.4, p_virtual=0.1, p_bvirtual=0.1, magnitudes=[10, 1000])
    for i in range(n):
        k = rng.random()
        if k < 0.35:
            out.append(("rnd-bal", g.xact()))
        elif k < 0.5:
            out.append(("rnd-off", g.xact(balanced=False)))
        elif k < 0.75:
            out.append(("rnd-cost", gc.xact()))
        elif k < 0.85:
            out.append(("rnd-cost-off", gc.xact(balanced=False)))
        else:
            # mutate: elide / virtualise / duplicate a posting of a balanced transaction
            x = g.xact()
            ps = x["posts"]
            j = rng.randrange(len(ps))
            m = rng.choice(["elide", "virt", "dup", "zero", "bare"])
            if m == "elide":
                ps[j] = dict(ps[j], amount=None, cost=None)
            elif m == "virt":
                ps[j] = dict(ps[j], kind=rng.choice(["virtual", "bvirtual"]))
            elif m == "dup":
                ps.insert(j, dict(ps[j]))
            elif m == "zero" and ps[j]["amount"] is not None:
                ps[j] = dict(ps[j], amount=dict(ps[j]["amount"], q="0/1"))
            elif m == "bare" and ps[j]["amount"] is not None:
                ps[j] = dict(ps[j], amount=dict(ps[j]["amount"], comm=""))
            out.append(("rnd-mut-" + m, x))
    return out


# ------------------------------------------------------------------ the five observers

def env_after(x):
    env = {}
    for p in x["posts"]:
        a = p["amount"]
        if a is not None:
            env[a["comm"]] = max(env.get(a["comm"], 0), a["prec"])
    return env


def wamt(a):
    if a is None:
        return None
    q = jgen.amt_q(a)
    bare = jgen.Commodity("", a["prec"])
    d = {"comm": a["comm"], "neg": q < 0, "text": jgen.fmt_amount(abs(q), bare, a["prec"], thousands=False),
         "suffixed": True, "separated": True, "q": a["q"]}
    if "per_unit" in a:
        d["per_unit"] = a["per_unit"]
    return d


def lines_for(x):
    xs = json.dumps(x)
    env = env_after(x)
    envs = ",".join("%s=%d" % kv for kv in sorted(env.items()) if kv[0])
    of = {"main": {"dir": [], "name": "m"}, "fuel": 4,
          "files": [{"dir": [], "name": "m", "items": [
              {"t": "x", "date": x["date"],
               "posts": [{"account": p["account"], "kind": p["kind"], "amount": wamt(p["amount"]),
                          "cost": wamt(p["cost"]), "assert": None} for p in x["posts"]]}]}]}
    return ["xact.fin\t%s\t\t\tid" % xs,
            "xact.fin\t%s\t\t\trev" % xs,
            "autoxact.load\t" + json.dumps({"xacts": [x], "rules": [], "items": [{"k": "x", "i": 0}]}),
            "assert.run\t0\t%s\t%s" % (envs, json.dumps({"xacts": [x]})),
            "of.load\t" + json.dumps(of)]


def norm_q(s):
    f = Fraction(s)
    return "%d/%d" % (f.numerator, f.denominator)


import re as _re

_FIN_LOT = _re.compile(r"^(.*?)\{(\S+) (.*?)\}\[(.*?)\]\((.*)\)$")
_AUTO_LOT = _re.compile(r"^(.*?)\{(\S+?):(.*?)\}\[(-?\d*)\]$")


def lot_of(comm, who):
    """(per-unit price n/d, price commodity, day number) of a lot-annotated commodity key, None for a plain one.
    C01/C02 writes `BASE{n/d SYM}[YYYY/MM/DD](tag)`, C16 `BASE{n/d:SYM}[day]`."""
    m = (_FIN_LOT if who == "fin" else _AUTO_LOT).match(comm)
    if not m:
        return None
    if who == "fin":
        d = m.group(4)
        day = jgen.day_of(*[int(t) for t in d.split("/")]) if d else None
    else:
        day = int(m.group(4)) if m.group(4) else None
    return (norm_q(m.group(2)), m.group(3), day)


def obs(verdict, rows=(), krows=None):
    """rows: (account, n/d, commodity); krows (FinX and AutoXact only): the same in posting ORDER with the kind."""
    d = {"verdict": verdict, "rows": sorted(rows)}
    if krows is not None:
        d["krows"] = list(krows)
    return d


def parse_fin(ans):
    f = ans.split("\t")
    if f[0] == "err":
        k = f[1]
        return obs({"two-nulls": "two-nulls", "misspelled": "two-nulls", "unbalanced": "unbalanced",
                    "null-after": "null", "ignored": "ignored", "same-comm-cost": "same-comm-cost"}.get(k, "other:" + k))
    rows, krows = [], []
    for r in f[1:]:
        acct, kind, amt = r.split("|")[:3]
        q, prec, _keep, comm = amt.split(":", 3)
        lot = lot_of(comm, "fin")
        comm = comm.split("{")[0]          # C01/C02 annotates a posting that has a cost with its lot: compare base symbols
        rows.append((acct, norm_q(q), comm))
        krows.append((acct, kind, norm_q(q), prec, comm, lot))
    return obs("ok", rows, krows)


def parse_auto(ans):
    f = ans.split("\t")
    if f[0] == "err":
        if f[1] == "unsupported":
            return obs("unsupported")
        k = f[1].split(";")[0].split(":")[-1]
        return obs({"two-nulls": "two-nulls", "unbalanced": "unbalanced", "null-amount": "null",
                    "same-comm-cost": "same-comm-cost"}.get(k, "other:" + k))
    rows, krows = [], []
    for r in (f[1].split(";") if len(f) > 1 and f[1] else []):
        # xact line|posting line|account|kind|state|q:prec:keep:comm|cost|note|generated|calculated
        _xl, _pl, acct, kind, _state, amt = r.split("|")[:6]
        q, prec, _keep, comm = amt.split(":", 3)
        lot = lot_of(comm, "auto")
        comm = comm.split("{")[0]          # C16 annotates a posting that has a cost with its lot: compare base symbols
        rows.append((acct, norm_q(q), comm))
        krows.append((acct, kind, norm_q(q), prec, comm, lot))
    return obs("ok", rows, krows)


def parse_assert(ans):
    f = ans.split("\t")
    if f[0] != "ok":
        return obs("other:" + ans)
    if f[1] == "E":
        k = f[2].split(",")[0].split(":")[-1]
        return obs({"two-nulls": "two-nulls", "unbalanced": "unbalanced", "other": "null"}.get(k, "other:" + k))
    rows = []
    for r in (f[2].split(";") if len(f) > 2 and f[2] else []):
        _l, acct, q, comm = r.split("|")
        rows.append((acct, norm_q(q), comm))
    return obs("ok", rows)


def parse_of(ans):
    f = ans.split("\t")
    if f[0] == "err":
        return obs({"two-nulls": "two-nulls", "unbalanced": "unbalanced", "null-after": "null"}.get(f[1], "other:" + f[1]))
    rows = []
    for r in (f[3].split(";") if len(f) > 3 and f[3] else []):
        _d, acct, am = r.split("|")
        comm, q = am.rsplit("~", 1)
        rows.append((acct, norm_q(q), comm))
    return obs("ok", rows)


def run_ledger(x):
    text = "\n".join(jgen.render_xact(x, COMMS)) + "\n"
    d = tempfile.mkdtemp(prefix="coh-")
    try:
        p = os.path.join(d, "j.dat")
        with open(p, "w", encoding="utf-8") as f:
            f.write(text)
        rc, out, err = vflib.ledger_run(["-f", p, "reg", "--empty", "--format", FMT], cwd=d)
    finally:
        shutil.rmtree(d, ignore_errors=True)
    if rc is None or (rc is not None and rc < 0):
        return obs("other:crash rc=%s" % rc), text
    if "Error:" in err:
        t = err
        if "Only one posting with null amount allowed" in t or "may be misspelled" in t:
            v = "two-nulls"
        elif "Transaction does not balance" in t:
            v = "unbalanced"
        elif "There cannot be null amounts after balancing" in t:
            v = "null"
        elif "cost must be of a different commodity" in t:
            v = "same-comm-cost"
        else:
            msg = [l for l in t.splitlines() if l.startswith("Error:")]
            v = "other:" + (msg[0] if msg else t[-80:])
        return obs(v), text
    rows = []
    for l in out.splitlines():
        acct, val = l.split("|")[:2]
        acct = acct.strip("()[]")
        if val.startswith("A:"):
            q, _prec, _keep, comm = val[2:].split(":", 3)
            comm = comm.split(" {")[0].split("{")[0].strip().strip('"')   # base symbol (lot annotations dropped)
            rows.append((acct, norm_q(q), comm))
        elif val.startswith("I:"):
            rows.append((acct, norm_q(val[2:]), ""))
        else:
            rows.append((acct, val, "?"))
    return obs("ignored" if not rows else "ok", rows), text


NAMES = ["fin", "fin.rev", "auto", "assert", "of", "ledger"]
MODELS = ["fin", "fin.rev", "auto", "assert", "of"]


def cls(v):
    """`ignored` (finalize returned false) is an acceptance with no postings for the models
    that have no such verdict."""
    return "ok" if v == "ignored" else v


def compare(o):
    """-> list of (pair, what) disagreements between the MODELS on the domain both claim."""
    dis = []
    names = [n for n in MODELS if n in o]
    for a, b in itertools.combinations(names, 2):
        x, y = o[a], o[b]
        if "unsupported" in (x["verdict"], y["verdict"]):
            continue
        cx, cy = cls(x["verdict"]), cls(y["verdict"])
        if cx != cy:
            dis.append(((a, b), "verdict %s vs %s" % (x["verdict"], y["verdict"])))
        elif cx == "ok" and x["rows"] != y["rows"]:
            dis.append(((a, b), "rows differ"))
        elif cx == "ok" and "krows" in x and "krows" in y and x["krows"] != y["krows"]:
            dis.append(((a, b), "rows differ"))      # order, kind, precision counter or computed lot (FinX vs AutoXact)
    return dis


def versus_ledger(o):
    """every model against the real binary: accepted/rejected and, when accepted, the rows
    (the error TEXT of a rejection is not compared: ledger e.g. fails with `Cannot determine
    sign of an uninitialized amount` while rendering `Transaction does not balance`)."""
    bad = []
    if "ledger" not in o:
        return bad
    L = o["ledger"]
    la = cls(L["verdict"]) == "ok"
    for n in MODELS:
        m = o[n]
        if m["verdict"] == "unsupported":
            continue
        ma = cls(m["verdict"]) == "ok"
        if ma != la or (ma and m["rows"] != L["rows"]):
            bad.append(n)
    return bad


def guards(x):
    """the decidable domain guards of Lemmas/CoherenceCore.lean, recomputed here.
    (`noKeepAmt`/`noKeepCost` always hold for JSON amounts; `exactAmts` holds for every
    commoditized jgen amount under env_after.)"""
    ps = x["posts"]
    g = {}
    g["noVirtNull"] = all(p["kind"] != "virtual" or p["amount"] is not None for p in ps)
    g["someAmount"] = (not ps) or any(p["amount"] is not None for p in ps)
    g["costOtherComm"] = all(not (p["cost"] and p["amount"]) or p["cost"]["comm"] != p["amount"]["comm"] for p in ps)
    g["costHasAmount"] = all(not p["cost"] or p["amount"] is not None for p in ps)
    g["allCommoditized"] = all(p["amount"] is None or p["amount"]["comm"] != "" for p in ps)   # ⇒ exchangeGuard
    return g


# which guard explains which pairwise disagreement (the `COH.witness_*` theorems of Props/Coherence.lean)
EXPLAINS = {
    "noVirtNull": "COH.witness_virtual_null: a (virtual) posting without amount — FinX/ledger report unbalanced/two-nulls/"
                  "uninitialized first or drop an all-null transaction; AutoXact/Assert/OF answer null-amount",
    "someAmount": "COH.witness_all_null: the one-posting all-null transaction is dropped silently by ledger, FinX, OF; "
                  "AutoXact and Assert report an error",
    "costOtherComm": "COH.witness_same_comm_cost: only FinX has xact.cc 288-294 (cost commodity = amount commodity)",
    "allCommoditized": "COH.witness_bare_implied: implied exchange with the null commodity ends in the same-commodity "
                       "error in ledger and FinX (also depends on the hash enumeration); Assert/OF accept",
    "costHasAmount": "a cost on a posting without amount cannot be written",
}


def main():
    ap = argparse.ArgumentParser()
    ap.add_argument("--seed", type=int, default=int(os.environ.get("VERIF_SEED", "1")))
    ap.add_argument("--n", type=int, default=600)
    ap.add_argument("--summary", action="store_true")
    ap.add_argument("--no-ledger", action="store_true")
    ap.add_argument("--json", default=None)
    args = ap.parse_args()
    rng = random.Random(args.seed)
    cases = edge_cases() + small_exhaustive() + random_cases(rng, args.n)
    lines = []
    for _, x in cases:
        lines += lines_for(x)
    ans = vflib.driver_run(lines)
    led = [None] * len(cases)
    if not args.no_ledger:
        led = vflib.pmap(lambda c: run_ledger(c[1]), cases)
    sigs = {}
    total_dis = 0
    agree_all = 0
    in_domain = 0
    unexpected = []
    vs_ledger = {n: 0 for n in MODELS}
    for k, (label, x) in enumerate(cases):
        a = ans[5 * k: 5 * k + 5]
        o = {"fin": parse_fin(a[0]), "fin.rev": parse_fin(a[1]), "auto": parse_auto(a[2]),
             "assert": parse_assert(a[3]), "of": parse_of(a[4])}
        text = "\n".join(jgen.render_xact(x, COMMS)) + "\n"
        if led[k] is not None:
            o["ledger"], text = led[k]
        g = guards(x)
        failed = sorted(n for n, v in g.items() if not v)
        if not failed:
            in_domain += 1
        dis = compare(o)
        for n in versus_ledger(o):
            vs_ledger[n] += 1
            if n in ("fin", "fin.rev") and g["allCommoditized"]:
                # FinX is the complete model: it must follow the binary everywhere (with the null
                # commodity the outcome depends on ledger's own hash order, C19)
                unexpected.append(("FinX differs from ledger", label, text, o))
        if not dis:
            agree_all += 1
            continue
        total_dis += 1
        if not failed:
            # all guards hold: the theorems of Props/Coherence.lean say the models agree
            unexpected.append(("models disagree inside the common domain", label, text, o))
        sig = (tuple(failed), tuple("%s=%s" % (n, o[n]["verdict"]) for n in NAMES if n in o),
               tuple(sorted(set(w for _, w in dis if w == "rows differ"))))
        sigs.setdefault(sig, []).append((label, text, o, a, x))
    print("cases %d  (inside the common domain: %d)  all models agree %d  with a disagreement %d  signatures %d"
          % (len(cases), in_domain, agree_all, total_dis, len(sigs)))
    if not args.no_ledger:
        print("model differs from the real binary (accept/reject or rows), cases: " +
              "  ".join("%s=%d" % kv for kv in vs_ledger.items()))
    report = []
    for sig, ws in sorted(sigs.items(), key=lambda kv: -len(kv[1])):
        ws.sort(key=lambda w: len(w[1]))
        label, text, o, a, x = ws[0]
        print("\n== %d case(s)  guards violated: %s" % (len(ws), ",".join(sig[0]) or "NONE"))
        for gname in sig[0]:
            print("   [%s] %s" % (gname, EXPLAINS.get(gname, "")))
        print("   " + "  ".join(sig[1]) + ("  [rows differ]" if sig[2] else ""))
        print("   witness (%s):\n%s" % (label, "".join("      " + l + "\n" for l in text.splitlines())))
        if not args.summary:
            for n in NAMES:
                if n in o:
                    print("   %-8s %s %s" % (n, o[n]["verdict"], o[n]["rows"] if o[n]["verdict"] in ("ok", "ignored") else ""))
        report.append({"guards_violated": sig[0], "verdicts": sig[1], "count": len(ws), "witness": x, "text": text,
                       "observations": {n: o[n] for n in o}})
    for what, label, text, o in unexpected[:20]:
        print("\nUNEXPECTED: %s (%s)\n%s" % (what, label, text))
        for n in NAMES:
            if n in o:
                print("   %-8s %s %s" % (n, o[n]["verdict"], o[n]["rows"] if o[n]["verdict"] in ("ok", "ignored") else ""))
    print("\nunexpected: %d" % len(unexpected))
    if args.json:
        with open(args.json, "w") as f:
            json.dump(report, f, indent=1)
    return 1 if unexpected else 0


if __name__ == "__main__":
    sys.exit(main())
