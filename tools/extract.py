#!/usr/bin/env python3
"""Translator part of the tie: re-extract constants, tables and dispatch shapes
from /repo/src into lean/LedgerModel/Gen/*.lean on every run.

Every extractor asserts the shape it expects; when the source no longer matches
it raises ExtractError (the check then reports the tie as broken and searches).
Files are rewritten only when their content changes, so an unchanged source
costs no Lean rebuild.
"""
import os, re, sys, json

ROOT = os.path.dirname(os.path.dirname(os.path.abspath(__file__)))
REPO = os.environ.get("VERIF_REPO", "/repo")
GEN = os.path.join(ROOT, "lean", "LedgerModel", "Gen")


class ExtractError(Exception):
    pass


def src(name):
    with open(os.path.join(REPO, "src", name), encoding="utf-8", errors="replace") as f:
        return f.read()


def strip_comments(s):
    s = re.sub(r"/\*.*?\*/", "", s, flags=re.S)
    s = re.sub(r"//[^\n]*", "", s)
    return s


def need(cond, what):
    if not cond:
        raise ExtractError(what)


def function_body(text, signature_re):
    """Return the brace-balanced body following the first match of signature_re."""
    m = re.search(signature_re, text)
    need(m, "signature not found: " + signature_re)
    i = text.index("{", m.end() - 1) if text[m.end() - 1] != "{" else m.end() - 1
    depth = 0
    j = i
    while j < len(text):
        ch = text[j]
        if ch == "{":
            depth += 1
        elif ch == "}":
            depth -= 1
            if depth == 0:
                return text[i + 1:j]
        elif ch == '"':
            j += 1
            while text[j] != '"':
                if text[j] == "\\":
                    j += 1
                j += 1
        elif ch == "'":
            j += 1
            while text[j] != "'":
                if text[j] == "\\":
                    j += 1
                j += 1
        j += 1
    raise ExtractError("unbalanced braces after " + signature_re)


def lean_str(s):
    out = ['"']
    for ch in s:
        if ch == '"':
            out.append('\\"')
        elif ch == "\\":
            out.append("\\\\")
        elif ch == "\n":
            out.append("\\n")
        elif ch == "\t":
            out.append("\\t")
        elif ord(ch) < 32 or ord(ch) == 127:
            out.append("\\x%02x" % ord(ch))
        else:
            out.append(ch)
    out.append('"')
    return "".join(out)


def lean_list(items):
    return "[" + ", ".join(items) + "]"


def norm_ws(s):
    return re.sub(r"\s+", " ", s).strip()


# ---------------------------------------------------------------------------
# switch-cell extraction for value_t operators


def split_cases(body):
    """Split the body of a `switch (...) { ... }` into {label: text}; nested
    switches stay inside their case text.  Labels that share a body (fall
    through with no statement) share the text."""
    cells = {}
    i = 0
    depth = 0
    pending = []
    cur_labels = None
    cur_start = None
    n = len(body)
    pos = 0
    tokens = []  # (kind, label, start, end) at depth 0
    for m in re.finditer(r"[{}]|\bcase\s+([A-Za-z_:]+)\s*:|\bdefault\s*:", body):
        t = m.group(0)
        if t == "{":
            depth += 1
        elif t == "}":
            depth -= 1
        elif depth == 0:
            lab = m.group(1) if m.group(1) else "default"
            tokens.append((lab, m.start(), m.end()))
    for k, (lab, s, e) in enumerate(tokens):
        end = tokens[k + 1][1] if k + 1 < len(tokens) else n
        text = body[e:end]
        cells.setdefault(lab, text)
    # resolve fall-through for empty bodies
    labs = [t[0] for t in tokens]
    for k in range(len(labs) - 2, -1, -1):
        if cells[labs[k]].strip() == "":
            cells[labs[k]] = cells[labs[k + 1]]
    return cells


def inner_switch(text, on):
    m = re.search(r"switch\s*\(\s*" + re.escape(on) + r"\s*\)\s*\{", text)
    if not m:
        return None
    return function_body(text, r"switch\s*\(\s*" + re.escape(on) + r"\s*\)\s*\{")


NUMERIC = ["INTEGER", "AMOUNT", "BALANCE"]


def value_cells():
    """(op, lhs, rhs) -> normalised statement text for the numeric cells of
    value_t's + - * / operators and is_equal_to / is_less_than."""
    text = strip_comments(src("value.cc"))
    out = {}
    ops = [("+", r"value_t&\s+value_t::operator\+=\(const value_t& val\)\s*\{"),
           ("-", r"value_t&\s+value_t::operator-=\(const value_t& val\)\s*\{"),
           ("*", r"value_t&\s+value_t::operator\*=\(const value_t& val\)\s*\{"),
           ("/", r"value_t&\s+value_t::operator/=\(const value_t& val\)\s*\{"),
           ("==", r"bool\s+value_t::is_equal_to\(const value_t& val\) const\s*\{"),
           ("<", r"bool\s+value_t::is_less_than\(const value_t& val\) const\s*\{")]
    for op, sig in ops:
        body = function_body(text, sig)
        outer = inner_switch(body, "type()")
        need(outer is not None, "no switch(type()) in operator " + op)
        oc = split_cases(outer)
        for lhs in NUMERIC:
            need(lhs in oc, "operator %s: no case %s" % (op, lhs))
            inner = inner_switch(oc[lhs], "val.type()")
            need(inner is not None, "operator %s case %s: no inner switch" % (op, lhs))
            ic = split_cases(inner)
            for rhs in NUMERIC:
                cell = ic.get(rhs, ic.get("default", ""))
                out["%s:%s:%s" % (op, lhs, rhs)] = norm_ws(cell)
    return out


# cells whose text is interpreted (mapped to a model flag) instead of pinned
FLAG_CELLS = {
    "/:INTEGER:AMOUNT": ("intDivAmtSwapped", [
        (r"set_amount\(val\.as_amount\(\) / as_long\(\)\); return \*this;", True),
        (r"set_amount\(amount_t\(as_long\(\)\) / val\.as_amount\(\)\); return \*this;", False),
        (r"in_place_cast\(AMOUNT\); as_amount_lval\(\) /= val\.as_amount\(\); return \*this;", False)],
        "value.cc operator/=, INTEGER ÷ AMOUNT cell: does the source divide the amount by the integer (operands swapped)?"),
    "-:INTEGER:AMOUNT": ("intSubAmtPromotes", [
        (r"in_place_cast\(AMOUNT\); as_amount_lval\(\) -= val\.as_amount\(\); in_place_simplify\(\); return \*this;", False),
        (r"if \(val\.as_amount\(\)\.has_commodity\(\)\) \{ in_place_cast\(BALANCE\); \*this -= val; in_place_simplify\(\); return \*this; \} "
         r"in_place_cast\(AMOUNT\); as_amount_lval\(\) -= val\.as_amount\(\); in_place_simplify\(\); return \*this;", True)],
        "value.cc operator-=, INTEGER − AMOUNT cell: is a commoditized subtrahend promoted to a balance (as operator+= does)?"),
}


FLAG_CELLS["<:BALANCE:AMOUNT"] = ("ltBalanceSorted", [
    (r"\{ bool no_amounts = true; foreach \(const balance_t::amounts_map::value_type& pair, as_balance\(\)\.amounts\) \{ if \(pair\.second >= val\) return false; no_amounts = false; \} return ! no_amounts; \}", False),
    (r"\{ bool no_amounts = true; balance_t::amounts_array sorted; as_balance\(\)\.sorted_amounts\(sorted\); foreach \(const amount_t \* amt, sorted\) \{ if \(\*amt >= val\) return false; no_amounts = false; \} return ! no_amounts; \}", True)],
    "value.cc is_less_than, BALANCE < INTEGER/AMOUNT: are the balance's components walked in sorted_amounts order (true) or in unordered_map order (false)?")
# cells that must carry the same text as a flag cell (shared case labels)
SAME_AS = {"<:BALANCE:INTEGER": "<:BALANCE:AMOUNT"}


def gen_value_cells():
    cells = value_cells()
    need(len(cells) == 54, "expected 54 numeric value cells, got %d" % len(cells))
    for k, k2 in SAME_AS.items():
        need(cells[k] == cells[k2], "value.cc cell %s no longer shares its body with %s" % (k, k2))
        cells.pop(k)
    for k in FLAG_CELLS:
        cells.pop(k)
    lines = ["/- GENERATED by tools/extract.py from src/value.cc - do not edit. -/",
             "namespace Ledger.Gen", "",
             "/-- (operator:lhs:rhs, normalised C++ statement text) for the numeric cells of",
             "    value_t's operators, as found in the working tree (the cells that are",
             "    interpreted into flags of Gen.Consts are left out). -/",
             "def valueCells : List (String × String) := ["]
    items = ["  (%s, %s)" % (lean_str(k), lean_str(v)) for k, v in sorted(cells.items())]
    lines.append(",\n".join(items))
    lines.append("]")
    lines.append("")
    lines.append("end Ledger.Gen")
    return "\n".join(lines) + "\n"


def gen_consts():
    ah = strip_comments(src("amount.h"))
    m = re.search(r"static\s+const\s+std::size_t\s+extend_by_digits\s*=\s*(\d+)U?\s*;", ah)
    need(m, "amount.h: extend_by_digits not found")
    ext = int(m.group(1))
    cells = value_cells()
    lines = ["/- GENERATED by tools/extract.py - do not edit. -/",
             "namespace Ledger.Gen", "",
             "/-- amount.h: `extend_by_digits`. -/",
             "def extendByDigits : Nat := %d" % ext, ""]
    for key, (flag, pats, doc) in FLAG_CELLS.items():
        c = cells[key]
        val = None
        for pat, v in pats:
            if re.fullmatch(pat, c):
                val = v
        if val is None:
            raise ExtractError("value.cc cell %s not recognised: %s" % (key, c))
        lines += ["/-- %s -/" % doc, "def %s : Bool := %s" % (flag, "true" if val else "false"), ""]
    lines.append("end Ledger.Gen")
    return "\n".join(lines) + "\n"


def gen_invalid_chars():
    text = strip_comments(src("commodity.cc"))
    m = re.search(r"static\s+int\s+invalid_chars\[256\]\s*=\s*\{([^}]*)\}", text)
    need(m, "commodity.cc: invalid_chars[256] not found")
    vals = [int(x) for x in re.findall(r"\b[01]\b", m.group(1))]
    need(len(vals) == 256, "invalid_chars: expected 256 entries, got %d" % len(vals))
    body = function_body(text, r"bool\s+is_reserved_token\(const char \* buf\)\s*\{")
    toks = re.findall(r'std::strcmp\(buf,\s*"([a-z]+)"\)\s*==\s*0', body)
    need(len(toks) >= 1, "is_reserved_token: no tokens")
    lines = ["/- GENERATED by tools/extract.py from src/commodity.cc - do not edit. -/",
             "namespace Ledger.Gen", "",
             "/-- commodity.cc `invalid_chars[256]`: bytes that force a commodity symbol to be quoted. -/",
             "def invalidChars : List Bool := " +
             lean_list(["true" if v else "false" for v in vals]), "",
             "/-- commodity.cc `is_reserved_token`. -/",
             "def reservedTokens : List String := " + lean_list([lean_str(t) for t in toks]), "",
             "end Ledger.Gen"]
    return "\n".join(lines) + "\n"


def pin_functions(fname, sigs):
    """[(key, normalised body text)] for functions of src/<fname> found by signature regex."""
    text = strip_comments(src(fname))
    out = []
    for key, sig in sigs:
        body = function_body(text, sig)
        out.append((key, norm_ws(body)))
    return out


def gen_pairs(namespace_doc, defname, pairs, source):
    lines = ["/- GENERATED by tools/extract.py from %s - do not edit. -/" % source,
             "namespace Ledger.Gen", "", "/-- %s -/" % namespace_doc,
             "def %s : List (String × String) := [" % defname,
             ",\n".join("  (%s, %s)" % (lean_str(k), lean_str(v)) for k, v in pairs), "]", "", "end Ledger.Gen"]
    return "\n".join(lines) + "\n"


AMOUNT_FNS = [
    ("amount.cc:compare", r"int\s+amount_t::compare\(const amount_t& amt\) const\s*\{"),
    ("amount.cc:operator==", r"bool\s+amount_t::operator==\(const amount_t& amt\) const\s*\{"),
    ("amount.cc:operator+=", r"amount_t&\s+amount_t::operator\+=\(const amount_t& amt\)\s*\{"),
    ("amount.cc:operator-=", r"amount_t&\s+amount_t::operator-=\(const amount_t& amt\)\s*\{"),
    ("amount.cc:multiply", r"amount_t&\s+amount_t::multiply\(const amount_t& amt, bool ignore_commodity\)\s*\{"),
    ("amount.cc:operator/=", r"amount_t&\s+amount_t::operator/=\(const amount_t& amt\)\s*\{"),
    ("amount.cc:in_place_negate", r"void\s+amount_t::in_place_negate\(\)\s*\{"),
    ("amount.cc:in_place_roundto", r"void\s+amount_t::in_place_roundto\(int places\)\s*\{"),
    ("amount.cc:sign", r"int\s+amount_t::sign\(\) const\s*\{"),
    ("amount.cc:is_zero", r"bool\s+amount_t::is_zero\(\) const\s*\{"),
]
BALANCE_FNS = [
    ("balance.cc:operator+=(balance)", r"balance_t&\s+balance_t::operator\+=\(const balance_t& bal\)\s*\{"),
    ("balance.cc:operator+=(amount)", r"balance_t&\s+balance_t::operator\+=\(const amount_t& amt\)\s*\{"),
    ("balance.cc:operator-=(balance)", r"balance_t&\s+balance_t::operator-=\(const balance_t& bal\)\s*\{"),
    ("balance.cc:operator-=(amount)", r"balance_t&\s+balance_t::operator-=\(const amount_t& amt\)\s*\{"),
    ("balance.cc:operator*=(amount)", r"balance_t&\s+balance_t::operator\*=\(const amount_t& amt\)\s*\{"),
    ("balance.cc:operator/=(amount)", r"balance_t&\s+balance_t::operator/=\(const amount_t& amt\)\s*\{"),
]
VALUE_FNS = [
    ("value.cc:in_place_simplify", r"void\s+value_t::in_place_simplify\(\)\s*\{"),
    ("value.cc:in_place_negate", r"void\s+value_t::in_place_negate\(\)\s*\{"),
    ("value.cc:abs", r"value_t\s+value_t::abs\(\) const\s*\{"),
    ("value.cc:to_amount", r"amount_t\s+value_t::to_amount\(\) const\s*\{"),
]


def gen_amount_fns():
    pairs = pin_functions("amount.cc", AMOUNT_FNS) + pin_functions("balance.cc", BALANCE_FNS) + \
        pin_functions("value.cc", VALUE_FNS)
    bh = strip_comments(src("balance.h"))
    for key, sig in [("balance.h:operator==(balance)", r"bool\s+operator==\(const balance_t& bal\) const\s*\{"),
                     ("balance.h:operator==(amount)", r"bool\s+operator==\(const amount_t& amt\) const\s*\{"),
                     ("balance.h:balance_t(amount)", r"balance_t\(const amount_t& amt\)\s*\{")]:
        pairs.append((key, norm_ws(function_body(bh, sig))))
    return gen_pairs("Normalised bodies of the amount_t / balance_t / value_t routines that Model/Value.lean mirrors.",
                     "amountFns", pairs, "src/amount.cc, src/balance.cc, src/balance.h, src/value.cc")


EXTRACTORS = {
    "AmountFns": gen_amount_fns,
    "Consts": gen_consts,
    "ValueCells": gen_value_cells,
    "InvalidChars": gen_invalid_chars,
}

# every tools/extract_*.py contributes MORE = {GenFileName: function returning the file's text}
import glob as _glob, importlib as _importlib
sys.path.insert(0, os.path.dirname(os.path.abspath(__file__)))
for _p in sorted(_glob.glob(os.path.join(os.path.dirname(os.path.abspath(__file__)), "extract_*.py"))):
    _m = _importlib.import_module(os.path.basename(_p)[:-3])
    EXTRACTORS.update(getattr(_m, "MORE", {}))


def run(only=None):
    """Regenerate Gen files. Returns {name: None | error string}."""
    os.makedirs(GEN, exist_ok=True)
    res = {}
    for name, fn in EXTRACTORS.items():
        if only and name not in only:
            continue
        path = os.path.join(GEN, name + ".lean")
        try:
            content = fn()
        except ExtractError as e:
            res[name] = str(e)
            continue
        except Exception as e:  # shape changed in a way the extractor did not foresee
            res[name] = "%s: %s" % (type(e).__name__, e)
            continue
        old = None
        if os.path.exists(path):
            with open(path, encoding="utf-8") as f:
                old = f.read()
        if old != content:
            with open(path, "w", encoding="utf-8") as f:
                f.write(content)
        res[name] = None
    return res


if __name__ == "__main__":
    r = run(sys.argv[1:] or None)
    print(json.dumps(r, indent=1))
    sys.exit(1 if any(v for v in r.values()) else 0)
