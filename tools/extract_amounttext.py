"""Translator part for C04: constants and code shapes of the amount printer /
reader that Model/AmountText.lean mirrors, re-extracted from /repo/src on every
run into lean/LedgerModel/Gen/AmountText.lean.

* numeric constants the model is parameterised by (buffer capacities of
  parse_quantity / parse_symbol, the zeros_prec / precision arguments amount_t::print
  passes to stream_out_mpq);
* the normalised text of every function the model mirrors step by step
  (`Gen.amountTextCode`); Props/C04.lean compares it with the pinned copy the
  model was written against (`C04.code_pinned`), so an edit of the rounding mode,
  the grouping counter, the comma/period state machine, the quoting rule ...
  breaks a proof obligation and aims the search.
"""
import re
import extract
from extract import src, strip_comments, function_body, need, lean_str, norm_ws, ExtractError


def _amount_cc():
    return strip_comments(src("amount.cc"))


def _strip_debug(body):
    """Drop DEBUG(...) / IF_DEBUG blocks / TRACE lines / `#if DEBUG_ON … #endif` and `#if 0 … #endif`:
    they do not take part in the behaviour."""
    body = re.sub(r"#if\s+DEBUG_ON.*?#endif", "", body, flags=re.S)
    body = re.sub(r"#if\s+0\b.*?#endif", "", body, flags=re.S)
    out = []
    i = 0
    while i < len(body):
        m = re.compile(r"\b(DEBUG|TRACE_CTOR|TRACE_DTOR|VERIFY)\s*\(").search(body, i)
        m2 = re.compile(r"\bIF_DEBUG\s*\([^)]*\)\s*\{").search(body, i)
        if m2 and (not m or m2.start() < m.start()):
            out.append(body[i:m2.start()])
            j = m2.end() - 1
            depth = 0
            while True:
                if body[j] == "{":
                    depth += 1
                elif body[j] == "}":
                    depth -= 1
                    if depth == 0:
                        break
                j += 1
            i = j + 1
            continue
        if not m:
            out.append(body[i:])
            break
        out.append(body[i:m.start()])
        j = m.end() - 1
        depth = 0
        instr = False
        while True:
            ch = body[j]
            if instr:
                if ch == "\\":
                    j += 1
                elif ch == '"':
                    instr = False
            elif ch == '"':
                instr = True
            elif ch == "(":
                depth += 1
            elif ch == ")":
                depth -= 1
                if depth == 0:
                    break
            j += 1
        j += 1
        while j < len(body) and body[j] in " \t":
            j += 1
        if j < len(body) and body[j] == ";":
            j += 1
        i = j
    return norm_ws("".join(out))


def code_shapes():
    a = _amount_cc()
    c = strip_comments(src("commodity.cc"))
    p = strip_comments(src("pool.cc"))
    u = strip_comments(src("utils.h"))
    shapes = {}
    shapes["amount.cc:stream_out_mpq"] = _strip_debug(function_body(
        a, r"void\s+stream_out_mpq\(std::ostream&\s+out,[^)]*\)\s*\{"))
    shapes["amount.cc:parse_quantity"] = _strip_debug(function_body(
        a, r"void\s+parse_quantity\(std::istream& in, string& value\)\s*\{"))
    shapes["amount.cc:amount_t::parse"] = _strip_debug(function_body(
        a, r"bool\s+amount_t::parse\(std::istream& in, const parse_flags_t& flags\)\s*\{"))
    shapes["amount.cc:amount_t::print"] = _strip_debug(function_body(
        a, r"void\s+amount_t::print\(std::ostream& _out, const uint_least8_t flags\) const\s*\{"))
    shapes["amount.cc:amount_t::display_precision"] = _strip_debug(function_body(
        a, r"amount_t::precision_t\s+amount_t::display_precision\(\) const\s*\{"))
    shapes["amount.cc:amount_t::is_zero"] = _strip_debug(function_body(
        a, r"bool\s+amount_t::is_zero\(\) const\s*\{"))
    v = strip_comments(src("value.cc"))
    vp = _strip_debug(function_body(v, r"void\s+value_t::print\(std::ostream&\s+_out,\s*const int\s+first_width,"
                                       r"\s*const int\s+latter_width,\s*const uint_least8_t flags\) const\s*\{"))
    m = re.search(r"case AMOUNT: \{ (.*?) break; \}", vp)
    need(m, "value.cc value_t::print: AMOUNT case not found")
    shapes["value.cc:value_t::print:AMOUNT"] = m.group(1).strip()
    m = re.search(r"^(.*?)switch \(type\(\)\)", vp)
    need(m, "value.cc value_t::print: prologue not found")
    shapes["value.cc:value_t::print:prologue"] = m.group(1).strip()
    shapes["amount.cc:amount_t::in_place_roundto"] = _strip_debug(function_body(
        a, r"void\s+amount_t::in_place_roundto\(int places\)\s*\{"))
    shapes["commodity.cc:parse_symbol"] = _strip_debug(function_body(
        c, r"void\s+commodity_t::parse_symbol\(std::istream& in, string& symbol\)\s*\{"))
    shapes["commodity.cc:commodity_t::print"] = _strip_debug(function_body(
        c, r"void\s+commodity_t::print\(std::ostream& out, bool elide_quotes, bool\) const\s*\{"))
    # the quoting block of create() is interpreted into a flag (symbol_flags), not pinned
    create = _strip_debug(function_body(p, r"commodity_t \*\s*commodity_pool_t::create\(const string& symbol\)\s*\{"))
    blk, _ = _quoting_block(create)
    shapes["pool.cc:commodity_pool_t::create"] = create.replace(blk, "<QUOTING>")
    m = re.search(r"#define READ_INTO\(str, targ, size, var, cond\)\s*\{(.*?)\n\s*\}\s*\n", u, flags=re.S)
    need(m, "utils.h: READ_INTO not found")
    shapes["utils.h:READ_INTO"] = norm_ws(m.group(1).replace("\\\n", "\n").replace("\\", "\\"))
    shapes["utils.h:peek_next_nonws"] = _strip_debug(function_body(
        u, r"inline\s+int\s+peek_next_nonws\(std::istream& in\)\s*\{"))
    return shapes


QUOTING_PLAIN = ('commodity->qualified_symbol = "\\""; *commodity->qualified_symbol += symbol; '
                 '*commodity->qualified_symbol += "\\"";')
QUOTING_ESCAPED = ('commodity->qualified_symbol = "\\""; foreach (char ch, symbol) { if (ch == \'"\' || ch == \'\\\\\') '
                   '*commodity->qualified_symbol += \'\\\\\'; *commodity->qualified_symbol += ch; } '
                   '*commodity->qualified_symbol += "\\"";')


def _quoting_block(create_body):
    """the statements inside `if (commodity_t::symbol_needs_quotes(symbol)) { ... }` of pool create():
    (text, escapes?) - only the two known shapes are recognised."""
    m = re.search(r"if \(commodity_t::symbol_needs_quotes\(symbol\)\) \{ (.*?) \} commodities\.insert", create_body)
    need(m, "pool.cc create(): quoting block not found")
    blk = m.group(1)
    if blk == QUOTING_PLAIN:
        return blk, False
    if blk == QUOTING_ESCAPED:
        return blk, True
    raise ExtractError("pool.cc create(): unknown quoting block: " + blk)


def symbol_flags():
    """How the printer protects a symbol, read from commodity.cc symbol_needs_quotes and pool.cc create():
    quotes also for a backslash / double quote? quotes for a reserved word? escapes inside the quotes?"""
    c = strip_comments(src("commodity.cc"))
    p = strip_comments(src("pool.cc"))
    body = norm_ws(function_body(c, r"bool\s+commodity_t::symbol_needs_quotes\(const string& symbol\)\s*\{"))
    m = re.fullmatch(r"foreach \(char ch, symbol\) if \((.*)\) return true; return (.*);", body)
    need(m, "commodity.cc symbol_needs_quotes: unknown shape: " + body)
    cond, ret = m.group(1), m.group(2)
    base = "invalid_chars[static_cast<unsigned char>(ch)]"
    if cond == base:
        bq = False
    elif cond in (base + " || ch == '\\\\' || ch == '\"'", base + " || ch == '\"' || ch == '\\\\'"):
        bq = True
    else:
        raise ExtractError("commodity.cc symbol_needs_quotes: unknown condition: " + cond)
    if ret == "false":
        res = False
    elif ret == "is_reserved_token(symbol.c_str())":
        res = True
    else:
        raise ExtractError("commodity.cc symbol_needs_quotes: unknown result: " + ret)
    create = _strip_debug(function_body(p, r"commodity_t \*\s*commodity_pool_t::create\(const string& symbol\)\s*\{"))
    _, esc = _quoting_block(create)
    return dict(symbolQuotesReserved=res, symbolQuotesBackslashQuote=bq, symbolEscapesBackslashQuote=esc)


def constants():
    a = _amount_cc()
    c = strip_comments(src("commodity.cc"))
    pq = function_body(a, r"void\s+parse_quantity\(std::istream& in, string& value\)\s*\{")
    m = re.search(r"char\s+buf\[(\d+)\];.*?int\s+max\s*=\s*(\d+)\s*;", pq, flags=re.S)
    need(m, "parse_quantity: buf / max not found")
    need(int(m.group(2)) < int(m.group(1)), "parse_quantity: max does not leave room for the terminator")
    qmax = int(m.group(2))
    need(re.search(r"if\s*\(c == '-'\)\s*\{\s*\*p\+\+ = c;\s*max--;", pq), "parse_quantity: sign handling changed")
    ps = function_body(c, r"void\s+commodity_t::parse_symbol\(std::istream& in, string& symbol\)\s*\{")
    m1 = re.search(r"READ_INTO\(in, buf, (\d+), c, c != '\"'\)", ps)
    m2 = re.search(r"while\s*\(_p - buf < (\d+)\s*&&", ps)
    mb = re.search(r"char\s+buf\[(\d+)\];", ps)
    need(m1 and m2 and mb, "parse_symbol: capacities not found")
    need(int(m1.group(1)) == int(m2.group(1)) < int(mb.group(1)), "parse_symbol: capacities disagree")
    smax = int(m1.group(1))
    so = function_body(a, r"void\s+stream_out_mpq\(std::ostream&\s+out,[^)]*\)\s*\{")
    m = re.search(r'mpfr_asprintf\(&buf,\s*"([^"]*)",\s*precision,\s*tempfb\)', so)
    need(m, "stream_out_mpq: mpfr_asprintf call not found")
    fmt = m.group(1)
    m = re.search(r"mpfr_rnd_t\s+rnd\s*=\s*([A-Z_]+)", a)
    need(m, "stream_out_mpq: default rounding mode not found")
    rnd = m.group(1)
    pr = function_body(a, r"void\s+amount_t::print\(std::ostream& _out, const uint_least8_t flags\) const\s*\{")
    m = re.search(r"stream_out_mpq\(out, MP\(quantity\), display_precision\(\),\s*comm \? commodity\(\)\.precision\(\) : 0, ([A-Z_]+), comm\);", pr)
    need(m, "amount_t::print: call of stream_out_mpq changed")
    prnd = m.group(1)
    return dict(quantityBufMax=qmax, symbolBufMax=smax, mpfrFormat=fmt, defaultRnd=rnd, printRnd=prnd)


def gen_amount_text():
    k = constants()
    fl = symbol_flags()
    shapes = code_shapes()
    lines = ["/- GENERATED by tools/extract_amounttext.py from src/amount.cc, commodity.cc, pool.cc, utils.h - do not edit. -/",
             "namespace Ledger.Gen", "",
             "/-- amount.cc parse_quantity: `int max = 255` (characters copied into `char buf[256]`). -/",
             "def quantityBufMax : Nat := %d" % k["quantityBufMax"], "",
             "/-- commodity.cc parse_symbol: capacity of both copy loops. -/",
             "def symbolBufMax : Nat := %d" % k["symbolBufMax"], "",
             "/-- amount.cc stream_out_mpq: the MPFR conversion (`R` = mpfr_t, `N` = round to nearest, `f` = fixed). -/",
             "def mpfrFormat : String := %s" % lean_str(k["mpfrFormat"]), "",
             "/-- rounding mode amount_t::print passes / stream_out_mpq defaults to. -/",
             "def printRnd : String := %s" % lean_str(k["printRnd"]),
             "def defaultRnd : String := %s" % lean_str(k["defaultRnd"]), "",
             "/-- commodity.cc symbol_needs_quotes: does it end in `return is_reserved_token(symbol.c_str())`? -/",
             "def symbolQuotesReserved : Bool := %s" % ("true" if fl["symbolQuotesReserved"] else "false"), "",
             "/-- commodity.cc symbol_needs_quotes: does a backslash or a double quote force quotes? -/",
             "def symbolQuotesBackslashQuote : Bool := %s" % ("true" if fl["symbolQuotesBackslashQuote"] else "false"), "",
             "/-- pool.cc create(): are backslash and double quote escaped inside the quoted symbol? -/",
             "def symbolEscapesBackslashQuote : Bool := %s" % ("true" if fl["symbolEscapesBackslashQuote"] else "false"), "",
             "/-- normalised text of the functions Model/AmountText.lean mirrors (the spots interpreted into the",
             "    three flags above are left out / replaced by <QUOTING>). -/",
             "def amountTextCode : List (String × String) := ["]
    lines.append(",\n".join("  (%s, %s)" % (lean_str(n), lean_str(t)) for n, t in sorted(shapes.items())))
    lines += ["]", "", "end Ledger.Gen"]
    return "\n".join(lines) + "\n"


MORE = {"AmountText": gen_amount_text}

if __name__ == "__main__":
    print(gen_amount_text())
