"""Translator part of C09: re-extract from /repo/src the shape of the balance
assertion / assignment code the Lean model (Model/Assert.lean) mirrors.

Gen/Assert.lean gets
  * `block`            the statements of the `=` block of instance_t::parse_post
                       (textual.cc), comments and DEBUG() removed, whitespace
                       normalised, split at `;` `{` `}`; the two statements that
                       are *interpreted* (below) are abstracted out;
  * `virtualCountsSameXactReal : Bool`   the filter of the loop over the earlier
                       postings of the same transaction (textual.cc ~1714):
                       does an assertion on a VIRTUAL posting also subtract
                       earlier REAL postings of the same transaction?
  * `ownAmountBeforeRestriction : Bool`  is the posting's own amount subtracted
                       before the restriction to the asserted commodity?
  * `permissiveWiring` --permissive -> CHECK_PERMISSIVE -> no_assertions.
Gen/AssertFns.lean (`Gen.assertFns`, extract.pin_functions / gen_pairs) gets the
normalised bodies of the other routines the model mirrors: account_t::amount and
add_post, post_t::add_to_value, add_or_set_value, balance_t::commodity_amount /
is_zero / is_empty / to_amount / operator=(amount), xact_base_t::finalize and
add_post, journal_t::add_xact, instance_t::xact_directive.
Pinned copies: Model/AssertPinned.lean, Model/AssertFnsPinned.lean
(tools/repin.py Assert; tools/repin.py AssertFns); `C09.source_pinned`,
`C09.assert_fns_pinned` compare them by `rfl`.
An unrecognised shape raises ExtractError (the tie is then reported broken).
"""
import re
from extract import src, strip_comments, function_body, need, lean_str, norm_ws, pin_functions, gen_pairs, ExtractError


def _skip_string(t, j):
    q = t[j]
    j += 1
    while t[j] != q:
        if t[j] == "\\":
            j += 1
        j += 1
    return j + 1


def drop_calls(text, name):
    """Remove every `name(...);` statement (balanced parentheses, string aware)."""
    out = []
    i = 0
    pat = re.compile(r"\b" + re.escape(name) + r"\s*\(")
    while True:
        m = pat.search(text, i)
        if not m:
            out.append(text[i:])
            break
        out.append(text[i:m.start()])
        j = m.end()
        depth = 1
        while depth:
            ch = text[j]
            if ch in "\"'":
                j = _skip_string(text, j)
                continue
            if ch == "(":
                depth += 1
            elif ch == ")":
                depth -= 1
            j += 1
        while text[j].isspace():
            j += 1
        need(text[j] == ";", "%s(...) not followed by ';'" % name)
        i = j + 1
    return "".join(out)


def statements(text):
    """Normalise whitespace and split at ; { } (delimiter kept with its statement),
    never inside a string/char literal or parentheses."""
    res = []
    cur = []
    depth = 0
    i = 0
    n = len(text)
    while i < n:
        ch = text[i]
        if ch in "\"'":
            j = _skip_string(text, i)
            cur.append(text[i:j])
            i = j
            continue
        if ch == "(":
            depth += 1
        elif ch == ")":
            depth -= 1
        cur.append(ch)
        if depth == 0 and ch in ";{}":
            s = re.sub(r"\s+", " ", "".join(cur)).strip()
            if s:
                res.append(s)
            cur = []
        i += 1
    s = re.sub(r"\s+", " ", "".join(cur)).strip()
    if s:
        res.append(s)
    return res


def squeeze(s):
    return re.sub(r"\s+", "", s)


P_ACC = "p->account==post->account"
PV = "p->has_flags(POST_VIRTUAL)"
QV = "post->has_flags(POST_VIRTUAL)"
FILTERS = {
    # pinned source: same virtual-ness only
    P_ACC + "&&" + PV + "==" + QV: False,
    # repaired forms: an ordinary asserting posting counts ordinary ones, a virtual one counts both
    P_ACC + "&&(" + QV + "||!" + PV + ")": True,
    P_ACC + "&&(!" + PV + "||" + QV + ")": True,
    P_ACC + "&&(" + PV + "==" + QV + "||" + QV + ")": True,
    P_ACC + "&&(" + QV + "||" + PV + "==" + QV + ")": True,
}
OWN = "diff -= post->amount.strip_annotations(keep_details_t());"
OWN_GUARD = "if (! post->amount.is_null())"
FILTER_MARK = "if (<same-xact-filter>) {"


def assert_block():
    text = strip_comments(src("textual.cc"))
    body = function_body(text, r"post_t\s*\*\s*instance_t::parse_post\s*\(")
    blk = function_body(body, r"if\s*\(\s*xact\s*&&\s*next\s*&&\s*\*next\s*==\s*'='\s*\)\s*\{")
    blk = drop_calls(blk, "DEBUG")
    st = statements(blk)
    # 1. the same-transaction filter
    idx = [k for k, s in enumerate(st) if re.match(r"for \(post_t\s*\*\s*p : xact->posts\) \{$", s)]
    need(len(idx) == 1, "textual.cc: expected exactly one loop over xact->posts in the '=' block, found %d" % len(idx))
    k = idx[0]
    m = re.match(r"if \((.*)\) \{$", st[k + 1])
    need(m, "textual.cc: the loop over xact->posts does not start with an if: %r" % st[k + 1])
    cond = squeeze(m.group(1))
    need(cond in FILTERS, "textual.cc: same-transaction filter not recognised: %s" % m.group(1))
    virt_counts_real = FILTERS[cond]
    st[k + 1] = FILTER_MARK
    # 2. where the posting's own amount is subtracted
    own = [j for j, s in enumerate(st) if s == OWN or s == OWN_GUARD + " " + OWN]
    need(len(own) == 1, "textual.cc: expected exactly one subtraction of the posting's own amount, found %d" % len(own))
    j = own[0]
    restr = [r for r, s in enumerate(st) if s == "if (amt.has_commodity()) {"]
    need(len(restr) == 1, "textual.cc: commodity restriction `if (amt.has_commodity())` not found once")
    if st[j] != OWN:
        need(k < j < restr[0], "textual.cc: guarded own-amount subtraction is not between the loop over xact->posts and the restriction")
        before = True
        del st[j]
    elif j > restr[0]:
        need(st[j - 1] == "else {", "textual.cc: own-amount subtraction after the restriction is not in the assertion branch")
        before = False
        del st[j]
    else:
        need(j >= 1 and st[j - 1] == OWN_GUARD or (j >= 2 and st[j - 1] == "{" and st[j - 2] == OWN_GUARD),
             "textual.cc: own-amount subtraction before the restriction is not guarded by `if (! post->amount.is_null())`")
        need(j > k, "textual.cc: own-amount subtraction precedes the loop over xact->posts")
        before = True
        if st[j - 1] == OWN_GUARD:
            del st[j - 1:j + 1]
        else:
            need(st[j + 1] == "}", "textual.cc: unexpected statements next to the own-amount subtraction")
            del st[j - 2:j + 2]
    need("Balance assertion off by %1% (expected to see %2%)" in " ".join(st), "textual.cc: error text of a failed assertion not found")
    return st, virt_counts_real, before


def permissive_wiring():
    s = strip_comments(src("session.cc"))
    m = re.search(r"if \(HANDLED\(permissive\)\)\s*journal->checking_style = journal_t::CHECK_PERMISSIVE;", s)
    need(m, "session.cc: --permissive no longer sets CHECK_PERMISSIVE")
    t = strip_comments(src("textual.cc"))
    body = function_body(t, r"std::size_t\s+journal_t::read_textual\s*\(")
    m2 = re.search(r"instance_t instance\(([^;]*)\);", body)
    need(m2, "textual.cc: read_textual no longer constructs an instance_t")
    args = [re.sub(r"\s+", " ", a).strip() for a in m2.group(1).split(",")]
    ctor = re.search(r"instance_t\(parse_context_stack_t& _context_stack,\s*parse_context_t& _context,\s*instance_t \* _parent = NULL,"
                     r"\s*const bool _no_assertions = false,", re.sub(r"\s+", " ", t))
    need(ctor, "textual.cc: instance_t constructor no longer takes _no_assertions as its 4th parameter")
    need(len(args) >= 4, "textual.cc: read_textual passes fewer than 4 arguments to instance_t")
    return [re.sub(r"\s+", " ", m.group(0)), "no_assertions := " + args[3]]


def lean_strs(name, doc, items):
    out = ["/-- %s -/" % doc, "def %s : List String := [" % name]
    out.append(",\n".join("  " + lean_str(s) for s in items))
    out.append("]")
    out.append("")
    return out


def gen_assert():
    st, virt_counts_real, before = assert_block()
    lines = ["/- GENERATED by tools/extract_assert.py from src/textual.cc, account.cc, balance.cc, xact.cc, session.cc - do not edit. -/",
             "namespace Ledger.Gen.Assert", ""]
    lines += lean_strs("block", "textual.cc instance_t::parse_post, the `= AMOUNT` block: statements with comments and DEBUG() removed; "
                       "the same-transaction filter and the own-amount subtraction are interpreted into the two flags below.", st)
    lines += ["/-- textual.cc, filter of the loop over the earlier postings of the same transaction: does an assertion on a",
              "    virtual posting also subtract earlier ORDINARY postings of that transaction to the same account? -/",
              "def virtualCountsSameXactReal : Bool := %s" % ("true" if virt_counts_real else "false"), "",
              "/-- textual.cc: is the posting's own amount subtracted before the restriction to the asserted commodity",
              "    (so that an own amount of another commodity does not enter the comparison)? -/",
              "def ownAmountBeforeRestriction : Bool := %s" % ("true" if before else "false"), ""]
    lines += lean_strs("permissiveWiring", "session.cc / textual.cc: --permissive -> CHECK_PERMISSIVE -> no_assertions.", permissive_wiring())
    lines.append("end Ledger.Gen.Assert")
    return "\n".join(lines) + "\n"


def gen_assert_fns():
    pairs = pin_functions("account.cc", [
        ("account.cc:amount", r"value_t\s+account_t::amount\s*\(const optional<bool> real_only"),
        ("account.cc:add_post", r"void\s+account_t::add_post\s*\(post_t \* post\)\s*\{")])
    pairs += pin_functions("post.cc", [
        ("post.cc:add_to_value", r"void\s+post_t::add_to_value\s*\(value_t& value, const optional<expr_t&>& expr\) const\s*\{")])
    pairs += pin_functions("value.h", [
        ("value.h:add_or_set_value", r"inline\s+value_t&\s+add_or_set_value\s*\(value_t& lhs, const T& rhs\)\s*\{")])
    pairs += pin_functions("balance.cc", [
        ("balance.cc:commodity_amount", r"balance_t::commodity_amount\s*\(const optional<const commodity_t&>& commodity\) const\s*\{")])
    pairs += pin_functions("balance.h", [
        ("balance.h:operator=(amount)", r"balance_t&\s+operator=\(const amount_t& amt\)\s*\{"),
        ("balance.h:is_zero", r"bool\s+is_zero\(\) const\s*\{"),
        ("balance.h:is_empty", r"bool\s+is_empty\(\) const\s*\{"),
        ("balance.h:to_amount", r"amount_t\s+to_amount\(\) const\s*\{")])
    pairs += pin_functions("xact.cc", [
        ("xact.cc:xact_base_t::add_post", r"void\s+xact_base_t::add_post\s*\(post_t \* post\)\s*\{"),
        ("xact.cc:finalize", r"bool\s+xact_base_t::finalize\s*\(\s*\)\s*\{")])
    pairs += pin_functions("journal.cc", [
        ("journal.cc:add_xact", r"bool\s+journal_t::add_xact\s*\(xact_t \* xact\)\s*\{")])
    pairs += pin_functions("textual.cc", [
        ("textual.cc:xact_directive", r"xact_t \*\s*instance_t::xact_directive\s*\(")])
    return gen_pairs("Normalised bodies of the routines around the `= AMOUNT` block that Model/Assert.lean mirrors.",
                     "assertFns", pairs, "src/account.cc, post.cc, value.h, balance.cc, balance.h, xact.cc, journal.cc, textual.cc")


MORE = {"Assert": gen_assert, "AssertFns": gen_assert_fns}

if __name__ == "__main__":
    print(gen_assert())
    print(gen_assert_fns())
