"""Translator part of C16: re-extract the automated-transaction code that
Model/AutoXact.lean mirrors from /repo/src into lean/LedgerModel/Gen/AutoXact.lean
(`Ledger.Gen.autoXactFns : List (String × String)`, normalised comment-stripped
text).  Props/C16.lean proves `Gen.autoXactFns = Pinned.autoXactFns` by `rfl`
(Model/AutoXactPinned.lean is the copy the model was written against, refreshed
only by hand with `tools/repin.py AutoXact`), so an edit to any of these
functions breaks a Lean obligation of C16 even when the generators do not reach
the changed path; the check then widens its streams and searches.

Whole bodies (extract.pin_functions):
  xact.cc:extend_xact        auto_xact_t::extend_xact
  xact.cc:post_pred          the quick account-only evaluator
  xact.cc:verify             xact_base_t::verify
  xact.cc:add_balancing_post add_balancing_post::operator()
  journal.cc:extend_xact     journal_t::extend_xact
  journal.cc:add_xact        journal_t::add_xact
  post.cc:fn_any / fn_all    any() / all() over the live `post.xact->posts`
  item.cc:append_note, item.h:copy_details, xact.h:auto_xact_t::parse_tags   (notes, state, deferred notes)
  pool.cc:exchange           the lot annotation finalize gives a posting with a cost
Individual statements of extend_xact the model's definitions correspond to, each
asserted to be present and in this order (ExtractError names the missing one):
  stmt:snapshot, stmt:loop, stmt:skip_generated, stmt:amount_rule,
  stmt:flag_generated, stmt:append, stmt:needs_verify, stmt:verify_call
and `stmt:finalize_before_extend` in journal_t::add_xact.
"""
import re
from extract import need, pin_functions, gen_pairs

XACT_FNS = [
    ("xact.cc:extend_xact", r"void\s+auto_xact_t::extend_xact\(xact_base_t& xact, parse_context_t& context\)\s*\{"),
    ("xact.cc:post_pred", r"bool\s+post_pred\(expr_t::ptr_op_t op, post_t& post\)\s*\{"),
    ("xact.cc:verify", r"bool\s+xact_base_t::verify\(\)\s*\{"),
    ("xact.cc:add_balancing_post", r"void\s+operator\(\)\(const amount_t& amount\)\s*\{"),
]
POST_FNS = [
    ("post.cc:fn_any", r"value_t\s+fn_any\(call_scope_t& args\)\s*\{"),
    ("post.cc:fn_all", r"value_t\s+fn_all\(call_scope_t& args\)\s*\{"),
]
ITEM_FNS = [
    ("item.cc:append_note", r"void\s+item_t::append_note\(const char \* p,\s*scope_t&\s+scope,\s*bool\s+overwrite_existing\)\s*\{"),
]
ITEM_H_FNS = [
    ("item.h:copy_details", r"virtual void copy_details\(const item_t& item\)\s*\{"),
]
XACT_H_FNS = [
    ("xact.h:auto_xact_t::parse_tags", r"virtual void parse_tags\(const char \* p, scope_t&,\s*bool overwrite_existing = true\)\s*\{"),
]
POOL_FNS = [
    ("pool.cc:exchange", r"cost_breakdown_t\s+commodity_pool_t::exchange\(const amount_t&\s+amount,"),
]
JOURNAL_FNS = [
    ("journal.cc:extend_xact", r"void\s+journal_t::extend_xact\(xact_base_t \* xact\)\s*\{"),
    ("journal.cc:add_xact", r"bool\s+journal_t::add_xact\(xact_t \* xact\)\s*\{"),
]
STMTS = [
    ("stmt:snapshot", "posts_list initial_posts(xact.posts.begin(), xact.posts.end());"),
    ("stmt:loop", "foreach (post_t * initial_post, initial_posts) {"),
    ("stmt:skip_generated", "if (initial_post->has_flags(ITEM_GENERATED)) continue;"),
    ("stmt:amount_rule", "amount_t amt; if (! post_amount.commodity()) amt = initial_post->amount * post_amount; else amt = post_amount;"),
    ("stmt:flag_generated", "new_post->add_flags(ITEM_GENERATED);"),
    ("stmt:append", "xact.add_post(new_post);"),
    ("stmt:needs_verify", "if (new_post->must_balance()) needs_further_verification = true;"),
    ("stmt:verify_call", "if (needs_further_verification) xact.verify();"),
]


def pairs():
    out = pin_functions("xact.cc", XACT_FNS) + pin_functions("journal.cc", JOURNAL_FNS) + pin_functions("post.cc", POST_FNS) + \
        pin_functions("item.cc", ITEM_FNS) + pin_functions("item.h", ITEM_H_FNS) + pin_functions("xact.h", XACT_H_FNS) + \
        pin_functions("pool.cc", POOL_FNS)
    d = dict(out)
    ext = d["xact.cc:extend_xact"]
    pos = -1
    for name, text in STMTS:
        k = ext.find(text)
        need(k >= 0, "xact.cc extend_xact: statement `%s` (%s) not found" % (text, name))
        need(k > pos, "xact.cc extend_xact: statement `%s` (%s) out of order" % (text, name))
        pos = k
        out.append((name, text))
    add = d["journal.cc:add_xact"]
    m = re.match(r"xact->journal = this; if \(! xact->finalize\(\)\) \{ xact->journal = NULL; return false; \} extend_xact\(xact\);", add)
    need(m, "journal.cc add_xact: no longer `finalize()` then `extend_xact(xact)` first")
    out.append(("stmt:finalize_before_extend", m.group(0)))
    return out


def gen_autoxact():
    return gen_pairs("Normalised text of the automated-transaction code that Model/AutoXact.lean mirrors.",
                     "autoXactFns", pairs(), "src/xact.cc, journal.cc, post.cc, item.cc, item.h, xact.h, pool.cc (tools/extract_autoxact.py)")


MORE = {"AutoXact": gen_autoxact}

if __name__ == "__main__":
    import sys
    sys.stdout.write(gen_autoxact())
