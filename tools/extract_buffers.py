#!/usr/bin/env python3
"""Translator part of C11: every fixed-size character buffer of /repo/src and the
routine that fills it, re-extracted on every run into Gen/BufferSites.lean.

For each site: (name, kind, capacity, offset, limit, extra, terminator, source line).
The safety theorem `C11.all_sites_safe_partial` is a `decide` over this table, so
changing `READ_INTO(in, buf, 255, ...)` to 256, shrinking an array or dropping a
length guard breaks a Lean obligation.  Completeness: every `char x[N]` array and
every raw copy call (strcpy, strncpy, strcat, sprintf, memcpy, getline, ...) in
src/*.cc src/*.h must be claimed by a site below or by IGNORED (with its reason);
anything else raises ExtractError (unknown shape: the tie is broken).
"""
import os, re
import extract
from extract import ExtractError, need, src, strip_comments, function_body, lean_str

# ---------------------------------------------------------------------------
# helpers


def _text(fname):
    return strip_comments(src(fname))


def _line_of(fname, needle_re):
    """1-based line of the first match of needle_re in the raw file (for the `src` field)."""
    raw = src(fname)
    m = re.search(needle_re, raw)
    return raw.count("\n", 0, m.start()) + 1 if m else 0


def _max_line():
    m = re.search(r"static\s+const\s+std::size_t\s+MAX_LINE\s*=\s*(\d+)\s*;", _text("context.h"))
    need(m, "context.h: MAX_LINE not found")
    return int(m.group(1))


def _eval_size(expr):
    e = expr.strip()
    e = e.replace("parse_context_t::MAX_LINE", str(_max_line())).replace("MAX_LINE", str(_max_line()))
    need(re.fullmatch(r"[0-9 +\-*()]+", e) is not None, "array size not a constant expression: " + expr)
    return int(eval(e))  # digits and + - * ( ) only


def _cap(body, buf, where):
    m = re.search(r"\b(?:static\s+)?(?:unsigned\s+)?char\s+" + re.escape(buf) + r"\s*\[([^\]]+)\]", body)
    need(m, "%s: declaration of char %s[...] not found" % (where, buf))
    return _eval_size(m.group(1))


COND = [
    (r"c != '(.)'", lambda m: "(.notChar '%s')" % m.group(1)),
    (r"c != '(\\.)'", lambda m: "(.notChar '%s')" % m.group(1)),
    (r"c != delim", lambda m: "(.notChar '\"')"),          # delim is ' or ": same shape, any single char
    (r"std::isalpha\(c\)", lambda m: ".alpha"),
    (r"std::isalpha\(c\) \|\| c == '_'", lambda m: ".alphaUnderscore"),
    (r"std::isdigit\(c\) \|\| c == '\.' \|\| c == ','", lambda m: ".digitDotComma"),
]


def _cond(text, where):
    t = extract.norm_ws(text)
    for pat, fn in COND:
        m = re.fullmatch(pat, t)
        if m:
            return fn(m)
    raise ExtractError("%s: READ_INTO condition not recognised: %s" % (where, t))


def _read_into_calls(body):
    """[(macro, target, size-text, cond-text, start)] for every READ_INTO / READ_INTO_ call."""
    out = []
    for m in re.finditer(r"\b(READ_INTO_?)\s*\(", body):
        i = m.end()
        depth = 1
        j = i
        while depth:
            ch = body[j]
            if ch == "'":
                j += 2 if body[j + 1] != "\\" else 3
            elif ch == "(":
                depth += 1
            elif ch == ")":
                depth -= 1
            j += 1
        args = _split_args(body[i:j - 1])
        if m.group(1) == "READ_INTO":
            need(len(args) == 5, "READ_INTO: expected 5 arguments: " + body[i:j - 1])
            out.append((m.group(1), args[1], args[2], args[4], m.start()))
        else:
            need(len(args) == 6, "READ_INTO_: expected 6 arguments: " + body[i:j - 1])
            out.append((m.group(1), args[1], args[2], args[5], m.start()))
    return out


def _split_args(s):
    args, depth, cur, i = [], 0, "", 0
    while i < len(s):
        ch = s[i]
        if ch == "'":
            k = 3 if s[i + 1] != "\\" else 4
            cur += s[i:i + k]
            i += k
            continue
        if ch == "(":
            depth += 1
        elif ch == ")":
            depth -= 1
        if ch == "," and depth == 0:
            args.append(cur.strip())
            cur = ""
        else:
            cur += ch
        i += 1
    args.append(cur.strip())
    return args


def site(name, kind, capacity, offset, limit, extra, term, where):
    return dict(name=name, kind=kind, capacity=capacity, offset=offset, limit=limit, extra=extra, term=term, src=where)


# ---------------------------------------------------------------------------
# the READ_INTO macros themselves: the model `Buffers.readInto` mirrors exactly this text

READ_INTO_PINNED = (
    "{ char * _p = targ; var = str.peek(); while (str.good() && ! str.eof() && var != '\\n' && (cond) && _p - targ < size) "
    "{ var = str.get(); if (str.eof()) break; %sif (var == '\\\\') { var = str.get(); if (in.eof()) break; switch (var) "
    "{ case 'b': var = '\\b'; break; case 'f': var = '\\f'; break; case 'n': var = '\\n'; break; case 'r': var = '\\r'; break; "
    "case 't': var = '\\t'; break; case 'v': var = '\\v'; break; default: break; } %s} *_p++ = var; var = str.peek(); } *_p = '\\0'; }")


def check_macros():
    t = _text("utils.h")
    for name, params, a, b in (("READ_INTO", "str, targ, size, var, cond", "", ""),
                               ("READ_INTO_", "str, targ, size, var, idx, cond", "idx++; ", "idx++; ")):
        m = re.search(r"#define\s+" + name + r"\(" + re.escape(params) + r"\)((?:[^\n]*\\\n)*[^\n]*)", t)
        need(m, "utils.h: macro %s(%s) not found" % (name, params))
        body = extract.norm_ws(m.group(1).replace("\\\n", " "))
        need(body == READ_INTO_PINNED % (a, b),
             "utils.h: macro %s no longer has the loop shape the model mirrors (guard `_p - targ < size`, final `*_p = '\\0'`): %s" % (name, body))


# ---------------------------------------------------------------------------
# the sites


def sites():
    S = []
    claimed_arrays = set()   # (file, buffer name, ordinal within file)
    ML = _max_line()

    def fn(fname, sig):
        return function_body(_text(fname), sig)

    def simple_read_into(fname, sig, func, buf="buf", expect=None):
        """All READ_INTO calls on `buf` inside one function body."""
        body = fn(fname, sig)
        cap = _cap(body, buf, "%s:%s" % (fname, func))
        calls = [c for c in _read_into_calls(body) if c[1] == buf]
        need(calls, "%s:%s: no READ_INTO on %s" % (fname, func, buf))
        if expect is not None:
            need(len(calls) == expect, "%s:%s: expected %d READ_INTO calls on %s, found %d" % (fname, func, expect, buf, len(calls)))
        for k, (macro, targ, size, cond, pos) in enumerate(calls):
            need(re.fullmatch(r"\d+", size), "%s:%s: READ_INTO size is not a literal: %s" % (fname, func, size))
            nm = "%s:%s:%s" % (fname, func, buf) + ("" if len(calls) == 1 else ":%d" % (k + 1))
            S.append(site(nm, "(.readInto %s)" % _cond(cond, nm), cap, 0, int(size), 0, 1,
                          "%s:%d" % (fname, _line_of(fname, re.escape(macro) + r"\(in, " + buf + r", " + size + r",") if len(calls) == 1 else 0)))
        return body

    check_macros()

    # amount.cc parse_quantity: buf[256]; int max = 255; '-' branch: *p++ = c; max--;
    body = fn("amount.cc", r"void\s+parse_quantity\(std::istream& in, string& value\)\s*\{")
    cap = _cap(body, "buf", "amount.cc:parse_quantity")
    m = re.search(r"int\s+max\s*=\s*(\d+)\s*;", body)
    need(m, "amount.cc:parse_quantity: `int max = N` not found")
    mx = int(m.group(1))
    need(re.search(r"char\s*\*\s*p\s*=\s*buf\s*;", body), "amount.cc:parse_quantity: `char *p = buf` not found")
    mm = re.search(r"if\s*\(c == '-'\)\s*\{([^}]*)\}", body)
    need(mm, "amount.cc:parse_quantity: sign branch not found")
    br = extract.norm_ws(mm.group(1))
    need(br == "*p++ = c; max--; in.get();", "amount.cc:parse_quantity: sign branch changed: " + br)
    calls = _read_into_calls(body)
    need(len(calls) == 1 and calls[0][1] == "p" and calls[0][2] == "max",
         "amount.cc:parse_quantity: expected READ_INTO(in, p, max, ...)")
    cnd = _cond(calls[0][3], "amount.cc:parse_quantity")
    need(re.search(r"while\s*\(len > 0 &&\s*!\s*std::isdigit\(static_cast<unsigned char>\(buf\[len - 1\]\)\)\)\s*\{\s*buf\[--len\] = '\\0';",
                   body), "amount.cc:parse_quantity: trailing trim loop changed")
    ln = _line_of("amount.cc", r"READ_INTO\(in, p, max, c,")
    S.append(site("amount.cc:parse_quantity:buf:unsigned", "(.readInto %s)" % cnd, cap, 0, mx, 0, 1, "amount.cc:%d" % ln))
    S.append(site("amount.cc:parse_quantity:buf:signed", "(.readInto %s)" % cnd, cap, 1, mx - 1, 0, 1, "amount.cc:%d" % ln))

    # commodity.cc parse_symbol(istream): quoted READ_INTO + unquoted loop
    body = fn("commodity.cc", r"void\s+commodity_t::parse_symbol\(std::istream& in, string& symbol\)\s*\{")
    cap = _cap(body, "buf", "commodity.cc:parse_symbol")
    calls = _read_into_calls(body)
    need(len(calls) == 1 and calls[0][1] == "buf" and re.fullmatch(r"\d+", calls[0][2]), "commodity.cc:parse_symbol: expected one READ_INTO(in, buf, N, ...)")
    S.append(site("commodity.cc:parse_symbol:buf:quoted", "(.readInto %s)" % _cond(calls[0][3], "commodity.cc:parse_symbol"),
                  cap, 0, int(calls[0][2]), 0, 1, "commodity.cc:%d" % _line_of("commodity.cc", r"READ_INTO\(in, buf, \d+, c, c != '\"'\)")))
    m = re.search(r"char\s*\*\s*_p\s*=\s*buf\s*;\s*while\s*\(_p - buf < (\d+) && in\.good\(\) && ! in\.eof\(\) && ! invalid_chars\[c\]\)\s*\{(.*?)\}\s*\*_p = '\\0';",
                  body, flags=re.S)
    need(m, "commodity.cc:parse_symbol: unquoted symbol loop `while (_p - buf < N && ... && ! invalid_chars[c])` not found")
    loop = extract.norm_ws(m.group(2))
    need(loop.startswith("c = in.get(); if (c == '\\\\') { c = in.get(); if (in.eof()) throw_(amount_error,") and
         loop.endswith("} *_p++ = c; c = in.peek();"), "commodity.cc:parse_symbol: unquoted loop body changed: " + loop)
    S.append(site("commodity.cc:parse_symbol:buf:unquoted", ".symbolLoop", cap, 0, int(m.group(1)), 0, 1,
                  "commodity.cc:%d" % _line_of("commodity.cc", r"while \(_p - buf < \d+ && in\.good\(\)")))

    # annotate.cc annotation_t::parse: four READ_INTO on buf[256]
    simple_read_into("annotate.cc", r"void\s+annotation_t::parse\(std::istream& in\)\s*\{", "parse", expect=4)

    # token.cc
    simple_read_into("token.cc", r"int\s+expr_t::token_t::parse_reserved_word\(std::istream& in\)\s*\{", "parse_reserved_word", expect=1)
    simple_read_into("token.cc", r"void\s+expr_t::token_t::parse_ident\(std::istream& in\)\s*\{", "parse_ident", expect=1)
    body = fn("token.cc", r"void\s+expr_t::token_t::next\(std::istream& in, const parse_flags_t& pflags\)\s*\{")
    arrs = [(m.group(1), _eval_size(m.group(2)), m.start()) for m in re.finditer(r"\bchar\s+(\w+)\s*\[([^\]]+)\]", body)]
    calls = _read_into_calls(body)
    need(len(arrs) == 3 and len(calls) == 3, "token.cc:next: expected 3 local buffers and 3 READ_INTO_ calls, found %d / %d" % (len(arrs), len(calls)))
    for (an, acap, apos), (macro, targ, size, cond, pos), label in zip(arrs, calls, ("date", "string", "regex")):
        need(an == targ and apos < pos and re.fullmatch(r"\d+", size), "token.cc:next: buffer/READ_INTO_ pairing changed near %s" % label)
        nm = "token.cc:next:buf:%s" % label
        S.append(site(nm, "(.readInto %s)" % _cond(cond, nm), acap, 0, int(size), 0, 1, "token.cc"))
    # token.h symbol[6]: fixed-index stores and strcpy of keyword constants
    th = _text("token.h")
    m = re.search(r"\bchar\s+symbol\[(\d+)\]\s*;", th)
    need(m, "token.h: char symbol[N] not found")
    scap = int(m.group(1))
    tc = _text("token.cc")
    idx = [int(x) for x in re.findall(r"\bsymbol\[(\d+)\]\s*=", tc + th)]
    need(idx and not re.search(r"\bsymbol\[[^\d\]]", tc + th), "token.cc: symbol[...] indexed by a non-literal")
    S.append(site("token.h:token_t:symbol:indexed", ".boundedCopy", scap, 0, max(idx), 0, 1, "token.h"))
    lits = re.findall(r'std::strcpy\(symbol,\s*"([^"]*)"\)', tc)
    need(len(lits) == len(re.findall(r"std::strcpy\(symbol,", tc)), "token.cc: strcpy(symbol, <non-literal>)")
    S.append(site("token.h:token_t:symbol:keyword", ".boundedCopy", scap, 0, max([len(x) for x in lits] or [0]), 0, 1, "token.cc"))

    # item.cc parse_tags: strncpy(buf, b + 1, e - b - 1) into buf[256]
    body = fn("item.cc", r"void\s+item_t::parse_tags\(const char \* p,\s*scope_t&\s+scope,\s*bool\s+overwrite_existing\)\s*\{")
    cap = _cap(body, "buf", "item.cc:parse_tags")
    m = re.search(r"if\s*\(const char \* e = std::strchr\(b, '\]'\)\)\s*\{(.*?)if \(char \* pp", body, flags=re.S)
    need(m, "item.cc:parse_tags: bracketed date block not found")
    blk = extract.norm_ws(m.group(1))
    ln = _line_of("item.cc", r"std::strncpy\(buf, b \+ 1")
    copy = "std::strncpy(buf, b + 1, static_cast<std::size_t>(e - b - 1)); buf[e - b - 1] = '\\0';"
    unguarded = "char buf[%d]; " % cap + copy
    g = re.fullmatch(r"char buf\[\d+\]; if \((?:static_cast<std::size_t>\()?e - b - 1\)? (>=|>) (\d+|sizeof\(buf\)(?: - 1)?)\) (?:throw_\(.*?\);|return;) " + re.escape(copy), blk)
    g2 = re.fullmatch(r"if \((?:static_cast<std::size_t>\()?e - b - 1\)? (>=|>) (\d+)\) (?:throw_\(.*?\);|return;) char buf\[\d+\]; " + re.escape(copy), blk)
    g = g or g2
    if blk == unguarded:
        S.append(site("item.cc:parse_tags:buf", ".unboundedCopy", cap, 0, 0, 0, 1, "item.cc:%d" % ln))
    elif g:
        t = g.group(2)
        bound = cap if t == "sizeof(buf)" else cap - 1 if t == "sizeof(buf) - 1" else int(t)
        lim = bound - 1 if g.group(1) == ">=" else bound
        S.append(site("item.cc:parse_tags:buf", ".guardedCopy", cap, 0, lim, 0, 1, "item.cc:%d" % ln))
    else:
        raise ExtractError("item.cc:parse_tags: tag/date copy has an unknown shape: " + blk)

    # format.cc parse_elements: static char buf[65535]; *q++ = *p
    body = fn("format.cc", r"format_t::element_t \* format_t::parse_elements\(const string& fmt,\s*const optional<format_t&>& tmpl\)\s*\{")
    cap = _cap(body, "buf", "format.cc:parse_elements")
    m = re.search(r"for \(const char \* p = fmt\.c_str\(\); \*p; p\+\+\) \{\s*if \(\*p != '%' && \*p != '\\\\'\) \{(.*?)\}", body, flags=re.S)
    need(m, "format.cc:parse_elements: literal copy loop not found")
    lit = extract.norm_ws(m.group(1))
    ln = _line_of("format.cc", r"\*q\+\+ = \*p;")
    if lit == "*q++ = *p; continue;":
        S.append(site("format.cc:parse_elements:buf", ".unboundedCopy", cap, 0, 0, 0, 0, "format.cc:%d" % ln))
    else:
        g = re.fullmatch(r"if \((?:static_cast<std::size_t>\()?q - buf\)? (>=|>) (\d+|sizeof\(buf\)(?: - 1)?)\) throw_\(.*?\); \*q\+\+ = \*p; continue;", lit)
        need(g, "format.cc:parse_elements: literal copy has an unknown shape: " + lit)
        t = g.group(2)
        bound = cap if t == "sizeof(buf)" else cap - 1 if t == "sizeof(buf) - 1" else int(t)
        # `q - buf >= B` rejects when B bytes are already stored: at most B stored
        lim = bound if g.group(1) == ">=" else bound + 1
        S.append(site("format.cc:parse_elements:buf", ".boundedCopy", cap, 0, lim, 0, 0, "format.cc:%d" % ln))
    # the scanner's own reads: trailing backslash
    bs = re.search(r"if \(\*p == '\\\\'\) \{\s*p\+\+;(.*?)switch \(\*p\)", body, flags=re.S)
    need(bs, "format.cc:parse_elements: backslash branch not found")
    bs_guard = extract.norm_ws(bs.group(1))
    need(bs_guard == "current->type = element_t::STRING;" or re.search(r"if \(\s*!\s*\*p\s*\)|if \(\*p == '\\0'\)", bs_guard),
         "format.cc:parse_elements: backslash branch has an unknown shape: " + bs_guard)
    fmt_bs_checked = bs_guard != "current->type = element_t::STRING;"

    # times.cc: strlen guard then strcpy into buf[128]
    for func, sig, var in (("parse_date_mask_routine", r"date_t\s+parse_date_mask_routine\(const char \* date_str, date_io_t& io,\s*date_traits_t \* traits = NULL\)\s*\{", "date_str"),
                           ("parse_datetime", r"datetime_t\s+parse_datetime\(const char \* str\)\s*\{", "str")):
        body = fn("times.cc", sig)
        cap = _cap(body, "buf", "times.cc:" + func)
        m = re.search(r"if \(std::strlen\(" + var + r"\) > (\d+)\) \{\s*throw_\(date_error,[^;]*;\s*\}\s*char buf\[\d+\];\s*std::strcpy\(buf, " + var + r"\);", body)
        need(m, "times.cc:%s: `if (strlen > N) throw; char buf[M]; strcpy` not found" % func)
        S.append(site("times.cc:%s:buf" % func, ".guardedCopy", cap, 0, int(m.group(1)), 0, 1,
                      "times.cc:%d" % _line_of("times.cc", r"std::strcpy\(buf, " + var + r"\)")))
    # times.cc temporal_io_t::format: strftime(buf, 127, ...) into buf[128]
    t = _text("times.cc")
    m = re.search(r"char buf\[(\d+)\];\s*(?:std::size_t len = )?std::strftime\(buf, (\d+), fmt_str\.c_str\(\), &data\);\s*return (?:buf|std::string\(buf, len\));", t)
    need(m, "times.cc:temporal_io_t::format: strftime shape not found")
    S.append(site("times.cc:temporal_io_t::format:buf", ".boundedCopy", int(m.group(1)), 0, int(m.group(2)) - 1, 0, 1,
                  "times.cc:%d" % _line_of("times.cc", r"std::strftime\(buf,")))

    # option.cc find_option(name): length guard, per-char copy, '_' then NUL
    body = fn("option.cc", r"op_bool_tuple find_option\(scope_t& scope, const string& name\)\s*\{")
    cap = _cap(body, "buf", "option.cc:find_option")
    m = re.search(r"if \(name\.length\(\) (>=|>) (\d+)\) \{\s*throw_\(option_error,", body)
    need(m, "option.cc:find_option: length guard not found")
    lim = int(m.group(2)) if m.group(1) == ">" else int(m.group(2)) - 1
    rest = extract.norm_ws(body[m.end():])
    need("foreach (char ch, name) { if (ch == '-') *p++ = '_'; else *p++ = ch; } *p++ = '_'; *p = '\\0';" in rest,
         "option.cc:find_option: copy loop changed")
    S.append(site("option.cc:find_option:buf", ".guardedCopy", cap, 0, lim, 1, 1, "option.cc:%d" % _line_of("option.cc", r"\*p\+\+ = '_';\n\s*\*p = ")))
    # option.cc find_option(letter): buf[4], indices 0..2
    body = fn("option.cc", r"op_bool_tuple find_option\(scope_t& scope, const char letter\)\s*\{")
    cap = _cap(body, "buf", "option.cc:find_option(letter)")
    idx = [int(x) for x in re.findall(r"\bbuf\[(\d+)\]\s*=", body)]
    need(idx and not re.search(r"\bbuf\[[^\d\]]", body), "option.cc:find_option(letter): non-literal index")
    S.append(site("option.cc:find_option_letter:buf", ".boundedCopy", cap, 0, max(idx), 0, 1, "option.cc"))
    # option.cc process_environment: counted loop r - buf < 8191 into buf[8192]
    body = fn("option.cc", r"void process_environment\(const char \*\* envp, const string& tag,\s*scope_t& scope\)\s*\{")
    cap = _cap(body, "buf", "option.cc:process_environment")
    m = re.search(r"\*q && \*q != '=' && r - buf < (\d+);", body)
    need(m, "option.cc:process_environment: loop guard `r - buf < N` not found")
    S.append(site("option.cc:process_environment:buf", ".boundedCopy", cap, 0, int(m.group(1)), 0, 1, "option.cc"))

    # account.cc find_account: assert(sep < 256) then strncpy(buf, name, sep); buf[sep] = 0 into buf[8192]
    body = fn("account.cc", r"account_t \* account_t::find_account\(const string& acct_name,\s*const bool\s+auto_create\)\s*\{")
    cap = _cap(body, "buf", "account.cc:find_account")
    m = re.search(r"assert\(sep < (\d+)\s*\|\|\s*sep == string::npos\);", body)
    need(m, "account.cc:find_account: assert(sep < N || npos) not found")
    need(re.search(r"std::strncpy\(buf, acct_name\.c_str\(\), sep\);\s*buf\[sep\] = '\\0';", body), "account.cc:find_account: strncpy shape changed")
    S.append(site("account.cc:find_account:buf", ".guardedCopy", cap, 0, int(m.group(1)) - 1, 0, 1,
                  "account.cc:%d" % _line_of("account.cc", r"std::strncpy\(buf, acct_name")))

    # context.h linebuf[MAX_LINE + 1] filled by getline(linebuf, MAX_LINE) (textual.cc read_line, csv.cc)
    ch = _text("context.h")
    m = re.search(r"\bchar\s+linebuf\[([^\]]+)\]\s*;", ch)
    need(m, "context.h: linebuf not found")
    lcap = _eval_size(m.group(1))
    body = fn("textual.cc", r"std::streamsize instance_t::read_line\(char \*& line\)\s*\{")
    m = re.search(r"const size_t maxLine = parse_context_t::MAX_LINE;\s*in\.getline\(context\.linebuf, maxLine\);", body)
    need(m, "textual.cc:read_line: getline(context.linebuf, MAX_LINE) not found")
    need(re.search(r"if \(in\.fail\(\) && len == \(parse_context_t::MAX_LINE - 1\)\) \{\s*throw_\(parse_error,", body),
         "textual.cc:read_line: `Line exceeds` guard not found")
    S.append(site("textual.cc:read_line:linebuf", ".boundedCopy", lcap, 0, ML - 1, 0, 1, "textual.cc:%d" % _line_of("textual.cc", r"in\.getline\(context\.linebuf, maxLine\)")))
    cs = _text("csv.cc")
    gl = re.findall(r"in\.getline\(context\.linebuf, ([^)]+)\);", cs)
    need(len(gl) == 2 and all(g.strip() == "parse_context_t::MAX_LINE" for g in gl), "csv.cc: getline(context.linebuf, MAX_LINE) x2 not found")
    S.append(site("csv.cc:next_line:linebuf", ".boundedCopy", lcap, 0, ML - 1, 0, 1, "csv.cc"))
    m = re.search(r"std::memcpy\(linebuf, context\.linebuf, ([^)]+)\);", ch)
    need(m, "context.h: memcpy(linebuf, ...) not found")
    S.append(site("context.h:parse_context_t:linebuf:copy", ".boundedCopy", lcap, 0, _eval_size(m.group(1)), 0, 0, "context.h"))
    # copies of a line that came out of linebuf (so at most MAX_LINE - 1 bytes)
    body = fn("textual.cc", r"bool instance_t::general_directive\(char \* line\)\s*\{")
    need(re.search(r"char buf\[\d+\];\s*std::strcpy\(buf, line\);", body), "textual.cc:general_directive: strcpy(buf, line) not found")
    S.append(site("textual.cc:general_directive:buf", ".boundedCopy", _cap(body, "buf", "textual.cc:general_directive"), 0, ML - 1, 0, 1,
                  "textual.cc:%d" % _line_of("textual.cc", r"char buf\[8192\];\n\n\s*std::strcpy\(buf, line\)")))
    tt = _text("textual.cc")
    m = re.search(r"char buf\[(parse_context_t::MAX_LINE \+ 1|\d+)\];\s*std::strcpy\(buf, line\);\s*std::streamsize beg = 0;", tt)
    need(m, "textual.cc:parse_post: strcpy(buf, line) not found")
    S.append(site("textual.cc:parse_post:buf", ".boundedCopy", _eval_size(m.group(1)), 0, ML - 1, 0, 1, "textual.cc"))

    # plain getline / read / fgets / snprintf with a constant count
    def lib(fname, pat, nm, term, minus):
        t = _text(fname)
        ms = list(re.finditer(pat, t, flags=re.S))
        need(ms, "%s: %s not found" % (fname, nm))
        for k, m in enumerate(ms):
            S.append(site(nm + ("" if len(ms) == 1 else ":%d" % (k + 1)), ".boundedCopy", int(m.group(1)), 0, int(m.group(2)) - minus, 0, term, fname))
    lib("expr.cc", r"char linebuf\[(\d+)\];.*?in\.getline\(linebuf, (\d+)\);", "expr.cc:context:linebuf", 1, 1)
    lib("expr.cc", r"char\s+buf\[(\d+)\];.*?in->getline\(buf, (\d+)\);", "expr.cc:source_command:buf", 1, 1)
    lib("main.cc", r"char line\[(\d+)\];\s*(?:in|std::cin)\.getline\(line, (\d+)\);", "main.cc:main:line", 1, 1)
    lib("session.cc", r"char line\[(\d+)\];\s*std::cin\.read\(line, (\d+)\);", "session.cc:read_data:line", 0, 0)
    lib("timelog.cc", r"char buf\[(\d+)\];\s*std::snprintf\(buf, (\d+),", "timelog.cc:create_timelog_xact:buf", 1, 1)
    lib("quotes.cc", r"char buf\[(\d+)\];.*?std::fgets\(buf, (\d+), fp\)", "quotes.cc:commodity_quote_from_script:buf", 1, 1)
    # xact.cc hash: SHA512 writes 64 bytes into data[128]
    m = re.search(r"unsigned char data\[(\d+)\];.*?SHA512\(\(void \*\)repr_str\.c_str\(\), repr_str\.length\(\), data\);", _text("xact.cc"), flags=re.S)
    need(m, "xact.cc: SHA512 into data[N] not found")
    S.append(site("xact.cc:hash:data", ".boundedCopy", int(m.group(1)), 0, 64, 0, 0, "xact.cc"))
    # global.cc prompt[32]: one ']' per report on the stack (REPL command `push` adds one, nothing bounds it), then ' ' and NUL
    gt = _text("global.cc")
    m = re.search(r"static char prompt\[(\d+)\];\s*std::size_t i;\s*for \(i = 0; i < report_stack\.size\(\)( && i < (\d+|sizeof\(prompt\) - 2))?; i\+\+\)\s*prompt\[i\] = '\]';\s*prompt\[i\+\+\] = ' ';\s*prompt\[i\]\s*= '\\0';",
                  gt)
    need(m, "global.cc:prompt_string shape changed")
    pcap = int(m.group(1))
    if m.group(2) is None:
        S.append(site("global.cc:prompt_string:prompt", ".unboundedCopy", pcap, 0, 0, 1, 1, "global.cc:%d" % _line_of("global.cc", r"prompt\[i\] = '\]';")))
    else:
        b = pcap - 2 if m.group(3).startswith("sizeof") else int(m.group(3))
        S.append(site("global.cc:prompt_string:prompt", ".boundedCopy", pcap, 0, b, 1, 1, "global.cc:%d" % _line_of("global.cc", r"prompt\[i\] = '\]';")))

    # utils.cc split_arguments: buf[4096], `*q++ = *p` with no check
    body = fn("utils.cc", r"strings_list split_arguments\(const char \* line\)\s*\{")
    cap = _cap(body, "buf", "utils.cc:split_arguments")
    stores = re.findall(r"\*q\+\+ = \*p;", body)
    need(len(stores) == 2, "utils.cc:split_arguments: expected two `*q++ = *p` stores")
    ln = _line_of("utils.cc", r"else \{\n\s*\*q\+\+ = \*p;")
    g = re.findall(r"if \(q - buf (>=|>) (\d+|sizeof\(buf\) - 1)\)\s*throw_\(", body)
    if not g:
        S.append(site("utils.cc:split_arguments:buf", ".unboundedCopy", cap, 0, 0, 0, 1, "utils.cc:%d" % ln))
    else:
        need(len(g) == 2 and g[0] == g[1], "utils.cc:split_arguments: both stores must carry the same guard")
        bound = cap - 1 if g[0][1] == "sizeof(buf) - 1" else int(g[0][1])
        S.append(site("utils.cc:split_arguments:buf", ".boundedCopy", cap, 0, bound if g[0][0] == ">=" else bound + 1, 0, 1, "utils.cc:%d" % ln))

    return S, fmt_bs_checked


# arrays / copy calls that are not input-driven sites, with the reason
IGNORED_ARRAYS = {
    ("utils.cc", "name"): "trace_ctor_func: only with memory tracing (--verify-memory); sources are compile-time class names",
    ("pyinterp.cc", "buf"): "Python bridge: not built (HAVE_BOOST_PYTHON off)",
    ("sha512.cc", None): "digest code, fixed-size blocks",
    ("strptime.cc", None): "Windows-only replacement for strptime",
}
# exact-size heap copies: new char[strlen(x) + 1] then strcpy(buf.get(), x)
EXACT_ALLOC = [
    ("filters.cc", r"new char\[tag_list\.length\(\) \+ 1\]\);\s*std::strcpy\(buf\.get\(\), tag_list\.c_str\(\)\);"),
    ("item.cc", r"new char\[std::strlen\(p\) \+ 1\]\);\s*std::strcpy\(buf\.get\(\), p\);"),
    ("pool.cc", r"new char\[str\.length\(\) \+ 1\]\);\s*std::strcpy\(buf\.get\(\), str\.c_str\(\)\);"),
    ("report.cc", r"new char\[temp\.length\(\) \+ 1\]\);\s*std::strcpy\(buf\.get\(\), temp\.c_str\(\)\);"),
]


def completeness(S):
    """Every fixed char array and raw copy call of src/ is accounted for."""
    claimed_files = {}
    for s in S:
        f = s["name"].split(":")[0]
        claimed_files.setdefault(f, 0)
        claimed_files[f] += 1
    # arrays
    arrays = {}
    srcdir = os.path.join(extract.REPO, "src")
    for fname in sorted(os.listdir(srcdir)):
        if not (fname.endswith(".cc") or fname.endswith(".h")):
            continue
        if (fname, None) in IGNORED_ARRAYS or fname.startswith("py_"):
            continue
        t = _text(fname)
        for m in re.finditer(r"\b(?:unsigned\s+)?char\s+(\w+)\s*\[([^\]]*)\]\s*;", t):
            if (fname, m.group(1)) in IGNORED_ARRAYS:
                continue
            arrays.setdefault(fname, []).append(m.group(1))
    # number of arrays each file is expected to declare = arrays named by the sites of that file
    expected = {
        "account.cc": ["buf"], "amount.cc": ["buf"], "annotate.cc": ["buf"], "commodity.cc": ["buf"],
        "expr.cc": ["linebuf", "buf"], "format.cc": ["buf"], "global.cc": ["prompt"], "item.cc": ["buf"],
        "main.cc": ["line", "line"], "option.cc": ["buf", "buf", "buf"], "quotes.cc": ["buf"], "session.cc": ["line"],
        "textual.cc": ["buf", "buf"], "timelog.cc": ["buf"], "times.cc": ["buf", "buf", "buf"],
        "token.cc": ["buf", "buf", "buf", "buf", "buf"], "utils.cc": ["buf"], "xact.cc": ["data"],
        "context.h": ["linebuf"], "token.h": ["symbol"],
    }
    for f, names in sorted(arrays.items()):
        need(f in expected, "unclaimed fixed-size buffer(s) %s in %s: add a site to tools/extract_buffers.py" % (names, f))
        need(sorted(names) == sorted(expected[f]),
             "%s: fixed-size buffers are now %s, the site table knows %s" % (f, sorted(names), sorted(expected[f])))
    for f in expected:
        need(f in arrays, "%s: expected fixed-size buffers %s not found" % (f, expected[f]))
    # raw copy calls
    calls = {}
    for fname in sorted(os.listdir(srcdir)):
        if not (fname.endswith(".cc") or fname.endswith(".h")):
            continue
        if (fname, None) in IGNORED_ARRAYS or fname.startswith("py") or fname == "gpgme.cc":
            continue
        t = _text(fname)
        n = len(re.findall(r"\b(?:std::)?(?:strcpy|strncpy|strcat|strncat|sprintf|vsprintf|snprintf|memcpy|memmove|fgets|sscanf|strftime)\s*\(", t))
        n += len(re.findall(r"(?<!journal)(?:\.|->)(?:getline|read)\s*\(", t))
        n += len(re.findall(r"\bgets\s*\(", t))
        if n:
            calls[fname] = n
    expected_calls = {
        "account.cc": 1, "csv.cc": 2, "error.cc": 1, "expr.cc": 3, "filters.cc": 1, "item.cc": 2, "main.cc": 2, "pool.cc": 1, "quotes.cc": 1,
        "report.cc": 1, "session.cc": 1, "textual.cc": 3, "timelog.cc": 1, "times.cc": 3, "token.cc": 3, "utils.cc": 4, "context.h": 1,
    }
    need(calls == expected_calls, "raw copy calls (strcpy/strncpy/memcpy/getline/read/...) changed: now %s, the site table was written for %s" %
         (sorted(calls.items()), sorted(expected_calls.items())))
    for fname, pat in EXACT_ALLOC:
        need(re.search(pat, _text(fname)), "%s: exact-size heap copy `new char[len + 1]; strcpy` no longer has that shape" % fname)
    # exact-size reads: new char[len + 1]; read(buf.get(), len); buf[len] = 0
    need(re.search(r"new char\[static_cast<std::size_t>\(end_pos - start_pos\) \+ 1\]\);\s*int len = static_cast<int>\(end_pos\) - static_cast<int>\(start_pos\);"
                   r"\s*in\.read\(buf\.get\(\), len\);\s*buf\[len\] = '\\0';", _text("expr.cc")), "expr.cc: exact-size read shape changed")
    need(re.search(r"new char\[static_cast<std::size_t>\(len\) \+ 1\]\);\s*in->read\(buf\.get\(\), static_cast<std::streamsize>\(len\)\);",
                   _text("error.cc")), "error.cc: exact-size read shape changed")


def period_zero_rejected():
    t = _text("times.cc")
    m = re.search(r"int quantity = boost::get<unsigned short>\(\*tok\.value\);(.*?)tok = lexer\.next_token\(\);", t, flags=re.S)
    need(m, "times.cc: `every N` quantity parse not found")
    g = extract.norm_ws(m.group(1))
    if g == "":
        return False
    need(re.fullmatch(r"if \(quantity == 0\) throw_\(date_error, .*\);", g), "times.cc: unknown statement after `int quantity = ...`: " + g)
    return True


def gen_buffer_sites():
    S, fmt_bs_checked = sites()
    completeness(S)
    names = [s["name"] for s in S]
    need(len(set(names)) == len(names), "duplicate site names")
    L = ["/- GENERATED by tools/extract_buffers.py from /repo/src - do not edit. -/",
         "import LedgerModel.Model.Buffers", "", "namespace Ledger.Gen", "open Ledger.Buffers", "",
         "/-- context.h `MAX_LINE`. -/", "def maxLine : Nat := %d" % _max_line(), "",
         "/-- format.cc parse_elements: does the backslash branch check for the end of the string before stepping over it? -/",
         "def formatBackslashChecked : Bool := %s" % ("true" if fmt_bs_checked else "false"), "",
         "/-- times.cc date_parser_t::parse, `every N <unit>`: is N = 0 rejected (the precondition `0 < len` of C11.step_terminates)? -/",
         "def periodZeroRejected : Bool := %s" % ("true" if period_zero_rejected() else "false"), "",
         "/-- Every fixed-size character buffer of src/ with the routine that fills it:",
         "    capacity, first index written, bound on the payload, extra bytes, terminator. -/",
         "def bufferSites : List Site := ["]
    rows = []
    for s in S:
        rows.append("  { name := %s, kind := %s, capacity := %d, offset := %d, limit := %d, extra := %d, terminator := %d, src := %s }" %
                    (lean_str(s["name"]), s["kind"],
                     s["capacity"], s["offset"], s["limit"], s["extra"], s["term"], lean_str(s["src"])))
    L.append(",\n".join(rows))
    L += ["]", "", "end Ledger.Gen", ""]
    return "\n".join(L)


# ---------------------------------------------------------------------------
# pinned text of the routines Model/Buffers.lean mirrors (NOTE_PINNING.md).  The routines with an
# open defect at the pinned commit (item.cc parse_tags, format.cc parse_elements, option.cc find_option,
# utils.cc split_arguments, global.cc prompt_string) are pinned WITH THE INTERPRETED SPOTS MASKED: the
# statements that sites() reads into the table (array sizes, the length guards in their accepted shapes)
# are replaced by placeholders inside the pinned text, so adding/repairing a guard needs no re-pin while
# any other edit to those functions (e.g. to the %$N back-reference walk of parse_elements) breaks the rfl.

PINNED_FNS = [
    ("amount.cc", [("amount.cc:parse_quantity", r"void\s+parse_quantity\(std::istream& in, string& value\)\s*\{")]),
    ("commodity.cc", [("commodity.cc:parse_symbol(istream)", r"void\s+commodity_t::parse_symbol\(std::istream& in, string& symbol\)\s*\{")]),
    ("annotate.cc", [("annotate.cc:annotation_t::parse", r"void\s+annotation_t::parse\(std::istream& in\)\s*\{")]),
    ("token.cc", [("token.cc:parse_ident", r"void\s+expr_t::token_t::parse_ident\(std::istream& in\)\s*\{")]),
    ("textual.cc", [("textual.cc:read_line", r"std::streamsize instance_t::read_line\(char \*& line\)\s*\{")]),
    ("journal.cc", [("journal.cc:expand_aliases", r"account_t \* journal_t::expand_aliases\(string name\)\s*\{")]),
    ("parser.cc", [("parser.cc:parse_value_term", r"expr_t::parser_t::parse_value_term\(std::istream&\s+in,\s*const parse_flags_t& tflags\) const\s*\{")]),
    ("utils.h", [("utils.h:peek_next_nonws", r"inline int peek_next_nonws\(std::istream& in\)\s*\{")]),
]


GUARD_THROW = r"(?:throw_\((?:[^()]|\([^()]*\))*\);|throw [^;]*;|return;)"


def masked_pins():
    """(key, body text with the table-interpreted spots replaced by placeholders) for the five routines whose
    guards sites() interprets."""
    out = []

    def mask(text, subs, where):
        t = extract.norm_ws(text)
        for pat, repl, lo, hi in subs:
            t, n = re.subn(pat, repl, t)
            need(lo <= n <= hi, "%s: expected %d..%d occurrences of the interpreted spot %s, found %d" % (where, lo, hi, repl, n))
        return t
    # format.cc parse_elements
    body = function_body(_text("format.cc"), r"format_t::element_t \* format_t::parse_elements\(const string& fmt,\s*const optional<format_t&>& tmpl\)\s*\{")
    out.append(("format.cc:parse_elements(masked)", mask(body, [
        (r"static char buf\[\d+\];", "static char buf[<CAP>];", 1, 1),
        (r"if \((?:static_cast<std::size_t>\()?q - buf\)? (?:>=|>) (?:\d+|sizeof\(buf\)(?: - 1)?)\) " + GUARD_THROW + r" (?=\*q\+\+ = \*p; continue;)", "<LITERAL-GUARD> ", 0, 1),
        (r"(?<=if \(\*p == '\\\\'\) \{ p\+\+; )if \(\s*!\s*\*p\s*\) " + GUARD_THROW + " ", "<BACKSLASH-GUARD> ", 0, 1),
    ], "format.cc:parse_elements")))
    # item.cc parse_tags
    body = function_body(_text("item.cc"), r"void\s+item_t::parse_tags\(const char \* p,\s*scope_t&\s+scope,\s*bool\s+overwrite_existing\)\s*\{")
    out.append(("item.cc:parse_tags(masked)", mask(body, [
        (r"char buf\[\d+\];", "char buf[<CAP>];", 1, 1),
        (r"if \((?:static_cast<std::size_t>\()?e - b - 1\)? (?:>=|>) (?:\d+|sizeof\(buf\)(?: - 1)?)\) " + GUARD_THROW + " ", "<LENGTH-GUARD> ", 0, 1),
    ], "item.cc:parse_tags")))
    # option.cc find_option(name)
    body = function_body(_text("option.cc"), r"op_bool_tuple find_option\(scope_t& scope, const string& name\)\s*\{")
    out.append(("option.cc:find_option(masked)", mask(body, [
        (r"char buf\[\d+\];", "char buf[<CAP>];", 1, 1),
        (r"if \(name\.length\(\) (?:>=|>) \d+\)", "if (name.length() <GUARD>)", 1, 1),
    ], "option.cc:find_option")))
    # utils.cc split_arguments
    body = function_body(_text("utils.cc"), r"strings_list split_arguments\(const char \* line\)\s*\{")
    out.append(("utils.cc:split_arguments(masked)", mask(body, [
        (r"char buf\[\d+\];", "char buf[<CAP>];", 1, 1),
        (r"if \(q - buf (?:>=|>) (?:\d+|sizeof\(buf\) - 1)\) " + GUARD_THROW + " ", "<LENGTH-GUARD> ", 0, 2),
    ], "utils.cc:split_arguments")))
    # global.cc prompt_string
    body = function_body(_text("global.cc"), r"char \* global_scope_t::prompt_string\(\)\s*\{")
    out.append(("global.cc:prompt_string(masked)", mask(body, [
        (r"static char prompt\[\d+\];", "static char prompt[<CAP>];", 1, 1),
        (r" && i < (?:\d+|sizeof\(prompt\) - 2)(?=; i\+\+\))", " <BOUND>", 0, 1),
    ], "global.cc:prompt_string")))
    return out


def gen_buffer_fns():
    pairs = []
    for fname, sigs in PINNED_FNS:
        pairs += extract.pin_functions(fname, sigs)
    # fragments: the READ_INTO macros, the three READ_INTO_ blocks of token_t::next, the date guards, the stabilize loop
    t = _text("utils.h")
    for name, params in (("READ_INTO", "str, targ, size, var, cond"), ("READ_INTO_", "str, targ, size, var, idx, cond")):
        m = re.search(r"#define\s+" + name + r"\(" + re.escape(params) + r"\)((?:[^\n]*\\\n)*[^\n]*)", t)
        need(m, "utils.h: macro %s not found" % name)
        pairs.append(("utils.h:" + name, extract.norm_ws(m.group(1).replace("\\\n", " "))))
    body = function_body(_text("token.cc"), r"void\s+expr_t::token_t::next\(std::istream& in, const parse_flags_t& pflags\)\s*\{")
    for key, start in (("token.cc:next:case-[", r"case '\[': \{"), ("token.cc:next:case-quote", r"case '\"': \{"), ("token.cc:next:case-/", r"case '/': \{")):
        pairs.append((key, extract.norm_ws(function_body(body, start))))
    tt = _text("times.cc")
    for key, pat in (("times.cc:parse_date_mask_routine:guard", r"(if \(std::strlen\(date_str\) > \d+\) \{.*?std::strcpy\(buf, date_str\);)"),
                     ("times.cc:parse_datetime:guard", r"(if \(std::strlen\(str\) > \d+\) \{.*?std::strcpy\(buf, str\);)"),
                     ("times.cc:stabilize:loop", r"(while \(\*start < \*date\) \{.*?\n      \})")):
        m = re.search(pat, tt, flags=re.S)
        need(m, "times.cc: fragment %s not found" % key)
        pairs.append((key, extract.norm_ws(m.group(1))))
    body = function_body(_text("account.cc"), r"account_t \* account_t::find_account\(const string& acct_name,\s*const bool\s+auto_create\)\s*\{")
    # (the array declaration itself is left to the site table, so that resizing it needs no re-pin)
    m = re.search(r"(string::size_type sep = acct_name\.find.*?rest\s*= acct_name\.c_str\(\) \+ sep \+ 1;\s*\})", body, flags=re.S)
    need(m, "account.cc:find_account: head fragment not found")
    pairs.append(("account.cc:find_account:head", extract.norm_ws(m.group(1))))
    pairs += masked_pins()
    src_list = "src/utils.h, amount.cc, commodity.cc, annotate.cc, token.cc, textual.cc, journal.cc, parser.cc, times.cc, account.cc"
    return extract.gen_pairs("Normalised text of the bounded-copy routines, loops and guards that Model/Buffers.lean mirrors.",
                             "bufferFns", pairs, src_list).replace("tools/extract.py", "tools/extract_buffers.py")


MORE = {"BufferSites": gen_buffer_sites, "BufferFns": gen_buffer_fns}

if __name__ == "__main__":
    print(gen_buffer_sites())
    print(gen_buffer_fns())
