"""Translator part for C14 (dates): re-extract from /repo/src/times.cc (and the year
directive of textual.cc) everything the date model and its theorems depend on:

  * the ordered reader list of `times_initialize` (`readers.push_back(... date_io_t("FMT", true))`),
  * the written / printed date formats and the two datetime input formats,
  * what `set_input_date_format` does (push_front + separator normalisation off),
  * the initial value of `convert_separators_to_slashes`, the 127-byte limit,
  * the separators normalised to `/`,
  * how the year is inferred for a format without a year (interpreted into the flag
    `yearInferenceSnaps`: boost `years(1)` subtraction with end-of-month snap, or a plain
    `date(year - 1, month, day)` construction),
  * the month the `year` directive puts the clock in,
  * the normalised bodies of the functions Model/DateParse.lean mirrors (pinned by
    `C14.date_fns_pinned`).

Writes lean/LedgerModel/Gen/DateReaders.lean.
"""
import re
from extract import src, strip_comments, function_body, need, lean_str, lean_list, norm_ws, ExtractError

YEAR_INFERENCE_FORMS = [
    # (regex on the normalised statement inside `if (when.month() > CURRENT_DATE().month())`, snaps?)
    (r"when -= gregorian::years\(1\);", True),
    (r"when = date_t\(when\.year\(\) - 1, when\.month\(\), when\.day\(\)\);", False),
    (r"when = date_t\(CURRENT_DATE\(\)\.year\(\) - 1, when\.month\(\), when\.day\(\)\);", False),
    (r"when = date_t\(static_cast<date_t::year_type>\(when\.year\(\) - 1\), when\.month\(\), when\.day\(\)\);", False),
]

ROUTINE_SIG = r"date_t\s+parse_date_mask_routine\(const char \* date_str, date_io_t& io,\s*date_traits_t \* traits = NULL\)\s*\{"


def _times():
    return strip_comments(src("times.cc"))


def readers(text=None):
    text = text or _times()
    body = function_body(text, r"void\s+times_initialize\(\)\s*\{")
    fmts = re.findall(r'readers\.push_back\(shared_ptr<date_io_t>\(new date_io_t\("([^"]*)",\s*true\)\)\);', body)
    need(len(fmts) >= 1, "times_initialize: no readers.push_back(... date_io_t(\"FMT\", true)) found")
    need(len(fmts) == len(re.findall(r"readers\.push_", body)), "times_initialize: a readers.push_* of unknown shape")
    return fmts


def named_formats(text=None):
    text = text or _times()
    body = function_body(text, r"void\s+times_initialize\(\)\s*\{")
    out = {}
    for name, cls in [("input_datetime_io", "datetime_io_t"), ("timelog_datetime_io", "datetime_io_t"),
                      ("written_datetime_io", "datetime_io_t"), ("written_date_io", "date_io_t"),
                      ("printed_datetime_io", "datetime_io_t"), ("printed_date_io", "date_io_t")]:
        m = re.search(name + r'\.reset\(new ' + cls + r'\("([^"]*)",\s*(true|false)\)\);', body)
        need(m, "times_initialize: %s.reset(new %s(\"FMT\", …)) not found" % (name, cls))
        out[name] = m.group(1)
    return out


def year_inference(text=None):
    """(snaps?, routine body with the interpreted statement masked)."""
    text = text or _times()
    body = norm_ws(function_body(text, ROUTINE_SIG))
    m = re.search(r"if \(! io\.traits\.has_year\) \{ when = date_t\(CURRENT_DATE\(\)\.year\(\), when\.month\(\), when\.day\(\)\); "
                  r"if \(when\.month\(\) > CURRENT_DATE\(\)\.month\(\)\) (.*?;) \}", body)
    need(m, "parse_date_mask_routine: year inference block for formats without a year not recognised")
    stmt = m.group(1).strip()
    snaps = None
    for pat, v in YEAR_INFERENCE_FORMS:
        if re.fullmatch(pat, stmt):
            snaps = v
    need(snaps is not None, "parse_date_mask_routine: year inference statement not recognised: " + stmt)
    masked = body[:m.start(1)] + "<YEAR-INFERENCE>" + body[m.end(1):]
    return snaps, masked


def gen_date_readers():
    text = _times()
    fmts = readers(text)
    named = named_formats(text)
    snaps, routine_masked = year_inference(text)

    m = re.search(r"bool\s+convert_separators_to_slashes\s*=\s*(true|false)\s*;", text)
    need(m, "times.cc: initial value of convert_separators_to_slashes not found")
    conv_default = m.group(1) == "true"

    sif = norm_ws(function_body(text, r"void\s+set_input_date_format\(const char \* format\)\s*\{"))
    need(sif == "readers.push_front(shared_ptr<date_io_t>(new date_io_t(format, true))); convert_separators_to_slashes = false;",
         "set_input_date_format: unexpected body: " + sif)

    routine = norm_ws(function_body(text, ROUTINE_SIG))
    m = re.search(r"if \(std::strlen\(date_str\) > (\d+)\) \{ throw_\(date_error", routine)
    need(m, "parse_date_mask_routine: length limit not found")
    maxlen = int(m.group(1))
    m = re.search(r"char buf\[(\d+)\]; std::strcpy\(buf, date_str\);", routine)
    need(m and int(m.group(1)) == maxlen + 1, "parse_date_mask_routine: buf size does not match the length limit")
    m = re.search(r"if \(convert_separators_to_slashes\) \{ for \(char \* p = buf; \*p; p\+\+\) if \(((?:\*p == '.'(?: \|\| )?)+)\) \*p = '(.)'; \}", routine)
    need(m, "parse_date_mask_routine: separator normalisation loop not recognised")
    seps = re.findall(r"\*p == '(.)'", m.group(1))
    target = m.group(2)

    # date_io_t::parse presets
    pbody = norm_ws(function_body(text, r"date_t\s+temporal_io_t<date_t,\s*gregorian::date_input_facet,\s*gregorian::date_facet>\s*::parse\(const char \* str\)\s*\{"))
    need("data.tm_year = CURRENT_DATE().year() - 1900;" in pbody and "data.tm_mday = 1;" in pbody,
         "date_io_t::parse: tm presets (current year, day 1) not found")

    # year directive: the month the clock is put in
    tx = strip_comments(src("textual.cc"))
    ybody = norm_ws(function_body(tx, r"void\s+instance_t::apply_year_directive\(char \* line\)\s*\{"))
    m = re.search(r"epoch = datetime_t\(date_t\(year, (\d+), (\d+)\)\);", ybody)
    need(m, "apply_year_directive: epoch assignment not recognised")
    ymonth, yday = int(m.group(1)), int(m.group(2))

    fbody = norm_ws(function_body(text, r"std::string\s+format\(const T& when\)\s*\{"))
    mask_body = norm_ws(function_body(text, r"date_t\s+parse_date_mask\(const char \* date_str, date_traits_t \* traits = NULL\)\s*\{"))
    fd_body = norm_ws(function_body(text, r"std::string\s+format_date\(const date_t&\s+when,\s*const format_type_t\s+format_type,\s*const optional<const char \*>&\s+format\)\s*\{"))
    ctor = re.search(r"temporal_io_t\(const char \* _fmt_str, bool _input\)\s*:(.*?)\{", text, flags=re.S)
    need(ctor, "temporal_io_t constructor not found")
    pd_body = norm_ws(function_body(text, r"date_t\s+parse_date\(const char \* str\)\s*\{"))

    pairs = [
        ("times.cc:date_io_t::parse", pbody),
        ("times.cc:temporal_io_t::format", fbody),
        ("times.cc:temporal_io_t::traits", norm_ws(ctor.group(1))),
        ("times.cc:parse_date_mask_routine", routine_masked),
        ("times.cc:parse_date_mask", mask_body),
        ("times.cc:parse_date", pd_body),
        ("times.cc:format_date", fd_body),
        ("times.cc:set_input_date_format", sif),
        ("textual.cc:apply_year_directive", ybody),
    ]

    L = ["/- GENERATED by tools/extract_dates.py from src/times.cc, src/textual.cc - do not edit. -/",
         "namespace Ledger.Gen", "",
         "/-- times.cc `times_initialize`: the date readers, in the order they are tried. -/",
         "def dateReaders : List String := " + lean_list([lean_str(f) for f in fmts]), "",
         "/-- times.cc `times_initialize`: format used when ledger writes a date (`print`, `format_date(d)`). -/",
         "def writtenDateFormat : String := " + lean_str(named["written_date_io"]), "",
         "/-- times.cc `times_initialize`: format of `FMT_PRINTED` dates (register column). -/",
         "def printedDateFormat : String := " + lean_str(named["printed_date_io"]), "",
         "def writtenDatetimeFormat : String := " + lean_str(named["written_datetime_io"]),
         "def printedDatetimeFormat : String := " + lean_str(named["printed_datetime_io"]),
         "def inputDatetimeFormat : String := " + lean_str(named["input_datetime_io"]),
         "def timelogDatetimeFormat : String := " + lean_str(named["timelog_datetime_io"]), "",
         "/-- times.cc: initial value of `convert_separators_to_slashes`. -/",
         "def convertSeparatorsDefault : Bool := " + ("true" if conv_default else "false"), "",
         "/-- times.cc `parse_date_mask_routine`: the characters rewritten, and what they become. -/",
         "def normalisedSeparators : List Char := " + lean_list(["'%s'" % c for c in seps]),
         "def separatorTarget : Char := '%s'" % target, "",
         "/-- times.cc `parse_date_mask_routine`: longest accepted date text (bytes). -/",
         "def maxDateLen : Nat := %d" % maxlen, "",
         "/-- times.cc 164-169: is the year of a format without a year moved back with boost's",
         "    `years(1)` subtraction (which snaps a last day of month to the last day of the target",
         "    month), as opposed to constructing `date(year - 1, month, day)`? -/",
         "def yearInferenceSnaps : Bool := " + ("true" if snaps else "false"), "",
         "/-- textual.cc `apply_year_directive`: (month, day) the clock is set to in the given year. -/",
         "def yearDirectiveMonthDay : Nat × Nat := (%d, %d)" % (ymonth, yday), "",
         "/-- Normalised bodies of the functions Model/DateParse.lean mirrors (the interpreted",
         "    year-inference statement is masked). -/",
         "def dateFns : List (String × String) := [",
         ",\n".join("  (%s, %s)" % (lean_str(k), lean_str(v)) for k, v in pairs), "]", "",
         "end Ledger.Gen"]
    return "\n".join(L) + "\n"


MORE = {"DateReaders": gen_date_readers}

if __name__ == "__main__":
    print(gen_date_readers())
