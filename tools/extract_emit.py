"""Translator part of C18: the escape tables and the csv row template of the
machine-readable emitters, re-read from the working tree on every run.

  report.cc  fn_quoted / fn_quoted_rfc   -> Gen.quotedPairs / Gen.quotedRfcPairs (+ delimiters)
  report.h   csv_format_ default         -> Gen.csvFormat, Gen.csvQuoter, Gen.csvColumns
  emacs.cc   escape_string               -> Gen.emacsEscapePairs (the replace_all sequence, in order)
  emacs.cc   write_xact / operator()     -> Gen.emacsEscapedFields (every value that is streamed through escape_string)
                                            Gen.emacsRawStreams    (every streamed operand that is NOT a literal / escape_string call)
  ptree.cc   flush                       -> Gen.xmlWriter (the external writer all XML goes through)
  boost/property_tree/detail/xml_parser_utils.hpp encode_char_entities
                                         -> Gen.xmlEntityPairs, Gen.xmlBlankRef (the writer's own escape table;
                                            external code, read from the header the hooks build compiles against)
"""
import os, re
import extract
from extract import src, strip_comments, function_body, need, lean_str, lean_list, ExtractError


# ---- C literals ---------------------------------------------------------------

_SIMPLE = {"n": "\n", "t": "\t", "r": "\r", "0": "\0", "\\": "\\", "'": "'", '"': '"', "a": "\a", "b": "\b", "f": "\f", "v": "\v"}


def c_unescape(body):
    out = []
    i = 0
    while i < len(body):
        ch = body[i]
        if ch == "\\":
            need(i + 1 < len(body), "dangling backslash in C literal " + body)
            e = body[i + 1]
            need(e in _SIMPLE, "unsupported escape \\%s in C literal %s" % (e, body))
            out.append(_SIMPLE[e])
            i += 2
        else:
            out.append(ch)
            i += 1
    return "".join(out)


LIT = r"""'(?:\\.|[^'\\])'|"(?:\\.|[^"\\])*\""""


def c_literal(tok):
    """value of a C char or string literal token"""
    tok = tok.strip()
    need(len(tok) >= 2 and tok[0] == tok[-1] and tok[0] in "'\"", "not a C literal: " + tok)
    v = c_unescape(tok[1:-1])
    if tok[0] == "'":
        need(len(v) == 1, "char literal of length != 1: " + tok)
    return v


def streamed_literals(stmt, stream="out"):
    """`out << LIT << LIT ...;` -> concatenated text; anything else -> ExtractError"""
    stmt = stmt.strip().rstrip(";").strip()
    m = re.fullmatch(re.escape(stream) + r"((?:\s*<<\s*(?:%s))+)" % LIT, stmt)
    need(m, "expected `%s << literal ...`, found: %s" % (stream, stmt))
    return "".join(c_literal(t) for t in re.findall(LIT, m.group(1)))


def lean_char(c):
    if c == "'":
        return "'\\''"
    if c == "\\":
        return "'\\\\'"
    if c == "\n":
        return "'\\n'"
    if c == "\t":
        return "'\\t'"
    need(32 <= ord(c) < 127, "non-printable character in an escape table: %r" % c)
    return "'%s'" % c


def lean_chars(s):
    return "[" + ", ".join(lean_char(c) for c in s) + "]"


def lean_pairs(pairs):
    return "[" + ", ".join("(%s, %s)" % (lean_char(k), lean_chars(v)) for k, v in pairs) + "]"


# ---- report.cc: quoted / quoted_rfc ------------------------------------------------


def quoter(fn):
    """fn_quoted-shaped function -> (open, pairs, close).
    Expected shape:
        std::ostringstream out;
        out << LIT;                         (opening delimiter)
        string arg(args.get<string>(0));
        foreach (const char ch, arg) {
          if (ch == C1) out << LITS; [else if (ch == C2) out << LITS;]* else out << ch;
        }
        out << LIT;                         (closing delimiter)
        return string_value(out.str());
    """
    text = strip_comments(src("report.cc"))
    body = function_body(text, r"value_t\s+report_t::" + fn + r"\s*\(\s*call_scope_t\s*&\s*args\s*\)\s*\{")
    m = re.search(r"foreach\s*\(\s*const\s+char\s+ch\s*,\s*arg\s*\)\s*\{", body)
    need(m, fn + ": no `foreach (const char ch, arg) {` loop")
    loop = function_body(body, r"foreach\s*\(\s*const\s+char\s+ch\s*,\s*arg\s*\)\s*\{")
    before = body[:m.start()]
    after = body[m.end() + len(loop) + 1:]
    pre = [s.strip() for s in before.split(";") if s.strip()]
    need(len(pre) == 3 and re.fullmatch(r"std::ostringstream\s+out", pre[0]) and
         re.fullmatch(r"string\s+arg\s*\(\s*args\.get<string>\(0\)\s*\)", pre[2]),
         fn + ": unexpected statements before the loop: %r" % pre)
    opening = streamed_literals(pre[1])
    post = [s.strip() for s in after.split(";") if s.strip()]
    need(len(post) == 2 and re.fullmatch(r"return\s+string_value\s*\(\s*out\.str\(\)\s*\)", post[1]),
         fn + ": unexpected statements after the loop: %r" % post)
    closing = streamed_literals(post[0])
    # the if / else-if chain
    pairs = []
    rest = loop.strip()
    first = True
    while True:
        m = re.match(r"(?:else\s+)?if\s*\(\s*ch\s*==\s*(%s)\s*\)\s*([^;]*;)\s*" % LIT, rest)
        if not m:
            break
        need(first or rest.startswith("else"), fn + ": second `if` without `else`: " + rest)
        first = False
        key = c_literal(m.group(1))
        need(len(key) == 1, fn + ": key is not one character")
        need(key not in [k for k, _ in pairs], fn + ": duplicate case for %r" % key)
        pairs.append((key, streamed_literals(m.group(2))))
        rest = rest[m.end():]
    need(pairs, fn + ": no `if (ch == ...)` case in the loop")
    need(re.fullmatch(r"else\s+out\s*<<\s*ch\s*;", rest.strip()), fn + ": loop does not end with `else out << ch;`: " + rest)
    return opening, pairs, closing


def joiner():
    """report.cc fn_join -> pairs (K, V): every K is written as V, every other character is copied.
    Accepted shapes of the loop body:
        if (ch != K) out << ch; else out << V;
        if (ch == K) out << V; [else if (ch == K2) out << V2;]* else out << ch;
    Anything else (a range test, a second statement) is not recognised."""
    text = strip_comments_keep_strings(src("report.cc"))
    body = function_body(text, r"value_t\s+report_t::fn_join\s*\(\s*call_scope_t\s*&\s*args\s*\)\s*\{")
    m = re.search(r"foreach\s*\(\s*const\s+char\s+ch\s*,\s*arg\s*\)\s*\{", body)
    need(m, "fn_join: no `foreach (const char ch, arg) {` loop")
    loop = function_body(body, r"foreach\s*\(\s*const\s+char\s+ch\s*,\s*arg\s*\)\s*\{")
    pre = [x.strip() for x in body[:m.start()].split(";") if x.strip()]
    post = [x.strip() for x in body[m.end() + len(loop) + 1:].split(";") if x.strip()]
    need(len(pre) == 2 and re.fullmatch(r"std::ostringstream\s+out", pre[0]) and
         re.fullmatch(r"string\s+arg\s*\(\s*args\.get<string>\(0\)\s*\)", pre[1]),
         "fn_join: unexpected statements before the loop: %r" % pre)
    need(len(post) == 1 and re.fullmatch(r"return\s+string_value\s*\(\s*out\.str\(\)\s*\)", post[0]),
         "fn_join: unexpected statements after the loop: %r" % post)
    rest = loop.strip()
    m1 = re.fullmatch(r"if\s*\(\s*ch\s*!=\s*(%s)\s*\)\s*out\s*<<\s*ch\s*;\s*else\s+([^;]*;)" % LIT, rest)
    if m1:
        return [(c_literal(m1.group(1)), streamed_literals(m1.group(2)))]
    pairs = []
    first = True
    while True:
        mm = re.match(r"(?:else\s+)?if\s*\(\s*ch\s*==\s*(%s)\s*\)\s*([^;]*;)\s*" % LIT, rest)
        if not mm:
            break
        need(first or rest.startswith("else"), "fn_join: second `if` without `else`")
        first = False
        pairs.append((c_literal(mm.group(1)), streamed_literals(mm.group(2))))
        rest = rest[mm.end():]
    need(pairs and re.fullmatch(r"else\s+out\s*<<\s*ch\s*;", rest.strip()),
         "fn_join: loop body has an unrecognised shape: " + loop.strip())
    return pairs


# ---- report.h: default csv format ----------------------------------------------------


def csv_format():
    text = strip_comments_keep_strings(src("report.h"))
    m = re.search(r"OPTION__\s*\(\s*report_t\s*,\s*csv_format_\s*,\s*CTOR\s*\(\s*report_t\s*,\s*csv_format_\s*\)\s*\{\s*on\s*\(\s*none\s*,((?:\s*\"(?:\\.|[^\"\\])*\")+)\s*\)\s*;\s*\}\s*\)\s*;", text)
    need(m, "report.h: default of csv_format_ not found")
    fmt = "".join(c_unescape(t[1:-1]) for t in re.findall(r"\"(?:\\.|[^\"\\])*\"", m.group(1)))
    # columns are %(QUOTER(EXPR)) separated by `,`; the row ends with a newline
    need(fmt.endswith("\n"), "csv format does not end with a newline: " + fmt)
    body = fmt[:-1]
    cols = []
    quoters = set()
    i = 0
    while True:
        need(body.startswith("%(", i), "csv format: expected %%( at %d: %s" % (i, body[i:]))
        j = i + 2
        depth = 1
        instr = False
        while j < len(body) and depth > 0:
            ch = body[j]
            if instr:
                if ch == "\\":
                    j += 1
                elif ch == '"':
                    instr = False
            elif ch == '"':
                instr = True
            elif ch == "(":
                depth += 1
            elif ch == ")":
                depth -= 1
            j += 1
        need(depth == 0, "csv format: unbalanced %( ... )")
        inner = body[i + 2:j - 1]
        mm = re.fullmatch(r"(quoted|quoted_rfc)\((.*)\)", inner, flags=re.S)
        need(mm, "csv format: column is not quoted(...)/quoted_rfc(...): " + inner)
        quoters.add(mm.group(1))
        cols.append(mm.group(2))
        if j == len(body):
            break
        need(body[j] == ",", "csv format: expected `,` between columns, found %r" % body[j])
        i = j + 1
    need(len(quoters) == 1, "csv format mixes quoted and quoted_rfc")
    return fmt, quoters.pop(), cols


def strip_comments_keep_strings(s):
    """remove // and /* */ comments but leave string literals (which may contain //) alone"""
    out = []
    i = 0
    n = len(s)
    while i < n:
        if s[i] == '"':
            j = i + 1
            while j < n and s[j] != '"':
                if s[j] == "\\":
                    j += 1
                j += 1
            out.append(s[i:j + 1])
            i = j + 1
        elif s[i] == "'" and i + 2 < n:
            j = i + 1
            while j < n and s[j] != "'":
                if s[j] == "\\":
                    j += 1
                j += 1
            out.append(s[i:j + 1])
            i = j + 1
        elif s.startswith("//", i):
            while i < n and s[i] != "\n":
                i += 1
        elif s.startswith("/*", i):
            k = s.find("*/", i + 2)
            i = n if k < 0 else k + 2
        else:
            out.append(s[i])
            i += 1
    return "".join(out)


# ---- emacs.cc ------------------------------------------------------------------------------


def balanced_arg(text, start):
    """text[start] is just after an opening parenthesis; return (argument text, index after the closing one)"""
    depth = 1
    j = start
    while j < len(text):
        ch = text[j]
        if ch in "\"'":
            q = ch
            j += 1
            while text[j] != q:
                if text[j] == "\\":
                    j += 1
                j += 1
        elif ch == "(":
            depth += 1
        elif ch == ")":
            depth -= 1
            if depth == 0:
                return text[start:j], j + 1
        j += 1
    raise ExtractError("unbalanced parentheses in emacs.cc")


def emacs():
    text = strip_comments_keep_strings(src("emacs.cc"))
    body = function_body(text, r"string\s+format_emacs_posts::escape_string\s*\(\s*string\s+raw\s*\)\s*\{")
    stmts = [s.strip() for s in body.split(";") if s.strip()]
    need(stmts and stmts[-1] == "return raw", "escape_string does not end with `return raw;`")
    pairs = []
    for s in stmts[:-1]:
        m = re.fullmatch(r"replace_all\s*\(\s*raw\s*,\s*(%s)\s*,\s*(%s)\s*\)" % (LIT, LIT), s)
        need(m, "escape_string: unexpected statement: " + s)
        pat, rep = c_literal(m.group(1)), c_literal(m.group(2))
        need(len(pat) == 1, "escape_string: replace_all pattern is not a single character: %r" % pat)
        pairs.append((pat, rep))
    # every operand streamed to `out` in write_xact / operator(): literal, escape_string(..), or raw
    escaped, raw = [], []
    for sig in (r"void\s+format_emacs_posts::write_xact\s*\(\s*xact_t\s*&\s*xact\s*\)\s*\{",
                r"void\s+format_emacs_posts::operator\(\)\s*\(\s*post_t\s*&\s*post\s*\)\s*\{"):
        fb = function_body(text, sig)
        for m in re.finditer(r"\bout\b((?:\s*<<\s*(?:%s|[^<;]+?))+)\s*;" % LIT, fb):
            chain = m.group(1)
            k = 0
            while True:
                mm = re.compile(r"\s*<<\s*").match(chain, k)
                if not mm:
                    break
                k = mm.end()
                lit = re.compile(LIT).match(chain, k)
                if lit:
                    k = lit.end()
                    continue
                if chain.startswith("escape_string", k):
                    p = chain.index("(", k)
                    arg, k = balanced_arg(chain, p + 1)
                    escaped.append(re.sub(r"\s+", "", arg))
                    continue
                # a raw operand: up to the next top-level `<<`
                depth = 0
                j = k
                while j < len(chain):
                    if chain[j] == "(":
                        depth += 1
                    elif chain[j] == ")":
                        depth -= 1
                    elif chain.startswith("<<", j) and depth == 0:
                        break
                    j += 1
                raw.append(re.sub(r"\s+", "", chain[k:j]))
                k = j
    need(escaped, "emacs.cc: no escape_string(...) operand found")
    return pairs, escaped, raw


# ---- XML ----------------------------------------------------------------------------------


def xml_writer():
    text = strip_comments(src("ptree.cc"))
    body = function_body(text, r"void\s+format_ptree::flush\s*\(\s*\)\s*\{")
    m = re.search(r"(property_tree::write_xml)\s*\(\s*out\s*,\s*pt\s*,", body)
    need(m, "ptree.cc: flush no longer writes through property_tree::write_xml(out, pt, ...)")
    outs = re.findall(r"\bout\s*<<\s*([^;]+);", body)
    need(all(re.fullmatch(r"std::endl", o.strip()) for o in outs), "ptree.cc: flush streams something else than std::endl to out: %r" % outs)
    return "boost::" + m.group(1)


PINNED_XML = [("<", "&lt;"), (">", "&gt;"), ("&", "&amp;"), ('"', "&quot;"), ("'", "&apos;")]


def boost_header():
    cands = []
    build = os.environ.get("VERIF_BUILD") or os.path.join(extract.ROOT, ".build")
    cache = os.path.join(build, "hooks", "CMakeCache.txt")
    if os.path.exists(cache):
        with open(cache, errors="replace") as f:
            for line in f:
                m = re.match(r"Boost_INCLUDE_DIRS?:[A-Z]+=(.+)", line.strip())
                if m:
                    cands.append(m.group(1))
    cands += ["/usr/include", "/usr/local/include", "/opt/homebrew/include"]
    for c in cands:
        p = os.path.join(c, "boost", "property_tree", "detail", "xml_parser_utils.hpp")
        if os.path.exists(p):
            return p
    return None


def xml_entities():
    """(pairs, blank reference, source). The writer is external code: its table is
    read from the installed header when present, else the pinned five are used
    (the source is recorded in Gen.xmlEntitySource and in the evidence)."""
    p = boost_header()
    if p is None:
        return PINNED_XML, "&#32;", "pinned (boost header not found)"
    with open(p, errors="replace") as f:
        text = strip_comments_keep_strings(f.read())
    body = function_body(text, r"Str\s+encode_char_entities\s*\(\s*const\s+Str\s*&\s*s\s*\)\s*\{")
    pairs = []
    for m in re.finditer(r"case\s+Ch\((%s)\)\s*:\s*r\s*\+=\s*detail::widen<Str>\((%s)\)\s*;\s*break\s*;" % (LIT, LIT), body):
        pairs.append((c_literal(m.group(1)), c_literal(m.group(2))))
    need(pairs, "boost encode_char_entities: no `case Ch(..): r += widen(..)` found in " + p)
    need(re.search(r"default\s*:\s*r\s*\+=\s*\*it\s*;", body), "boost encode_char_entities: default case is not `r += *it`")
    m = re.search(r"find_first_not_of\s*\(\s*sp\s*\)\s*==\s*Str::npos\s*\)\s*\{\s*r\s*=\s*detail::widen<Str>\((%s)\)\s*;\s*r\s*\+=\s*Str\s*\(\s*s\.size\(\)\s*-\s*1\s*,\s*Ch\(' '\)\s*\)\s*;" % LIT, body)
    need(m, "boost encode_char_entities: the all-spaces case has an unexpected shape")
    return pairs, c_literal(m.group(1)), p


# ---- Gen/Emit.lean -------------------------------------------------------------------


def gen_emit():
    qo, qp, qc = quoter("fn_quoted")
    ro, rp, rc = quoter("fn_quoted_rfc")
    fmt, quoter_name, cols = csv_format()
    ep, escaped, raw = emacs()
    jp = joiner()
    writer = xml_writer()
    xp, blank, xsrc = xml_entities()
    L = ["/- GENERATED by tools/extract_emit.py from src/report.cc, src/report.h, src/emacs.cc, src/ptree.cc",
         "   and boost's xml_parser_utils.hpp - do not edit. -/",
         "namespace Ledger.Gen", "",
         "/-- report.cc `fn_quoted`: text streamed before / after the per-character loop. -/",
         "def quotedOpen : List Char := " + lean_chars(qo),
         "def quotedClose : List Char := " + lean_chars(qc),
         "/-- report.cc `fn_quoted`: `if (ch == K) out << V; ... else out << ch;` as (K, V). -/",
         "def quotedPairs : List (Char × List Char) := " + lean_pairs(qp), "",
         "/-- report.cc `fn_quoted_rfc`. -/",
         "def quotedRfcOpen : List Char := " + lean_chars(ro),
         "def quotedRfcClose : List Char := " + lean_chars(rc),
         "def quotedRfcPairs : List (Char × List Char) := " + lean_pairs(rp), "",
         "/-- report.h: default of `--csv-format` (value of the C string). -/",
         "def csvFormat : String := " + lean_str(fmt),
         "/-- the quoting function every column of the default csv format is wrapped in -/",
         "def csvQuoter : String := " + lean_str(quoter_name),
         "/-- the column expressions of the default csv format, in order -/",
         "def csvColumns : List String := " + lean_list([lean_str(c) for c in cols]),
         "/-- report.cc `fn_join` (`join(x)` in format strings): (K, V) = K is written as V, everything else is copied. -/",
         "def joinPairs : List (Char × List Char) := " + lean_pairs(jp), "",
         "/-- emacs.cc `escape_string`: the `replace_all(raw, K, V)` calls, in program order. -/",
         "def emacsEscapePairs : List (Char × List Char) := " + lean_pairs(ep),
         "/-- emacs.cc `write_xact` / `operator()`: every operand streamed through `escape_string`, in program order. -/",
         "def emacsEscapedFields : List String := " + lean_list([lean_str(c) for c in escaped]),
         "/-- emacs.cc: every streamed operand that is neither a literal nor an `escape_string` call. -/",
         "def emacsRawStreams : List String := " + lean_list([lean_str(c) for c in raw]), "",
         "/-- ptree.cc `format_ptree::flush`: the (external) writer all XML output goes through. -/",
         "def xmlWriter : String := " + lean_str(writer),
         "/-- boost `encode_char_entities` (external; source: see `xmlEntitySource`). -/",
         "def xmlEntityPairs : List (Char × List Char) := " + lean_pairs(xp),
         "/-- what that function writes for the first blank of a text made of blanks only -/",
         "def xmlBlankRef : List Char := " + lean_chars(blank),
         "def xmlEntitySource : String := " + lean_str(xsrc), "",
         "end Ledger.Gen"]
    return "\n".join(L) + "\n"


# ---- pinned bodies of the emitters the model mirrors (tools/NOTE_PINNING.md) ----------


EMIT_FNS = [
    ("report.cc", [("report.cc:fn_quoted", r"value_t\s+report_t::fn_quoted\s*\(call_scope_t& args\)\s*\{"),
                   ("report.cc:fn_quoted_rfc", r"value_t\s+report_t::fn_quoted_rfc\s*\(call_scope_t& args\)\s*\{"),
                   ("report.cc:fn_join", r"value_t\s+report_t::fn_join\s*\(call_scope_t& args\)\s*\{"),
                   ("report.cc:fn_commodity", r"value_t\s+report_t::fn_commodity\s*\(call_scope_t& args\)\s*\{"),
                   ("report.cc:fn_quantity", r"value_t\s+report_t::fn_quantity\s*\(call_scope_t& args\)\s*\{"),
                   ("report.cc:fn_scrub", r"value_t\s+report_t::fn_scrub\s*\(call_scope_t& args\)\s*\{")]),
    ("post.cc", [("post.cc:get_display_account", r"value_t\s+get_display_account\s*\(call_scope_t& args\)\s*\{"),
                 ("post.cc:get_note", r"value_t\s+get_note\s*\(post_t& post\)\s*\{"),
                 ("post.cc:get_payee", r"value_t\s+get_payee\s*\(post_t& post\)\s*\{")]),
    ("xact.cc", [("xact.cc:get_code", r"value_t\s+get_code\s*\(xact_t& xact\)\s*\{"),
                 ("xact.cc:get_payee", r"value_t\s+get_payee\s*\(xact_t& xact\)\s*\{")]),
    ("emacs.cc", [("emacs.cc:write_xact", r"void\s+format_emacs_posts::write_xact\s*\(xact_t& xact\)\s*\{"),
                  ("emacs.cc:operator()", r"void\s+format_emacs_posts::operator\(\)\s*\(post_t& post\)\s*\{"),
                  ("emacs.cc:escape_string", r"string\s+format_emacs_posts::escape_string\s*\(string raw\)\s*\{")]),
    ("emacs.h", [("emacs.h:flush", r"virtual\s+void\s+flush\s*\(\)\s*\{")]),
    ("ptree.cc", [("ptree.cc:flush", r"void\s+format_ptree::flush\s*\(\)\s*\{"),
                  ("ptree.cc:operator()", r"void\s+format_ptree::operator\(\)\s*\(post_t& post\)\s*\{")]),
    ("xact.cc", [("xact.cc:put_xact", r"void\s+put_xact\s*\(property_tree::ptree& st, const xact_t& xact\)\s*\{")]),
    ("post.cc", [("post.cc:put_post", r"void\s+put_post\s*\(property_tree::ptree& st, const post_t& post\)\s*\{")]),
    ("account.cc", [("account.cc:put_account", r"void\s+put_account\s*\(property_tree::ptree& st, const account_t& acct,\s*function<bool\(const account_t&\)> pred\)\s*\{")]),
    ("amount.cc", [("amount.cc:put_amount", r"void\s+put_amount\s*\(property_tree::ptree& st, const amount_t& amt,\s*bool commodity_details\)\s*\{")]),
    ("commodity.cc", [("commodity.cc:put_commodity", r"void\s+put_commodity\s*\(property_tree::ptree& st, const commodity_t& comm,\s*bool commodity_details\)\s*\{")]),
    ("item.cc", [("item.cc:put_metadata", r"void\s+put_metadata\s*\(property_tree::ptree& st, const item_t::string_map& metadata\)\s*\{")]),
    ("annotate.cc", [("annotate.cc:put_annotation", r"void\s+put_annotation\s*\(property_tree::ptree& st, const annotation_t& details\)\s*\{")]),
    ("times.h", [("times.h:put_date", r"inline\s+void\s+put_date\s*\(property_tree::ptree& pt, const date_t& when\)\s*\{")]),
]


def gen_emit_fns():
    pairs = []
    for fname, sigs in EMIT_FNS:
        pairs += extract.pin_functions(fname, sigs)
    return extract.gen_pairs("Normalised bodies of the csv quoting functions, the emacs emitter and the XML put_* emitters that "
                             "Model/Emit.lean mirrors (or, for XML, that hand every string to the property_tree writer).",
                             "emitFns", pairs,
                             "src/report.cc, src/emacs.cc, src/emacs.h, src/ptree.cc, src/xact.cc, src/post.cc, src/account.cc, "
                             "src/amount.cc, src/commodity.cc, src/item.cc, src/annotate.cc, src/times.h")


MORE = {"Emit": gen_emit, "EmitFns": gen_emit_fns}
