"""Translator part of C12: the error-accounting shapes of textual.cc, the
exit-status expression of main.cc / global.cc and the error-context strings of
error.cc / textual.cc / item.cc, re-extracted from /repo/src on every run into
lean/LedgerModel/Gen/ExitStatus.lean.

Recognised exit-status expressions (main.cc, `catch (const error_count& errors)`):
  raw      status = static_cast<int>(errors.count);
  clamp K  status = static_cast<int>(std::min<std::size_t>(errors.count, K));   (and ?: spellings)
  sign     status = errors.count > 0 ? 1 : 0;   /  errors.count ? 1 : 0  /  != 0
anything else raises ExtractError (the tie is then reported as broken).
"""
import re
import extract
from extract import src, strip_comments, function_body, need, lean_str, norm_ws, ExtractError, pin_functions, gen_pairs


def _catch_block(text, head_re, what):
    m = re.search(head_re, text)
    need(m, what + ": catch clause not found")
    return function_body(text[m.start():], head_re)


def status_shape():
    """('raw', 0) | ('clamp', K) | ('sign', 0) from main.cc."""
    main = strip_comments(src("main.cc"))
    # main() contains `#if HAVE_EDIT` alternatives with unbalanced braces: work on the file text
    need(len(re.findall(r"\bint\s+main\s*\(", main)) == 1, "main.cc: expected exactly one main()")
    body = main[re.search(r"\bint\s+main\s*\(", main).start():]
    need(len(re.findall(r"catch\s*\(\s*const\s+error_count\s*&", body)) == 1, "main.cc: expected exactly one error_count handler")
    # the only other return allowed is the early `return 1;` of the handler wrapped around
    # handle_debug_options (it runs before any journal is read)
    early = re.findall(r"try\s*\{\s*handle_debug_options\(argc, argv\);\s*\}\s*catch\s*\(const std::exception& err\)\s*\{[^{}]*\breturn\s+1\s*;\s*\}", body)
    need(len(re.findall(r"\breturn\s+status\s*;", body)) == 1 and
         len(re.findall(r"\breturn\b", body)) == 1 + len(early) and len(early) <= 1,
         "main.cc: main() no longer has the single `return status;`")
    need(re.search(r"int\s+status\s*=\s*1\s*;", body), "main.cc: `int status = 1;` not found")
    need(re.search(r"return\s+status\s*;", body), "main.cc: `return status;` not found")
    blk = _catch_block(body, r"catch\s*\(\s*const\s+error_count\s*&\s*(\w+)\s*\)\s*\{", "main.cc")
    var = re.search(r"catch\s*\(\s*const\s+error_count\s*&\s*(\w+)\s*\)", body).group(1)
    stmts = [norm_ws(s) for s in blk.split(";") if norm_ws(s)]
    need(len(stmts) == 1, "main.cc: error_count handler is no longer a single assignment: %r" % stmts)
    s = stmts[0]
    m = re.fullmatch(r"status\s*=\s*(.*)", s)
    need(m, "main.cc: error_count handler does not assign `status`: %r" % s)
    e = m.group(1).replace(" ", "")
    cnt = re.escape(var) + r"\.count"
    sz = r"(?:std::)?size_t"
    if re.fullmatch(r"static_cast<int>\(%s\)" % cnt, e) or re.fullmatch(r"\(int\)%s" % cnt, e):
        return "raw", 0
    pats = [r"static_cast<int>\(std::min<%s>\(%s,(\d+)[uUlL]*\)\)" % (sz, cnt),
            r"static_cast<int>\(std::min<%s>\((\d+)[uUlL]*,%s\)\)" % (sz, cnt),
            r"static_cast<int>\(std::min\(%s,static_cast<%s>\((\d+)[uUlL]*\)\)\)" % (cnt, sz),
            r"static_cast<int>\(std::min\(%s,%s\((\d+)[uUlL]*\)\)\)" % (cnt, sz),
            r"%s>(\d+)[uUlL]*\?\1:static_cast<int>\(%s\)" % (cnt, cnt),
            r"static_cast<int>\(%s>(\d+)[uUlL]*\?\1[uUlL]*:%s\)" % (cnt, cnt)]
    for p in pats:
        mm = re.fullmatch(p, e)
        if mm:
            return "clamp", int(mm.group(1))
    if re.fullmatch(r"\(?%s(?:>0|!=0)?\)?\?1:0" % cnt, e):
        return "sign", 0
    raise ExtractError("main.cc: exit-status expression not recognised: status = %s" % m.group(1))


def flow_facts():
    """Shapes of the error accounting the model mirrors; ExtractError when one is gone.
    Returns dict of the numbers the model is stated over."""
    t = strip_comments(src("textual.cc"))
    parse = function_body(t, r"void\s+instance_t::parse\s*\(\s*\)\s*\{")
    loop = function_body(parse, r"while\s*\(\s*in\.good\(\)\s*&&\s*!\s*in\.eof\(\)\s*\)\s*\{")
    need(re.search(r"try\s*\{[^{}]*read_next_directive\s*\(\s*error_flag\s*,", loop, flags=re.S),
         "textual.cc parse: `try { read_next_directive(error_flag, …) }` not found in the line loop")
    cat = _catch_block(loop, r"catch\s*\(\s*const\s+std::exception\s*&\s*\w+\s*\)\s*\{", "textual.cc parse")
    incs = len(re.findall(r"context\.errors\s*\+\+|\+\+\s*context\.errors|context\.errors\s*\+=\s*1\s*;", cat))
    need(len(re.findall(r"context\.errors", cat)) == incs,
         "textual.cc parse: context.errors is used in the catch block other than as a unit increment")
    need("context.errors" not in loop.replace(cat, ""), "textual.cc parse: context.errors is touched outside the catch block")
    sets_flag = bool(re.search(r"\berror_flag\s*=\s*true\s*;", cat))
    m_wp = re.search(r'add_error_context\s*\(\s*_f\s*\(\s*"([^"%]*)%1%"\s*\)\s*%\s*context\.location\(\)\s*\)', cat)
    need(m_wp, "textual.cc parse: error context `<text>%1%` with context.location() not found")
    m_if = re.search(r'add_error_context\s*\(\s*_f\s*\(\s*"([^"%]*)%1%"\s*\)\s*%\s*instance->context\.location\(\)\s*\)', cat)
    need(m_if, "textual.cc parse: error context `<text>%1%` with instance->context.location() not found")
    need(cat.find("instance->context.location()") < cat.find("% context.location()"),
         "textual.cc parse: the include chain is no longer added before the file's own context")
    ch = strip_comments(src("context.h"))
    need(re.search(r"string\s+location\(\)\s*const\s*\{\s*return\s+file_context\s*\(\s*pathname\s*,\s*linenum\s*\)\s*;\s*\}", ch),
         "context.h: location() is no longer file_context(pathname, linenum)")
    need(re.search(r'std::cerr\s*<<\s*_\(\s*"Error: "\s*\)\s*<<\s*err\.what\(\)', cat),
         "textual.cc parse: `Error: ` line not found")
    # read_next_directive: a non-indented line clears error_flag; an indented one is an error unless the flag is set
    rnd = function_body(t, r"xact_t\s*\*\s*instance_t::read_next_directive\s*\([^)]*\)\s*\{")
    need(re.search(r"if\s*\(\s*!\s*std::isspace\s*\(\s*static_cast<unsigned char>\s*\(\s*line\[0\]\s*\)\s*\)\s*\)\s*error_flag\s*=\s*false\s*;", rnd),
         "textual.cc read_next_directive: error_flag reset on a non-indented line not found")
    need(re.search(r"case\s*' '\s*:\s*case\s*'\\t'\s*:\s*if\s*\(\s*!\s*error_flag\s*\)\s*throw\s+parse_error\s*\(\s*_\(\s*\"Unexpected whitespace at beginning of line\"\s*\)\s*\)\s*;\s*break\s*;", rnd),
         "textual.cc read_next_directive: `if (! error_flag) throw …Unexpected whitespace…` not found")
    # include_directive: the child context's count is added to the including context on both paths
    inc = function_body(t, r"void\s+instance_t::include_directive\s*\(\s*char\s*\*\s*line\s*\)\s*\{")
    need(re.search(r"std::size_t\s*&\s*errors\s*=\s*context\.errors\s*;", inc), "textual.cc include_directive: `errors` no longer aliases context.errors")
    adds = re.findall(r"\berrors\s*\+=\s*context_stack\.get_current\(\)\.errors\s*;", inc)
    need(len(adds) == 2, "textual.cc include_directive: expected the child's errors to be added on both paths, found %d" % len(adds))
    need(re.search(r'"File to include was not found: %1%"', inc), "textual.cc include_directive: missing-file error not found")
    # read_textual: throws error_count(errors, last) iff errors > 0
    rt = function_body(t, r"std::size_t\s+journal_t::read_textual\s*\([^)]*\)\s*\{")
    m = re.search(r"if\s*\(\s*context_stack\.get_current\(\)\.errors\s*>\s*0\s*\)\s*throw\s+error_count\s*\(\s*context_stack\.get_current\(\)\.errors\s*,", rt)
    need(m, "textual.cc read_textual: `if (errors > 0) throw error_count(errors, …)` not found")
    # error_count is not a std::exception (so execute_command_wrapper's handler does not see it)
    eh = strip_comments(src("error.h"))
    need(re.search(r"struct\s+error_count\s*\{", eh), "error.h: struct error_count not found")
    need(not re.search(r"struct\s+error_count\s*:", eh), "error.h: error_count now derives from something")
    need(re.search(r"std::size_t\s+count\s*;", function_body(eh, r"struct\s+error_count\s*\{")), "error.h: error_count::count is no longer std::size_t")
    # global.cc: the journal is read before the command is looked up / run; the wrapper only handles std::exception
    g = strip_comments(src("global.cc"))
    ec = function_body(g, r"void\s+global_scope_t::execute_command\s*\([^)]*\)\s*\{")
    i_read = ec.find("session().read_journal_files()")
    i_cmd = ec.find("command(command_args)")
    i_out = ec.find("output_stream")
    need(0 <= i_read < i_out < i_cmd, "global.cc execute_command: read_journal_files() no longer precedes output_stream.initialize and command(command_args)")
    w = function_body(g, r"int\s+global_scope_t::execute_command_wrapper\s*\([^)]*\)\s*\{")
    need(re.search(r"int\s+status\s*=\s*1\s*;", w) and re.search(r"status\s*=\s*0\s*;", w) and re.search(r"return\s+status\s*;", w),
         "global.cc execute_command_wrapper: status 1 / 0 shape not found")
    need(len(re.findall(r"\bcatch\s*\(", w)) == 1 and re.search(r"catch\s*\(\s*const\s+std::exception\s*&", w),
         "global.cc execute_command_wrapper: handlers changed")
    # main.cc: one verb on the command line goes through execute_command_wrapper(args, false)
    mn = strip_comments(src("main.cc"))
    need(re.search(r"status\s*=\s*global_scope->execute_command_wrapper\s*\(\s*args\s*,\s*false\s*\)\s*;", mn),
         "main.cc: `status = execute_command_wrapper(args, false)` not found")
    # session.cc: one journal->read per -f file, in order, exceptions propagate (so a later file is not read)
    s = strip_comments(src("session.cc"))
    rd = function_body(s, r"std::size_t\s+session_t::read_data\s*\([^)]*\)\s*\{")
    lp = function_body(rd, r"foreach\s*\(\s*const\s+path\s*&\s*pathname\s*,\s*HANDLER\(file_\)\.data_files\s*\)\s*\{")
    need(re.search(r"try\s*\{\s*xact_count\s*\+=\s*journal->read\s*\(", lp), "session.cc read_data: per-file journal->read not found")
    per_file_stop = bool(re.search(r"catch\s*\(\s*\.\.\.\s*\)\s*\{\s*parsing_context\.pop\(\)\s*;\s*throw\s*;\s*\}", lp)) and \
        "error_count" not in lp
    # error.cc / item.cc strings
    e = strip_comments(src("error.cc"))
    fc = function_body(e, r"string\s+file_context\s*\([^)]*\)\s*\{")
    m = re.search(r"buf\s*<<\s*'\"'\s*<<\s*file\.string\(\)\s*<<\s*\"((?:\\.|[^\"\\])*)\"\s*<<\s*line\s*<<\s*\"((?:\\.|[^\"\\])*)\"\s*;", fc)
    need(m, "error.cc file_context: `\"F\", line N:` shape not found")
    mid = bytes(m.group(1), "utf-8").decode("unicode_escape")
    end = bytes(m.group(2), "utf-8").decode("unicode_escape")
    it = strip_comments(src("item.cc"))
    ic = function_body(it, r"string\s+item_context\s*\([^)]*\)\s*\{")
    need(re.search(r'out\s*<<\s*desc\s*<<\s*_\(\s*" from \\""\s*\)\s*<<\s*item\.pos->pathname\.string\(\)\s*<<\s*"\\""', ic),
         "item.cc item_context: ` from \"F\"` shape not found")
    need(re.search(r'_\(\s*", lines "\s*\)\s*<<\s*item\.pos->beg_line\s*<<\s*"-"\s*<<\s*item\.pos->end_line', ic),
         "item.cc item_context: `, lines A-B` shape not found")
    return dict(incs=incs, sets_flag=sets_flag, per_file_stop=per_file_stop, mid=mid, end=end,
                while_parsing=m_wp.group(1), included_from=m_if.group(1))


def gen_exit_status():
    kind, k = status_shape()
    f = flow_facts()
    shape = {"raw": ".raw", "clamp": ".clamp %d" % k, "sign": ".sign"}[kind]
    L = ["/- GENERATED by tools/extract_errors.py from src/main.cc, global.cc, textual.cc, session.cc,",
         "   error.cc, error.h, item.cc - do not edit. -/",
         "namespace Ledger.Gen", "",
         "/-- Shape of the expression assigned to `status` in main.cc's",
         "    `catch (const error_count& errors)` handler. -/",
         "inductive StatusShape where",
         "  | raw                -- static_cast<int>(errors.count)",
         "  | clamp (k : Nat)    -- static_cast<int>(std::min<std::size_t>(errors.count, k))",
         "  | sign               -- errors.count > 0 ? 1 : 0",
         "deriving DecidableEq, Repr", "",
         "/-- main.cc, the error_count handler, as found in the working tree. -/",
         "def exitStatusShape : StatusShape := " + shape, "",
         "/-- The value main() returns when journal reading ended with `count` errors. -/",
         "def exitStatusExpr (count : Nat) : Nat :=",
         "  match exitStatusShape with",
         "  | .raw => count",
         "  | .clamp k => min count k",
         "  | .sign => if count = 0 then 0 else 1", "",
         "/-- textual.cc instance_t::parse: how many times the catch block of the line loop",
         "    increments `context.errors` (per caught exception). -/",
         "def errorsPerCatch : Nat := %d" % f["incs"], "",
         "/-- textual.cc instance_t::parse: the catch block sets `error_flag = true`, so that",
         "    read_next_directive swallows the indented remainder of the failed item. -/",
         "def errorFlagSetInCatch : Bool := " + ("true" if f["sets_flag"] else "false"), "",
         "/-- session.cc read_data: each `-f` file is read by its own journal->read and an",
         "    exception (the `error_count` of read_textual) leaves the loop, so files named after",
         "    the first one with errors are not read. -/",
         "def stopAfterFaultyFile : Bool := " + ("true" if f["per_file_stop"] else "false"), "",
         "/-- textual.cc instance_t::parse context lines. -/",
         "def ctxWhileParsing : String := " + lean_str(f["while_parsing"]),
         "def ctxIncludedFrom : String := " + lean_str(f["included_from"]), "",
         "/-- error.cc file_context: `\"` F `\", line ` N `:`. -/",
         "def fileContextOpen : String := " + lean_str('"'),
         "def fileContextMid : String := " + lean_str(f["mid"]),
         "def fileContextEnd : String := " + lean_str(f["end"]), "",
         "end Ledger.Gen"]
    return "\n".join(L) + "\n"


TEXTUAL_FNS = [
    ("textual.cc:instance_t::parse", r"void\s+instance_t::parse\s*\(\s*\)\s*\{"),
    ("textual.cc:instance_t::read_line", r"std::streamsize\s+instance_t::read_line\s*\(\s*char\s*\*\s*&\s*line\s*\)\s*\{"),
    ("textual.cc:instance_t::read_next_directive", r"xact_t\s*\*\s*instance_t::read_next_directive\s*\([^)]*\)\s*\{"),
    ("textual.cc:instance_t::include_directive", r"void\s+instance_t::include_directive\s*\(\s*char\s*\*\s*line\s*\)\s*\{"),
    ("textual.cc:journal_t::read_textual", r"std::size_t\s+journal_t::read_textual\s*\([^)]*\)\s*\{"),
]
GLOBAL_FNS = [
    ("global.cc:report_error", r"void\s+global_scope_t::report_error\s*\([^)]*\)\s*\{"),
    ("global.cc:execute_command", r"void\s+global_scope_t::execute_command\s*\([^)]*\)\s*\{"),
    ("global.cc:execute_command_wrapper", r"int\s+global_scope_t::execute_command_wrapper\s*\([^)]*\)\s*\{"),
]
JOURNAL_FNS = [
    ("journal.cc:journal_t::read", r"std::size_t\s+journal_t::read\s*\(\s*parse_context_stack_t[^)]*\)\s*\{"),
    ("journal.cc:register_account", r"account_t\s*\*\s*journal_t::register_account\s*\([^)]*\)\s*\{"),
    ("journal.cc:validate_payee", r"string\s+journal_t::validate_payee\s*\([^)]*\)\s*\{"),
    ("journal.cc:should_check_payees", r"bool\s+journal_t::should_check_payees\s*\(\s*\)\s*\{"),
    ("journal.cc:register_commodity", r"void\s+journal_t::register_commodity\s*\([^)]*\)\s*\{"),
    ("journal.cc:register_payee", r"string\s+journal_t::register_payee\s*\([^)]*\)\s*\{"),
    ("journal.cc:payee_not_registered", r"bool\s+journal_t::payee_not_registered\s*\([^)]*\)\s*\{"),
    ("journal.cc:register_metadata", r"void\s+journal_t::register_metadata\s*\([^{;]*\)\s*\{"),
    ("journal.cc:check_all_metadata", r"void\s+check_all_metadata\s*\([^{;]*\)\s*\{"),
]
# where the `known` state of names is created / inherited / set
KNOWN_FNS = {
    "account.cc": [("account.cc:account_t::find_account", r"account_t\s*\*\s*account_t::find_account\s*\(\s*const\s+string\s*&\s*acct_name[^)]*\)\s*\{")],
    "textual.cc": [
        ("textual.cc:instance_t::payee_directive", r"void\s+instance_t::payee_directive\s*\(\s*char\s*\*\s*line\s*\)\s*\{"),
        ("textual.cc:instance_t::commodity_directive", r"void\s+instance_t::commodity_directive\s*\(\s*char\s*\*\s*line\s*\)\s*\{"),
        ("textual.cc:instance_t::tag_directive", r"void\s+instance_t::tag_directive\s*\(\s*char\s*\*\s*line\s*\)\s*\{"),
        ("textual.cc:instance_t::nomarket_directive", r"void\s+instance_t::nomarket_directive\s*\(\s*char\s*\*\s*line\s*\)\s*\{"),
        ("textual.cc:instance_t::default_commodity_directive", r"void\s+instance_t::default_commodity_directive\s*\(\s*char\s*\*\s*line\s*\)\s*\{"),
    ],
}


def known_flag_sites():
    """Shapes (not whole bodies: these routines are edited for other properties) of the places
    where a name is checked against / entered into the `known` sets."""
    t = strip_comments(src("textual.cc"))
    ad = function_body(t, r"void\s+instance_t::account_directive\s*\(\s*char\s*\*\s*line\s*\)\s*\{")
    need(re.search(r"context\.journal->register_account\s*\(\s*p\s*,\s*NULL\s*,\s*top_account\(\)\s*\)", ad),
         "textual.cc account_directive: register_account(p, NULL, top_account()) not found")
    need(len(re.findall(r"register_account\s*\(\s*name\s*,\s*post\.get\(\)\s*,\s*account\s*\)", t)) == 1,
         "textual.cc parse_post: register_account(name, post.get(), account) not found exactly once")
    need(len(re.findall(r"if\s*\(\s*!\s*post->amount\.is_null\(\)\s*&&\s*post->amount\.has_commodity\(\)\s*\)\s*\{\s*"
                        r"context\.journal->register_commodity\s*\(\s*post->amount\.commodity\(\)\s*,\s*post\.get\(\)\s*\)\s*;", t)) == 1,
         "textual.cc parse_post: register_commodity(post->amount.commodity(), post.get()) not found exactly once")
    need(re.search(r"xact->payee\s*=\s*context\.journal->validate_payee\s*\(\s*next\s*\)\s*;", t),
         "textual.cc parse_xact: xact->payee = validate_payee(next) not found")
    n_cost = len(re.findall(r"register_commodity\s*\(\s*post->(?:given_)?cost->commodity\(\)", t))
    j = strip_comments(src("journal.cc"))
    ax = function_body(j, r"bool\s+journal_t::add_xact\s*\(\s*xact_t\s*\*\s*xact\s*\)\s*\{")
    need(re.search(r"check_all_metadata\s*\(\s*\*this\s*,\s*xact\s*\)", ax) and re.search(r"check_all_metadata\s*\(\s*\*this\s*,\s*post\s*\)", ax),
         "journal.cc add_xact: check_all_metadata(*this, xact / post) not found")
    need(ax.find("finalize") < ax.find("check_all_metadata"), "journal.cc add_xact: metadata is no longer checked after finalize")
    pl = strip_comments(src("pool.cc"))
    pp = function_body(pl, r"commodity_pool_t::parse_price_directive\s*\([^{;]*\)\s*\{")
    need(re.search(r"commodity->add_flags\s*\(\s*COMMODITY_KNOWN\s*\)", pp), "pool.cc parse_price_directive: COMMODITY_KNOWN no longer set by a P line")
    n_lot = len(re.findall(r"register_commodity\s*\([^;]*annotation\(\)[^;]*price", t))
    return dict(cost_commodity_checked=n_cost > 0, lot_commodity_checked=n_lot > 0)

SESSION_FNS = [
    ("session.cc:read_journal_files", r"journal_t\s*\*\s*session_t::read_journal_files\s*\(\s*\)\s*\{"),
]
ERROR_FNS = [
    ("error.cc:error_context", r"string\s+error_context\s*\(\s*\)\s*\{"),
    ("error.cc:file_context", r"string\s+file_context\s*\([^)]*\)\s*\{"),
]


def gen_error_fns():
    """Normalised bodies of the routines Model/Errors.lean mirrors.  The two places that are
    *interpreted* instead (main.cc's error_count handler -> Gen.exitStatusShape, session.cc
    read_data's per-file loop -> Gen.stopAfterFaultyFile) are left out / replaced by a
    placeholder, so that repairing them does not need a re-pin."""
    pairs = pin_functions("textual.cc", TEXTUAL_FNS) + pin_functions("global.cc", GLOBAL_FNS) + \
        pin_functions("journal.cc", JOURNAL_FNS) + pin_functions("session.cc", SESSION_FNS) + \
        pin_functions("error.cc", ERROR_FNS)
    for fname, sigs in KNOWN_FNS.items():
        pairs += pin_functions(fname, sigs)
    known_flag_sites()
    ch = strip_comments(src("context.h"))
    pairs.append(("context.h:parse_context_t::location", norm_ws(function_body(ch, r"string\s+location\s*\(\s*\)\s*const\s*\{"))))
    eh = strip_comments(src("error.h"))
    pairs.append(("error.h:error_count", norm_ws(function_body(eh, r"struct\s+error_count\s*\{"))))
    # session.cc: option -> checking_style
    se = strip_comments(src("session.cc"))
    m = re.search(r"if\s*\(\s*HANDLED\(check_payees\)\s*\).*?journal->checking_style\s*=\s*journal_t::CHECK_WARNING\s*;", se, flags=re.S)
    need(m, "session.cc: option -> checking_style block not found")
    pairs.append(("session.cc:read_data:checking_style", norm_ws(m.group(0))))
    # main.cc: main() with the body of the error_count handler replaced
    mn = strip_comments(src("main.cc"))
    i = re.search(r"\bint\s+main\s*\(", mn)
    need(i, "main.cc: main() not found")
    body = mn[i.start():]
    h = re.search(r"catch\s*\(\s*const\s+error_count\s*&\s*\w+\s*\)\s*\{", body)
    need(h, "main.cc: error_count handler not found")
    inner = function_body(body[h.start():], r"catch\s*\(\s*const\s+error_count\s*&\s*\w+\s*\)\s*\{")
    body = body[:h.end()] + " <Gen.exitStatusShape> " + body[h.end() + len(inner):]
    pairs.append(("main.cc:main", norm_ws(body)))
    return gen_pairs("Normalised bodies of the loader / error-reporting / exit-status routines that Model/Errors.lean mirrors.",
                     "errorFns", pairs,
                     "src/textual.cc, global.cc, journal.cc, session.cc, error.cc, error.h, context.h, main.cc")


MORE = {"ExitStatus": gen_exit_status, "ErrorFns": gen_error_fns}
