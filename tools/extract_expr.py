"""Translator part of C15: the expression grammar as the code has it.

Gen/Ladder.lean          one row per parse_* function of parser.cc (38-549), in
                         source order: which function parses its left operand,
                         whether it loops (left associativity) or accepts its
                         operator once, which token kinds it accepts and what
                         op kind each builds (and whether the result is wrapped
                         in O_NOT), and which function parses the operands that
                         follow the operator.
Gen/TokenSpellings.lean  spellings from token.cc: reserved words of
                         parse_reserved_word (with the length of its buffer),
                         the one- and two-character symbols of token_t::next,
                         and which character is context dependent ('/').

Every shape is asserted; anything unexpected raises extract.ExtractError.
"""
import re
import extract
from extract import src, strip_comments, function_body, need, lean_str, lean_list, ExtractError, pin_functions, gen_pairs, norm_ws

FUNCS = ["parse_value_term", "parse_call_expr", "parse_dot_expr", "parse_unary_expr", "parse_mul_expr",
         "parse_add_expr", "parse_logic_expr", "parse_and_expr", "parse_or_expr", "parse_querycolon_expr",
         "parse_comma_expr", "parse_lambda_expr", "parse_assign_expr", "parse_value_expr"]


def parser_functions():
    text = strip_comments(src("parser.cc"))
    names = re.findall(r"expr_t::parser_t::(parse_\w+)\s*\(std::istream&\s+in,\s*const parse_flags_t&\s+tflags\)\s*const", text)
    need(names == FUNCS, "parser.cc: the parse_* functions are %s, expected %s" % (names, FUNCS))
    bodies = {}
    for n in names:
        bodies[n] = function_body(text, r"expr_t::parser_t::" + n + r"\s*\(std::istream&\s+in,\s*const parse_flags_t&\s+tflags\)\s*const\s*\{")
    return names, bodies


def norm(s):
    return re.sub(r"\s+", " ", s).strip()


def ladder_rows():
    """-> list of dict(name, shape, first, loop, ops=[(token, op, negate)], operand)"""
    names, bodies = parser_functions()
    rows = []
    for n in names:
        b = norm(bodies[n])
        row = dict(name=n, shape=None, first="", loop="while (true)" in b, ops=[], operand="")
        m = re.match(r"ptr_op_t node\((parse_\w+)\(in, tflags\)\);", b)
        if m:
            row["first"] = m.group(1)
        guarded = "if (node && ! tflags.has_flags(PARSE_SINGLE))" in b
        rights = re.findall(r"set_right\((parse_\w+)\(in, (?:tflags|_flags)(?:\.plus_flags\(PARSE_SINGLE\))?\)\)", b)
        lefts_in_scope = re.findall(r"(?:scope|chain)->set_left\((parse_\w+)\(in, tflags\)\)", b)
        toks = re.findall(r"token_t::([A-Z_]+)", b)
        opk = re.findall(r"op_t::([A-Z_]+)", b)
        if n == "parse_value_term":
            need(re.search(r"case token_t::VALUE: node = new op_t\(op_t::VALUE\);", b) and
                 re.search(r"case token_t::IDENT: \{ string ident = tok\.value\.as_string\(\); node = new op_t\(op_t::IDENT\);", b) and
                 re.search(r"case token_t::LPAREN: node = parse_value_expr\(in, tflags\.plus_flags\(PARSE_PARTIAL\) \.minus_flags\(PARSE_SINGLE\)\); "
                           r"tok = next_token\(in, tflags, token_t::RPAREN\); break; default: push_token\(tok\); break;", b),
                 "parse_value_term: unexpected shape")
            need(toks == ["VALUE", "IDENT", "LPAREN", "RPAREN"], "parse_value_term: tokens %s" % toks)
            row.update(shape="term", ops=[("VALUE", "VALUE", False), ("IDENT", "IDENT", False), ("LPAREN", "", False)],
                       operand="parse_value_expr")
        elif n == "parse_call_expr":
            need(row["first"] and guarded and row["loop"] and toks == ["LPAREN"] and opk == ["O_CALL"] and
                 "push_token(tok); node->set_right(parse_value_expr(in, tflags.plus_flags(PARSE_SINGLE)));" in b,
                 "parse_call_expr: unexpected shape")
            row.update(shape="call", ops=[("LPAREN", "O_CALL", False)], operand="parse_value_expr")
        elif n == "parse_unary_expr":
            cases = re.findall(r"case token_t::([A-Z_]+): \{ ptr_op_t term\((parse_\w+)\(in, tflags\)\); if \(! term\) throw_\(parse_error, "
                               r"_f\(\"%1% operator not followed by argument\"\) % tok\.symbol\); if \(term->kind == op_t::VALUE\) \{ "
                               r"term->as_value_lval\(\)\.(in_place_\w+)\(\); node = term; \} else \{ node = new op_t\(op_t::([A-Z_]+)\); "
                               r"node->set_left\(term\); \} break; \}", b)
            need(len(cases) == 2 and len(set(c[1] for c in cases)) == 1, "parse_unary_expr: prefix cases not recognised")
            m = re.search(r"default: push_token\(tok\); node = (parse_\w+)\(in, tflags\); break;", b)
            need(m and m.group(1) == cases[0][1], "parse_unary_expr: default case not recognised")
            inplace = {"O_NOT": "in_place_not", "O_NEG": "in_place_negate"}
            for tk, callee, ip, op in cases:
                need(inplace.get(op) == ip, "parse_unary_expr: %s folds literals with %s" % (op, ip))
            need(toks == [c[0] for c in cases], "parse_unary_expr: tokens %s" % toks)
            row.update(shape="prefix", first=m.group(1), ops=[(c[0], c[3], False) for c in cases], operand=cases[0][1])
        elif n == "parse_querycolon_expr":
            need(row["first"] and guarded and not row["loop"], "parse_querycolon_expr: unexpected shape")
            need(toks == ["QUERY", "COLON", "KW_IF", "KW_ELSE"], "parse_querycolon_expr: tokens %s" % toks)
            callees = re.findall(r"(parse_\w+)\(in, tflags\)", b)
            need(len(callees) == 5 and len(set(callees)) == 1, "parse_querycolon_expr: operands %s" % callees)
            need("next_token(in, tflags.plus_flags(PARSE_OP_CONTEXT), token_t::COLON);" in b and
                 re.search(r"if \(tok\.kind == token_t::QUERY\) \{ ptr_op_t prev\(node\); node = new op_t\(op_t::O_QUERY\); node->set_left\(prev\);", b) and
                 re.search(r"ptr_op_t subnode = new op_t\(op_t::O_COLON\); subnode->set_left\(prev\); subnode->set_right\(parse_\w+\(in, tflags\)\);", b) and
                 re.search(r"else if \(tok\.kind == token_t::KW_IF\) \{ ptr_op_t if_op\(parse_\w+\(in, tflags\)\);", b) and
                 re.search(r"if \(tok\.kind == token_t::KW_ELSE\) \{ ptr_op_t else_op\(parse_\w+\(in, tflags\)\);", b) and
                 re.search(r"subnode->set_left\(node\); subnode->set_right\(else_op\); node = new op_t\(op_t::O_QUERY\); node->set_left\(if_op\); node->set_right\(subnode\);", b) and
                 re.search(r"null_node->set_value\(NULL_VALUE\); ptr_op_t subnode = new op_t\(op_t::O_COLON\); subnode->set_left\(node\); subnode->set_right\(null_node\);", b),
                 "parse_querycolon_expr: conditional construction not recognised")
            row.update(shape="ternary", ops=[("QUERY", "O_QUERY", False), ("COLON", "O_COLON", False),
                                             ("KW_IF", "O_QUERY", False), ("KW_ELSE", "O_COLON", False)], operand=callees[0])
        elif n == "parse_comma_expr":
            need(row["first"] and guarded and row["loop"] and toks == ["COMMA", "RPAREN"] and set(opk) == {"O_CONS"} and
                 len(lefts_in_scope) == 1 and "if (ntok.kind == token_t::RPAREN) break;" in b, "parse_comma_expr: unexpected shape")
            row.update(shape="list", ops=[("COMMA", "O_CONS", False)], operand=lefts_in_scope[0])
        elif n in ("parse_lambda_expr", "parse_assign_expr"):
            need(row["first"] and guarded and not row["loop"] and len(toks) == 1 and len(opk) == 2 and opk[1] == "SCOPE" and
                 len(lefts_in_scope) == 1 and "node->set_left(prev); ptr_op_t scope(new op_t(op_t::SCOPE));" in b and
                 "node->set_right(scope);" in b, n + ": unexpected shape")
            row.update(shape="once-scope", ops=[(toks[0], opk[0], False)], operand=lefts_in_scope[0])
        elif n == "parse_value_expr":
            need(row["first"] and guarded and row["loop"] and toks == ["SEMI"] and set(opk) == {"O_SEQ"} and
                 rights == ["parse_assign_expr"] and "seq->set_left(chain->right()); chain->set_right(seq);" in b,
                 "parse_value_expr: unexpected shape")
            row.update(shape="seq", ops=[("SEMI", "O_SEQ", False)], operand=rights[0])
        else:
            # binary operator levels: left-associative loop, left operand = previous node
            need(row["first"] and guarded and row["loop"] and len(set(rights)) == 1 and
                 "ptr_op_t prev(node);" in b and "node->set_left(prev);" in b and
                 "operator not followed by argument" in b and "push_token(tok);" in b,
                 n + ": not a left-associative binary operator loop")
            ops = []
            sw = re.search(r"switch \(tok\.kind\) \{(.*?)default: push_token\(tok\); goto exit_loop; \}", b)
            if sw:
                need("if (negate) { prev = node; node = new op_t(op_t::O_NOT); node->set_left(prev); }" in b and
                     "node = new op_t(kind);" in b, n + ": negate wrapper not recognised")
                for tk, body in re.findall(r"case token_t::([A-Z_]+): (.*?) break;", sw.group(1)):
                    m = re.search(r"kind = op_t::([A-Z_]+);( negate = true;)?$", body)
                    need(m, "%s: case %s not recognised: %s" % (n, tk, body))
                    if tk == "EQUAL":
                        need(body in ("if (tflags.has_flags(PARSE_NO_ASSIGN)) tok.rewind(in); else kind = op_t::O_EQ;",
                                      "if (tflags.has_flags(PARSE_NO_ASSIGN)) { tok.rewind(in); goto exit_loop; } kind = op_t::O_EQ;"),
                             n + ": EQUAL case changed")
                    else:
                        need(body == m.group(0), "%s: case %s has extra statements: %s" % (n, tk, body))
                    ops.append((tk, m.group(1), bool(m.group(2))))
                need([o[0] for o in ops] == toks, "%s: tokens %s vs cases %s" % (n, toks, ops))
            else:
                cond = re.search(r"if \(((?:tok\.kind == token_t::[A-Z_]+(?: \|\| )?)+)\) \{ ptr_op_t prev\(node\); node = new op_t\((.*?)\); node->set_left\(prev\);", b)
                need(cond, n + ": operator test not recognised")
                accepted = re.findall(r"token_t::([A-Z_]+)", cond.group(1))
                mk = cond.group(2)
                m1 = re.fullmatch(r"op_t::([A-Z_]+)", mk)
                m2 = re.fullmatch(r"tok\.kind == token_t::([A-Z_]+) \? op_t::([A-Z_]+) : op_t::([A-Z_]+)", mk)
                if m1:
                    need(len(accepted) == 1, n + ": several tokens but one op kind")
                    ops = [(accepted[0], m1.group(1), False)]
                elif m2:
                    need(m2.group(1) == accepted[0], n + ": ternary tests %s, first accepted token is %s" % (m2.group(1), accepted[0]))
                    ops = [(accepted[0], m2.group(2), False)] + [(t, m2.group(3), False) for t in accepted[1:]]
                else:
                    raise ExtractError(n + ": op construction not recognised: " + mk)
            row.update(shape="binloop" if n != "parse_dot_expr" else "binloop-lookup", ops=ops, operand=rights[0])
        need(row["shape"], n + ": no shape")
        rows.append(row)
    # linkage: every function is reached from parse_value_expr through `first`, operands name known functions
    for r in rows:
        need(r["first"] == "" or r["first"] in names, "%s: unknown callee %s" % (r["name"], r["first"]))
        need(r["operand"] in names, "%s: unknown operand parser %s" % (r["name"], r["operand"]))
    return rows


def gen_ladder():
    rows = ladder_rows()
    out = ["/- GENERATED by tools/extract_expr.py from src/parser.cc - do not edit. -/",
           "namespace Ledger.Gen", "",
           "/-- One row per `parse_*` function of parser.cc, in source order:",
           "    (function, shape, function parsing the left operand, loops?,",
           "     [(token kind accepted, op kind built, wrapped in O_NOT?)], function parsing the operands after the operator). -/",
           "def ladder : List (String × String × String × Bool × List (String × String × Bool) × String) := ["]
    items = []
    for r in rows:
        ops = lean_list(["(%s, %s, %s)" % (lean_str(t), lean_str(o), "true" if ng else "false") for t, o, ng in r["ops"]])
        items.append("  (%s, %s, %s, %s, %s, %s)" % (lean_str(r["name"]), lean_str(r["shape"]), lean_str(r["first"]),
                                                    "true" if r["loop"] else "false", ops, lean_str(r["operand"])))
    out.append(",\n".join(items))
    out += ["]", "", "end Ledger.Gen"]
    return "\n".join(out) + "\n"


# ---------------------------------------------------------------------------
# token.cc


def char_cases(body):
    """split `switch (c) { case 'x': ... }` into [(chars, text)] at depth 0."""
    marks = []
    depth = 0
    i = 0
    n = len(body)
    while i < n:
        ch = body[i]
        if ch == "'":
            j = i + 1
            while body[j] != "'":
                if body[j] == "\\":
                    j += 1
                j += 1
            i = j + 1
            continue
        if ch == '"':
            j = i + 1
            while body[j] != '"':
                if body[j] == "\\":
                    j += 1
                j += 1
            i = j + 1
            continue
        if ch == "{":
            depth += 1
        elif ch == "}":
            depth -= 1
        elif depth == 0:
            m = re.match(r"case\s+'(\\?.)'\s*:", body[i:])
            if m and (i == 0 or not body[i - 1].isalnum()):
                marks.append((m.group(1)[-1], i, i + m.end()))
                i += m.end()
                continue
            m = re.match(r"default\s*:", body[i:])
            if m and (i == 0 or not body[i - 1].isalnum()):
                marks.append(("default", i, i + m.end()))
                i += m.end()
                continue
        i += 1
    res = []
    for k, (c, s, e) in enumerate(marks):
        end = marks[k + 1][1] if k + 1 < len(marks) else n
        res.append((c, body[e:end]))
    return res


def token_spellings():
    text = strip_comments(src("token.cc"))
    # reserved words
    rw = function_body(text, r"int\s+expr_t::token_t::parse_reserved_word\(std::istream&\s+in\)\s*\{")
    nrw = norm(rw)
    m = re.search(r"if \(((?:c == '[a-z]'(?: \|\| )?)+)\) \{ length = 0; char buf\[(\d+)\]; READ_INTO_\(in, buf, (\d+), c, length, std::isalpha\(c\)\);", nrw)
    need(m, "parse_reserved_word: prologue not recognised")
    firsts = re.findall(r"'([a-z])'", m.group(1))
    need(int(m.group(2)) == int(m.group(3)) + 1, "parse_reserved_word: buffer %s vs limit %s" % (m.group(2), m.group(3)))
    wmax = int(m.group(3))
    words = []
    for w, blk in re.findall(r'if \(std::strcmp\(buf, "([a-z]+)"\) == 0\) \{(.*?)return 1; \}', nrw):
        k = re.search(r"kind = ([A-Z_]+);", blk)
        need(k, "parse_reserved_word: no kind for " + w)
        val = ""
        if k.group(1) == "VALUE":
            v = re.search(r"value = (true|false);", blk)
            need(v, "parse_reserved_word: VALUE word %s without a boolean" % w)
            val = v.group(1)
        words.append((w, k.group(1), val))
    need(sorted(set(w[0][0] for w in words)) == sorted(firsts), "parse_reserved_word: first letters %s vs words %s" % (firsts, words))
    need(all(len(w[0]) <= wmax for w in words), "parse_reserved_word: a word is longer than the buffer")
    # identifiers
    pi = norm(function_body(text, r"void\s+expr_t::token_t::parse_ident\(std::istream&\s+in\)\s*\{"))
    need("READ_INTO_(in, buf, 255, c, length, std::isalpha(c) || c == '_');" in pi, "parse_ident: character class changed")
    # symbols
    nx = function_body(text, r"void\s+expr_t::token_t::next\(std::istream&\s+in,\s*const parse_flags_t&\s+pflags\)\s*\{")
    sw = function_body(nx, r"switch\s*\(c\)\s*\{")
    syms = []
    context = []
    special = []
    pending = []
    for c, body in char_cases(sw):
        b = norm(body)
        if b == "":
            pending.append(c)
            continue
        chars = pending + [c]
        pending = []
        if c == "default":
            need("int result = parse_reserved_word(in); if (std::isalpha(c) && result == 1) break;" in b and
                 "temp.parse(in, parse_flags.plus_flags(PARSE_SOFT_FAIL))" in b and "parse_ident(in);" in b,
                 "token_t::next default case changed")
            continue
        if c in ("[", "'", '"', "{"):
            special.append("".join(chars))
            continue
        need(len(chars) == 1, "token_t::next: shared case %s" % chars)
        if c == "/":
            need(re.fullmatch(r"\{ in\.get\(\); if \(pflags\.has_flags\(PARSE_OP_CONTEXT\)\) \{ kind = SLASH; \} else \{ .*kind = VALUE; value\.set_mask\(buf\); \} break; \}", b),
                 "token_t::next: '/' case changed")
            syms.append(("/", "SLASH"))
            context.append("/")
            continue
        need(b.startswith("in.get();") and b.endswith("break;"), "token_t::next: case %r not recognised: %s" % (c, b))
        rest = b[len("in.get();"):].strip()
        two = []
        # two-character forms: `if (c == 'x') {... kind = K; ... break; }` or `if (in.peek() == 'x') {...}`
        for m in re.finditer(r"(?:else )?if \((?:c|in\.peek\(\)) == '(.)'\) \{(.*?)break; \}", rest):
            k = re.search(r"kind = ([A-Z_]+);", m.group(2))
            need(k and "length = 2;" in m.group(2), "token_t::next: two-character form of %r not recognised" % c)
            two.append((c + m.group(1), k.group(1)))
        tail = re.sub(r"(?:else )?if \((?:c|in\.peek\(\)) == '.'\) \{.*?break; \}", "", rest).strip()
        tail = re.sub(r"^c = in\.peek\(\);", "", tail).strip()
        m = re.fullmatch(r"kind = ([A-Z_]+); break;", tail)
        need(m, "token_t::next: single-character form of %r not recognised: %s" % (c, tail))
        syms.append((c, m.group(1)))
        syms += two
    need(sorted(special) == sorted(["[", "'\"", "{"]) or sorted(special) == sorted(["[", "\"'", "{"]),
         "token_t::next: literal-introducing characters are %s" % special)
    need(context == ["/"], "token_t::next: context-dependent characters %s" % context)
    return dict(words=words, wmax=wmax, syms=syms, context=context)


def gen_token_spellings():
    t = token_spellings()
    out = ["/- GENERATED by tools/extract_expr.py from src/token.cc - do not edit. -/",
           "namespace Ledger.Gen", "",
           "/-- token.cc `parse_reserved_word`: (word, token kind, boolean literal or \"\"). -/",
           "def reservedWords : List (String × String × String) := " +
           lean_list(["(%s, %s, %s)" % (lean_str(w), lean_str(k), lean_str(v)) for w, k, v in t["words"]]), "",
           "/-- `parse_reserved_word` reads at most this many letters before comparing. -/",
           "def reservedWordMax : Nat := %d" % t["wmax"], "",
           "/-- token.cc `token_t::next`: spellings of the one- and two-character symbols. -/",
           "def symbolSpellings : List (String × String) := " +
           lean_list(["(%s, %s)" % (lean_str(s), lean_str(k)) for s, k in t["syms"]]), "",
           "/-- characters that are an operator only with PARSE_OP_CONTEXT (otherwise they open a literal). -/",
           "def contextSymbols : List String := " + lean_list([lean_str(c) for c in t["context"]]), "",
           "end Ledger.Gen"]
    return "\n".join(out) + "\n"


# ---------------------------------------------------------------------------
# pinned bodies of the functions Model/Expr.lean mirrors

PSIG = r"\(std::istream&\s+in,\s*const parse_flags_t&\s+tflags\)\s*const\s*\{"
PARSER_FNS = [("parser.cc:" + n, r"expr_t::parser_t::" + n + PSIG) for n in FUNCS] + [
    ("parser.cc:parse", r"expr_t::parser_t::parse\(std::istream&\s+in,\s*const parse_flags_t&\s+flags,\s*const optional<string>&\s+original_string\)\s*\{")]
TOKEN_FNS = [
    ("token.cc:parse_reserved_word", r"int\s+expr_t::token_t::parse_reserved_word\(std::istream&\s+in\)\s*\{"),
    ("token.cc:parse_ident", r"void\s+expr_t::token_t::parse_ident\(std::istream&\s+in\)\s*\{"),
    ("token.cc:next", r"void\s+expr_t::token_t::next\(std::istream&\s+in,\s*const parse_flags_t&\s+pflags\)\s*\{"),
]
OP_FNS = [
    ("op.cc:split_cons_expr", r"value_t\s+split_cons_expr\(expr_t::ptr_op_t op\)\s*\{"),
    ("op.cc:compile", r"expr_t::ptr_op_t\s+expr_t::op_t::compile\(scope_t& scope, const int depth,\s*scope_t \* param_scope\)\s*\{"),
    ("op.cc:lookup_ident", r"expr_t::ptr_op_t\s+lookup_ident\(expr_t::ptr_op_t op, scope_t& scope\)\s*\{"),
    ("op.cc:calc", r"value_t\s+expr_t::op_t::calc\(scope_t& scope, ptr_op_t \* locus, const int depth\)\s*\{"),
    ("op.cc:find_definition", r"expr_t::ptr_op_t\s+find_definition\(expr_t::ptr_op_t op, scope_t& scope,\s*expr_t::ptr_op_t \* locus, const int depth,\s*int recursion_depth = 0\)\s*\{"),
    ("op.cc:call_lambda", r"value_t\s+call_lambda\(expr_t::ptr_op_t func, scope_t& scope,\s*call_scope_t& call_args, expr_t::ptr_op_t \* locus,\s*const int depth\)\s*\{"),
    ("op.cc:calc_call", r"value_t\s+expr_t::op_t::calc_call\(scope_t& scope, ptr_op_t \* locus,\s*const int depth\)\s*\{"),
    ("op.cc:calc_cons", r"value_t\s+expr_t::op_t::calc_cons\(scope_t& scope, ptr_op_t \* locus,\s*const int depth\)\s*\{"),
    ("op.cc:calc_seq", r"value_t\s+expr_t::op_t::calc_seq\(scope_t& scope, ptr_op_t \* locus,\s*const int depth\)\s*\{"),
    ("op.cc:print_cons", r"bool\s+print_cons\(std::ostream& out, const expr_t::const_ptr_op_t op,\s*const expr_t::op_t::context_t& context\)\s*\{"),
    ("op.cc:print_seq", r"bool\s+print_seq\(std::ostream& out, const expr_t::const_ptr_op_t op,\s*const expr_t::op_t::context_t& context\)\s*\{"),
    ("op.cc:print", r"bool\s+expr_t::op_t::print\(std::ostream& out, const context_t& context\) const\s*\{"),
]
VALUE_FNS = [
    ("value.cc:operator bool", r"value_t::operator bool\(\) const\s*\{"),
    ("value.cc:in_place_not", r"void\s+value_t::in_place_not\(\)\s*\{"),
    ("value.cc:dump", r"void\s+value_t::dump\(std::ostream& out, const bool relaxed\) const\s*\{"),
]
SCOPE_FNS = [
    ("scope.cc:symbol_scope_t::define", r"void\s+symbol_scope_t::define\(const symbol_t::kind_t kind,\s*const string& name, expr_t::ptr_op_t def\)\s*\{"),
    ("scope.cc:symbol_scope_t::lookup", r"expr_t::ptr_op_t\s+symbol_scope_t::lookup\(const symbol_t::kind_t kind,\s*const string& name\)\s*\{"),
]


PAREN_TEST = r"if \(kind > TERMINALS && \(([^()]*)\)\) out << '([()])';"
PAREN_PLACEHOLDER = "if (<which operator nodes print parentheses: Gen.printParenthesisesColon>) out << '%s';"


def print_paren_tests():
    """the two tests of op_t::print (op.cc 669-670, 860-861) that decide which nodes are wrapped in parentheses:
    -> (does an O_COLON node get parentheses of its own?, body text with the two tests replaced by a placeholder)"""
    body = dict(pin_functions("op.cc", [("op.cc:print", dict(OP_FNS)["op.cc:print"])]))["op.cc:print"]
    found = re.findall(PAREN_TEST, body)
    need(len(found) == 2 and [f[1] for f in found] == ["(", ")"], "op_t::print: the two parenthesis tests were not found: %s" % found)
    need(found[0][0] == found[1][0], "op_t::print: opening and closing parenthesis tests differ: %s" % found)
    excl = sorted(x.strip() for x in found[0][0].split("&&"))
    if excl == ["kind != O_CALL", "kind != O_DEFINE"]:
        colon = True
    elif excl == ["kind != O_CALL", "kind != O_COLON", "kind != O_DEFINE"]:
        colon = False
    else:
        raise ExtractError("op_t::print: parenthesis test not recognised: " + found[0][0])
    masked = re.sub(PAREN_TEST, lambda m: PAREN_PLACEHOLDER % m.group(2), body)
    return colon, masked


def gen_expr_flags():
    colon, _ = print_paren_tests()
    out = ["/- GENERATED by tools/extract_expr.py from src/op.cc - do not edit. -/",
           "namespace Ledger.Gen", "",
           "/-- op.cc op_t::print, `if (kind > TERMINALS && (kind != O_CALL && kind != O_DEFINE ...))`: does the O_COLON node of a",
           "    conditional get parentheses of its own (`(a ? (b : c))`, which the parser rejects)? -/",
           "def printParenthesisesColon : Bool := %s" % ("true" if colon else "false"), "",
           "end Ledger.Gen"]
    return "\n".join(out) + "\n"


def gen_expr_fns():
    pairs = pin_functions("parser.cc", PARSER_FNS) + pin_functions("token.cc", TOKEN_FNS) + pin_functions("op.cc", OP_FNS) + \
        pin_functions("value.cc", VALUE_FNS) + pin_functions("scope.cc", SCOPE_FNS)
    # the two parenthesis tests of op_t::print are interpreted (Gen.printParenthesisesColon), not pinned
    _, masked = print_paren_tests()
    pairs = [(k, masked if k == "op.cc:print" else v) for k, v in pairs]
    # op.h: the order of op_t::kind_t decides which nodes print parentheses and which operands compile (`kind > TERMINALS`, `> UNARY_OPERATORS`)
    oh = strip_comments(src("op.h"))
    m = re.search(r"enum kind_t \{(.*?)\};", oh, flags=re.S)
    need(m, "op.h: enum kind_t not found")
    pairs.append(("op.h:kind_t", norm_ws(m.group(1))))
    sh = strip_comments(src("scope.h"))
    m = re.search(r"class bind_scope_t : public child_scope_t\s*\{(.*?)\n\};", sh, flags=re.S)
    need(m, "scope.h: bind_scope_t not found")
    pairs.append(("scope.h:bind_scope_t", norm_ws(m.group(1))))
    return gen_pairs("Normalised bodies of the parser.cc / token.cc / op.cc / value.cc / scope routines that Model/Expr.lean mirrors.",
                     "exprFns", pairs, "src/parser.cc, src/token.cc, src/op.cc, src/op.h, src/value.cc, src/scope.cc, src/scope.h")


MORE = {"Ladder": gen_ladder, "TokenSpellings": gen_token_spellings, "ExprFns": gen_expr_fns, "ExprFlags": gen_expr_flags}

if __name__ == "__main__":
    print(gen_ladder())
    print(gen_token_spellings())
