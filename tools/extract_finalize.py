"""Translator part for C01/C02: pins the shape of `xact_base_t::finalize` and of
the few functions around it that Model/Finalize.lean mirrors.

`Gen/Finalize.lean` gets `Gen.finalizeShape : List (String × String)` — the
normalised text (comments, DEBUG(...) statements and redundant white space
removed) of every statement the model was written against.  The theorem
`C01.finalize_shape_pinned : Gen.finalizeShape = Fin.pinnedShape := rfl`
compares it with the pinned copy, so replacing `is_zero` by `is_realzero`,
dropping the `must_balance()` filter, summing `post->amount` instead of the
cost, changing the sort of the residual's commodities, the bucket condition,
the error texts, … breaks a Lean obligation of C01 (and of C02, which imports
the same files).  Each entry is located by an anchored search and the
extractor fails loudly when an anchor is gone.
"""
import re
import extract
from extract import src, strip_comments, function_body, need, lean_str, norm_ws


def _clean(text):
    """comments out, DEBUG(...) statements and #if DEBUG_ON blocks out, white space normalised."""
    t = strip_comments(text)
    t = re.sub(r"#if\s+DEBUG_ON.*?#endif", "", t, flags=re.S)
    # drop `#if 0 ... #else` keeping the #else branch
    t = re.sub(r"#if\s+0.*?#else(.*?)#endif", r"\1", t, flags=re.S)
    out = []
    i = 0
    while True:
        m = re.search(r"\bDEBUG\s*\(", t[i:])
        if not m:
            out.append(t[i:])
            break
        out.append(t[i:i + m.start()])
        j = i + m.end()
        depth = 1
        while depth and j < len(t):
            ch = t[j]
            if ch == '"':
                j += 1
                while t[j] != '"':
                    if t[j] == "\\":
                        j += 1
                    j += 1
            elif ch == "(":
                depth += 1
            elif ch == ")":
                depth -= 1
            j += 1
        while j < len(t) and t[j] in " \t\n":
            j += 1
        need(j < len(t) and t[j] == ";", "DEBUG(...) not followed by ';'")
        i = j + 1
    return norm_ws("".join(out))


def _block_from(text, start_re, what):
    """the statement starting at start_re up to the end of its brace-balanced block"""
    m = re.search(start_re, text)
    need(m, "anchor not found: " + what)
    i = text.index("{", m.start())
    depth = 0
    j = i
    while j < len(text):
        ch = text[j]
        if ch == '"':
            j += 1
            while text[j] != '"':
                if text[j] == "\\":
                    j += 1
                j += 1
        elif ch == "{":
            depth += 1
        elif ch == "}":
            depth -= 1
            if depth == 0:
                return text[m.start():j + 1]
        j += 1
    raise extract.ExtractError("unbalanced block: " + what)


def _stmt_from(text, start_re, what):
    """the statement starting at start_re up to the next ';' at string level"""
    m = re.search(start_re, text)
    need(m, "anchor not found: " + what)
    j = m.start()
    while j < len(text):
        ch = text[j]
        if ch == '"':
            j += 1
            while text[j] != '"':
                if text[j] == "\\":
                    j += 1
                j += 1
        elif ch == ";":
            return text[m.start():j + 1]
        j += 1
    raise extract.ExtractError("unterminated statement: " + what)


def shape():
    out = []
    xact = src("xact.cc")
    fin = _clean(function_body(strip_comments(xact), r"bool\s+xact_base_t::finalize\(\)\s*\{"))
    post_h = strip_comments(src("post.h"))
    out.append(("post.h:must_balance", _clean(function_body(post_h, r"bool\s+must_balance\(\)\s*const\s*\{"))))

    # first loop
    loop1 = _block_from(fin, r"foreach \(post_t \* post, posts\) \{ if \(! post->must_balance\(\)\) continue;", "finalize: first loop")
    need(fin.index(loop1) < fin.index("journal->bucket"), "finalize: accumulation loop must come before the bucket")
    out.append(("finalize:filter", _stmt_from(loop1, r"if \(! post->must_balance\(\)\)", "filter")))
    out.append(("finalize:cost-or-amount", _stmt_from(loop1, r"amount_t& p\(", "cost-or-amount")))
    out.append(("finalize:accumulate", _block_from(loop1, r"if \(! p\.is_null\(\)\) \{", "accumulate")))
    rest = loop1[loop1.index("if (! p.is_null())"):]
    m = re.search(r"else if \(null_post\) \{", rest)
    need(m, "finalize: second-null branch")
    tail = rest[m.start():]
    need(tail.rstrip().endswith("}"), "finalize: loop tail")
    out.append(("finalize:second-null", tail[:-1].strip()))        # up to (excluding) the brace closing the loop

    out.append(("finalize:bucket", _block_from(fin, r"if \(journal && journal->bucket", "bucket")))
    m = re.search(r"if \(! null_post && balance\.is_balance\(\)[^{]*\{", fin)
    need(m, "finalize: two-commodity guard")
    out.append(("finalize:two-commodity-guard", m.group(0)))
    two = _block_from(fin, r"if \(! null_post && balance\.is_balance\(\)", "two-commodity block")
    out.append(("finalize:top-post", _block_from(two, r"foreach \(post_t \* post, posts\) \{ if \(! post->amount\.is_null\(\) && post->must_balance\(\)\)", "top-post loop")))
    out.append(("finalize:exchange", _block_from(two, r"if \(! saw_cost && top_post\) \{", "exchange")))
    need(fin.index(two) < fin.index("posts_list copy(posts);") < fin.index("if (null_post != NULL)"),
         "finalize: order of exchange / cost loop / fill changed")
    out.append(("finalize:cost-commodity", _stmt_from(fin, r"if \(post->amount\.commodity\(\) == post->cost->commodity\(\)\)", "cost commodity")))
    fill = _block_from(fin, r"if \(null_post != NULL\) \{", "fill")
    out.append(("finalize:fill", fill))
    after_fill = fin[fin.index(fill) + len(fill):]
    zt = _block_from(after_fill, r"if \(! balance\.is_null\(\) && ", "zero test")
    need(after_fill.index(zt) < 40, "finalize: the zero test no longer follows the null-post block directly")
    out.append(("finalize:zero-test", zt))
    m = re.search(r"if \(all_null\) return false; else if \(some_null\) throw_\([^;]*;", fin)
    need(m, "finalize: all_null / some_null")
    out.append(("finalize:nulls-after", m.group(0)))

    xs = _clean(strip_comments(xact))
    abp = _block_from(xs, r"void operator\(\)\(const amount_t& amount\) \{", "add_balancing_post::operator()")
    out.append(("add_balancing_post", abp[abp.index("{") + 1:-1].strip()))

    bal = strip_comments(src("balance.cc"))
    out.append(("balance.cc:sorted_amounts", _clean(function_body(bal, r"void\s+balance_t::sorted_amounts\(amounts_array& sorted\)\s*const\s*\{"))))
    out.append(("balance.cc:map_sorted_amounts", _clean(function_body(bal, r"void\s+balance_t::map_sorted_amounts\(function<void\(const amount_t&\)> fn\)\s*const\s*\{"))))
    comm = _clean(function_body(strip_comments(src("commodity.cc")), r"int\s+commodity_t::compare_by_commodity::operator\(\)\(const amount_t \* left,\s*const amount_t \* right\)\s*const\s*\{"))
    m = re.search(r"int cmp = leftcomm\.base_symbol\(\)\.compare\(rightcomm\.base_symbol\(\)\); if \(cmp != 0\) \{ return cmp; \}", comm)
    need(m, "commodity.cc: compare_by_commodity no longer starts by comparing base symbols")
    need(comm.index(m.group(0)) < comm.index("has_annotation"), "commodity.cc: symbol comparison must come first")
    out.append(("commodity.cc:compare_by_commodity", m.group(0)))

    balh = strip_comments(src("balance.h"))
    out.append(("balance.h:is_zero", _clean(function_body(balh, r"bool\s+is_zero\(\)\s*const\s*\{"))))
    val = _clean(function_body(strip_comments(src("value.cc")), r"bool\s+value_t::is_zero\(\)\s*const\s*\{"))
    m = re.search(r"case AMOUNT: return [^;]*; case BALANCE: return [^;]*;", val)
    need(m, "value.cc: is_zero AMOUNT/BALANCE cells")
    out.append(("value.cc:is_zero", m.group(0)))
    amt = strip_comments(src("amount.cc"))
    out.append(("amount.cc:is_zero", _clean(function_body(amt, r"bool\s+amount_t::is_zero\(\)\s*const\s*\{"))))
    out.append(("amount.cc:in_place_round", _clean(function_body(amt, r"void\s+amount_t::in_place_round\(\)\s*\{"))))
    valh = strip_comments(src("value.h"))
    out.append(("value.h:add_or_set_value", _clean(function_body(valh, r"inline\s+value_t&\s+add_or_set_value\(value_t& lhs, const T& rhs\)\s*\{"))))

    jr = _clean(function_body(strip_comments(src("journal.cc")), r"bool\s+journal_t::add_xact\(xact_t \* xact\)\s*\{"))
    m = re.match(r"xact->journal = this; if \(! xact->finalize\(\)\) \{[^}]*\}", jr)
    need(m, "journal.cc: add_xact no longer starts with the finalize() test")
    out.append(("journal.cc:add_xact", m.group(0)))

    tx = _clean(strip_comments(src("textual.cc")))
    out.append(("textual.cc:xact_directive", _block_from(tx, r"if \(context\.journal->add_xact\(xact\)\) \{", "xact_directive")))
    m = re.search(r'std::cerr << _\("Error: "\) << err\.what\(\) << std::endl; context\.errors\+\+;', tx)
    need(m, "textual.cc: per-item error accounting")
    out.append(("textual.cc:error-count", m.group(0)))
    m = re.search(r"post->cost->in_place_unround\(\); if \(per_unit\) \{.*?\} else if \(post->amount\.sign\(\) < 0\) \{[^}]*\}", tx)
    need(m, "textual.cc: cost computation")
    out.append(("textual.cc:cost", m.group(0)))
    m = re.search(r"post->cost->parse\(cstream, [A-Z_ |]*\);", tx)
    need(m, "textual.cc: cost parse flags")
    out.append(("textual.cc:cost-parse", m.group(0)))
    body = _clean(function_body(strip_comments(src("textual.cc")), r"void\s+instance_t::default_account_directive\(char \* line\)\s*\{"))
    out.append(("textual.cc:bucket", _stmt_from(body, r"context\.journal->bucket =", "bucket directive")))
    return out


WHOLE = {
    "xact.cc": [("xact.cc:finalize(body)", r"bool\s+xact_base_t::finalize\(\)\s*\{"),
                ("xact.cc:xact_t::valid(body)", r"bool\s+xact_t::valid\(\)\s*const\s*\{")],
    "journal.cc": [("journal.cc:add_xact(body)", r"bool\s+journal_t::add_xact\(xact_t \* xact\)\s*\{")],
    "textual.cc": [("textual.cc:xact_directive(body)", r"xact_t \* instance_t::xact_directive\(char \* line, std::streamsize len,\s*xact_t \* previous_xact\)\s*\{"),
                   ("textual.cc:parse(body)", r"void\s+instance_t::parse\(\)\s*\{"),
                   ("textual.cc:default_account_directive(body)", r"void\s+instance_t::default_account_directive\(char \* line\)\s*\{"),
                   ("textual.cc:account_default_directive(body)", r"void\s+instance_t::account_default_directive\(account_t \* account\)\s*\{")],
    "commodity.cc": [("commodity.cc:compare_by_commodity(body)",
                      r"int\s+commodity_t::compare_by_commodity::operator\(\)\(const amount_t \* left,\s*const amount_t \* right\)\s*const\s*\{")],
    "pool.cc": [("pool.cc:exchange(body)", r"commodity_pool_t::exchange\(const amount_t&\s+amount,\s*const amount_t&\s+cost,[^{]*\{")],
}


def lot_snippets():
    """lot annotations: `{{total}}` division at parse time, identity of annotated commodities"""
    out = []
    amt = _clean(strip_comments(src("amount.cc")))
    m = re.search(r"if \(commodity_ && details\) \{ if \(details\.has_flags\(ANNOTATION_PRICE_NOT_PER_UNIT\)\) \{[^}]*\} set_commodity\([^;]*;\s*\}", amt)
    need(m, "amount.cc: annotation handling at the end of amount_t::parse")
    out.append(("amount.cc:parse-annotation", m.group(0)))
    ah = _clean(strip_comments(src("annotate.h")))
    m = re.search(r"bool operator==\(const annotation_t& rhs\) const \{ return \(price == rhs\.price && date == rhs\.date && tag == rhs\.tag &&[^}]*\}", ah)
    need(m, "annotate.h: annotation_t::operator==")
    out.append(("annotate.h:annotation-equality", m.group(0)))
    ac = _clean(strip_comments(src("annotate.cc")))
    m = re.search(r"amount_t temp; temp\.parse\(buf, [A-Z_ |]*\); price = temp;", ac)
    need(m, "annotate.cc: lot price parse flags")
    out.append(("annotate.cc:price-parse", m.group(0)))
    return out


def bucket_snippets():
    """the three spellings of a default-account declaration and where they lead"""
    out = []
    tx = _clean(strip_comments(src("textual.cc")))
    m = re.search(r"case 'A': default_account_directive\(line \+ 1\); break;", tx)
    need(m, "textual.cc: `A` directive no longer calls default_account_directive")
    out.append(("textual.cc:A-directive", m.group(0)))
    m = re.search(r'if \(std::strcmp\(p, "bucket"\) == 0\) \{ default_account_directive\(arg\); return true; \}', tx)
    need(m, "textual.cc: `bucket` directive no longer calls default_account_directive")
    out.append(("textual.cc:bucket-directive", m.group(0)))
    m = re.search(r'else if \(keyword == "default"\) \{ account_default_directive\(account\); \}', tx)
    need(m, "textual.cc: `account … default` no longer calls account_default_directive")
    out.append(("textual.cc:account-default", m.group(0)))
    return out


def gen_finalize():
    """key statements (located one by one, so a change is localised) followed by the
    whole normalised bodies of the functions on the path (so that any edit of
    them, even one no key statement covers, breaks `C01.finalize_shape_pinned`)."""
    items = shape() + lot_snippets() + bucket_snippets()
    for fname, sigs in WHOLE.items():
        items += extract.pin_functions(fname, sigs)
    return extract.gen_pairs("(site, normalised C++ text) of every statement Model/Finalize.lean mirrors, and the whole bodies "
                             "of xact_base_t::finalize, journal_t::add_xact and the textual.cc transaction / error path.",
                             "finalizeShape", items,
                             "src/xact.cc, post.h, balance.cc, balance.h, commodity.cc, amount.cc, value.cc, value.h, journal.cc, textual.cc, pool.cc "
                             "(tools/extract_finalize.py)")


MORE = {"Finalize": gen_finalize}

if __name__ == "__main__":
    for k, v in shape():
        print(k, "::", v)
