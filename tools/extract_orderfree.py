"""Translator part of C08: the C++ the order-free model
(lean/LedgerModel/Model/OrderFree.lean) mirrors, re-extracted on every run into
Gen/OrderFree.lean.

* `Gen.orderFreeFns` : (key, normalised body) of whole functions — include_directive,
  add_xact, add_post, amount_t::parse, amount_t::operator+= / -=, finalize, add_balancing_post, sort_posts,
  sorted_amounts, map_sorted_amounts, balance += amount, assign_glob, mask assignment,
  add_flags — and of a few statements inside parse_post (the parse flags of costs and
  assertions, the total-cost computation).  Props/C08.lean compares them with the
  pinned copy the model was written against (`C08.source_pinned`, rfl; refresh with
  tools/repin.py OrderFree together with the model).
* three shapes are also INTERPRETED into Bools the theorems `C08.include_order_is_sorted`,
  `C08.precision_migrates_to_max`, `C08.flags_are_ored` are stated over:
    includeSorted     the directory listing is copied and std::sort-ed before the glob loop
    precMigrateIsMax  `if (new_quantity->prec > commodity().precision()) commodity().set_precision(new_quantity->prec);`
    flagsOred         `commodity().add_flags(comm_flags);` with add_flags = `_flags | arg`
"""
import re
from extract import src, strip_comments, function_body, need, lean_str, norm_ws, pin_functions, ExtractError

FNS = [
    ("textual.cc", [("textual.cc:include_directive", r"void\s+instance_t::include_directive\(char \* line\)\s*\{")]),
    ("journal.cc", [("journal.cc:add_xact", r"bool\s+journal_t::add_xact\(xact_t \* xact\)\s*\{")]),
    ("account.cc", [("account.cc:add_post", r"void\s+account_t::add_post\(post_t \* post\)\s*\{")]),
    ("amount.cc", [("amount.cc:parse", r"bool\s+amount_t::parse\(std::istream& in, const parse_flags_t& flags\)\s*\{"),
                   ("amount.cc:operator+=", r"amount_t&\s+amount_t::operator\+=\(const amount_t& amt\)\s*\{"),
                   ("amount.cc:operator-=", r"amount_t&\s+amount_t::operator-=\(const amount_t& amt\)\s*\{")]),
    ("xact.cc", [("xact.cc:finalize", r"bool\s+xact_base_t::finalize\(\)\s*\{"),
                 ("xact.cc:add_balancing_post", r"void operator\(\)\(const amount_t& amount\)\s*\{")]),
    ("balance.cc", [("balance.cc:operator+=(amount)", r"balance_t&\s+balance_t::operator\+=\(const amount_t& amt\)\s*\{"),
                    ("balance.cc:sorted_amounts", r"void\s+balance_t::sorted_amounts\(amounts_array& sorted\) const\s*\{"),
                    ("balance.cc:map_sorted_amounts", r"void\s+balance_t::map_sorted_amounts\(function<void\(const amount_t&\)> fn\) const\s*\{")]),
    ("filters.cc", [("filters.cc:sort_posts::post_accumulated_posts", r"void\s+sort_posts::post_accumulated_posts\(\)\s*\{")]),
    ("mask.cc", [("mask.cc:assign_glob", r"mask_t&\s+mask_t::assign_glob\(const string& pat\)\s*\{"),
                 ("mask.cc:operator=", r"mask_t&\s+mask_t::operator=\(const string& pat\)\s*\{")]),
]


def _slice(text, start_re, end_re, what):
    m = re.search(start_re, text)
    need(m, what + ": start not found")
    e = re.search(end_re, text[m.start():])
    need(e, what + ": end not found")
    return norm_ws(text[m.start():m.start() + e.end()])


def pieces():
    pairs = []
    for fname, sigs in FNS:
        pairs += pin_functions(fname, sigs)
    tx = strip_comments(src("textual.cc"))
    m = re.search(r"post->cost->parse\(cstream, ([A-Z_ |]+)\);", tx)
    need(m, "textual.cc: cost parse flags not found")
    pairs.append(("textual.cc:parse_post:cost_parse_flags", norm_ws(m.group(1))))
    m = re.search(r"post->assigned_amount->parse\(stream([A-Z_ |,]*)\);", tx)
    need(m, "textual.cc: assertion amount parse not found")
    pairs.append(("textual.cc:parse_post:assign_parse", norm_ws(m.group(0))))
    pairs.append(("textual.cc:parse_post:cost_total",
                  _slice(tx, r"if \(per_unit\) \{", r"post->cost->in_place_negate\(\);\s*\}", "textual.cc cost total")))
    fl = strip_comments(src("flags.h"))
    m = re.search(r"void add_flags\(const flags_t arg\) \{\s*(_flags = [^;]*;)\s*\}", fl)
    need(m, "flags.h: add_flags not found")
    pairs.append(("flags.h:add_flags", norm_ws(m.group(1))))
    bh = strip_comments(src("balance.h"))
    m = re.search(r"typedef\s+std::unordered_map<commodity_t \*, amount_t>\s+amounts_map;", bh)
    need(m, "balance.h: amounts_map is no longer unordered_map<commodity_t *, amount_t>")
    pairs.append(("balance.h:amounts_map", norm_ws(m.group(0))))
    return pairs


def interpreted(p):
    inc = p["textual.cc:include_directive"]
    i_copy = inc.find("std::copy(filesystem::directory_iterator(parent_path), filesystem::directory_iterator(), std::back_inserter(sorted_parent_path));")
    i_sort = inc.find("std::sort(sorted_parent_path.begin(), sorted_parent_path.end());")
    i_for = inc.find("for (std::vector<path>::const_iterator iter(sorted_parent_path.begin()), it_end(sorted_parent_path.end()); iter != it_end; ++iter)")
    need(i_for >= 0, "include_directive: the loop over the directory listing has an unknown shape")
    include_sorted = 0 <= i_copy < i_sort < i_for
    parse = p["amount.cc:parse"]
    m = re.search(r"else if \(commodity_ && ! no_migrate_style\) \{ (.*?) \}", parse)
    need(m, "amount_t::parse: the style migration block has an unknown shape")
    mig = m.group(1)
    mm = re.search(r"if \(new_quantity->prec (\S+) commodity\(\)\.precision\(\)\) commodity\(\)\.set_precision\(new_quantity->prec\);", mig)
    need(mm, "amount_t::parse: precision migration has an unknown shape: " + mig)
    prec_max = mm.group(1) == ">"
    ored = "commodity().add_flags(comm_flags);" in mig and \
        re.fullmatch(r"_flags = static_cast<T>\(static_cast<U>\(_flags\) \| static_cast<U>\(arg\)\);", p["flags.h:add_flags"]) is not None
    return include_sorted, prec_max, ored


def gen_orderfree():
    pairs = pieces()
    inc_sorted, prec_max, ored = interpreted(dict(pairs))
    b = lambda x: "true" if x else "false"
    lines = ["/- GENERATED by tools/extract_orderfree.py from src/{textual,journal,account,amount,xact,balance,filters,mask}.cc, flags.h, balance.h - do not edit. -/",
             "namespace Ledger.Gen", "",
             "/-- include_directive copies the directory listing and std::sorts it before matching the glob (textual.cc 789-795). -/",
             "def includeSorted : Bool := " + b(inc_sorted), "",
             "/-- precision migration only raises the commodity precision (amount.cc 1193-1194). -/",
             "def precMigrateIsMax : Bool := " + b(prec_max), "",
             "/-- style flags are OR-ed into the commodity (amount.cc 1191, flags.h add_flags). -/",
             "def flagsOred : Bool := " + b(ored), "",
             "/-- (key, normalised C++ text) of every function / statement group the order-free model mirrors. -/",
             "def orderFreeFns : List (String × String) := ["]
    lines.append(",\n".join("  (%s, %s)" % (lean_str(k), lean_str(v)) for k, v in pairs))
    lines += ["]", "", "end Ledger.Gen"]
    return "\n".join(lines) + "\n"


MORE = {"OrderFree": gen_orderfree}

if __name__ == "__main__":
    print(gen_orderfree())
