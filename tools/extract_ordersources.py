#!/usr/bin/env python3
"""Translator part of C19 (and C08): the inventory of containers whose iteration
order is not fixed by the input, the walks over `balance_t::amounts`, the bodies
of the order-sensitive consumers the model mirrors, and the flags that say how
the four leaking consumers enumerate today.

Gen/OrderSources.lean
  orderContainers : List (String × String)   "file:name" ↦ "class|normalised type"
        every std::map / std::set / std::multimap / unordered_* declared in
        src/*.h, src/*.cc whose key type is a pointer (directly, through a
        typedef, or inside a tuple/pair) or which is unordered.  class =
        unordered | address | compared (a comparator is given).
  orderContainerLines : List (String × Nat)  the same keys with the line number
        (kept apart: line numbers move under unrelated edits and are not pinned)
  amountsWalks : List (String × String)      "file:function" ↦ how it touches the
        hash map (`foreach`, `begin`), for every function that enumerates
        `amounts` of a balance_t – minus the flagged consumers below.
  putBalanceSorted, topAmountSorted : Bool;  collapseTotalsOrder, pricesSetOrder : String
        interpreted from the text of put_balance, top_amount, collapse_posts::totals_map,
        posts_commodities_iterator::reset ("address" | "name" | "insertion").
Gen/OrderSourceFns.lean
  orderSourceFns : List (String × String)    normalised bodies of the consumers
        (pinned by C19.fns_pinned).
"""
import os, re, glob
import extract
from extract import ExtractError, need, strip_comments, function_body, norm_ws, lean_str, pin_functions, gen_pairs

SRC = os.path.join(extract.REPO, "src")


def strip_keep_lines(s):
    """strip comments but keep every newline so that offsets map to line numbers."""
    def blank(m):
        return re.sub(r"[^\n]", " ", m.group(0))
    s = re.sub(r"/\*.*?\*/", blank, s, flags=re.S)
    s = re.sub(r"//[^\n]*", blank, s)
    return s


def template_args(text, i):
    """text[i] == '<' : return (list of top-level args, index after the matching '>')."""
    assert text[i] == "<"
    depth = 0
    args, cur = [], []
    j = i
    while j < len(text):
        ch = text[j]
        if ch in "<(":
            depth += 1
            if depth > 1:
                cur.append(ch)
        elif ch in ">)":
            depth -= 1
            if depth == 0:
                args.append("".join(cur))
                return [norm_ws(a) for a in args], j + 1
            cur.append(ch)
        elif ch == "," and depth == 1:
            args.append("".join(cur))
            cur = []
        elif ch == ";" or ch == "{":
            raise ExtractError("unbalanced template brackets near offset %d" % i)
        else:
            cur.append(ch)
        j += 1
    raise ExtractError("unterminated template argument list")


CONT_RE = re.compile(r"\b(?:std::)?(unordered_)?(multi)?(map|set)\s*<")
# only these namespaces' containers have an order we care about; boost::property_tree etc. do not match the regex


def typedef_table(files):
    """name -> defining text, for `typedef … NAME;` (one level is enough for src/)."""
    tab = {}
    for fn, text in files.items():
        for m in re.finditer(r"\btypedef\s+([^;{}]+?)\s+([A-Za-z_][A-Za-z0-9_]*)\s*;", text, flags=re.S):
            tab.setdefault(m.group(2), norm_ws(m.group(1)))
    return tab


def is_pointerish(key, typedefs, depth=0):
    if "*" in key:
        return True
    if depth > 3:
        return False
    for ident in re.findall(r"[A-Za-z_][A-Za-z0-9_]*", key):
        d = typedefs.get(ident)
        if d and ident not in ("string",) and not CONT_RE.search(d) and is_pointerish(d, typedefs, depth + 1):
            return True
    return False


def containers():
    files = {}
    for p in sorted(glob.glob(os.path.join(SRC, "*.h")) + glob.glob(os.path.join(SRC, "*.cc"))):
        with open(p, encoding="utf-8", errors="replace") as f:
            files[os.path.basename(p)] = strip_keep_lines(f.read())
    need(len(files) > 100, "src/: expected > 100 source files, found %d" % len(files))
    typedefs = typedef_table(files)
    out = []
    for fn, text in files.items():
        if fn.startswith("py_") or fn in ("pyinterp.h", "pyinterp.cc", "pyutils.h"):
            continue  # Python bridge: outside the model (DESIGN §8), not built
        for m in CONT_RE.finditer(text):
            lt = m.end() - 1
            try:
                args, end = template_args(text, lt)
            except ExtractError:
                continue
            rest = text[end:end + 200]
            if re.match(r"\s*::", rest):
                continue                      # `std::map<…>::iterator`: a use, not a declaration
            unordered, multi, kind = bool(m.group(1)), bool(m.group(2)), m.group(3)
            key = args[0]
            cmp_idx = 2 if kind == "map" else 1
            comparator = args[cmp_idx] if len(args) > cmp_idx and not unordered else ""
            if not unordered and not is_pointerish(key, typedefs):
                continue
            mname = re.match(r"\s*&?\s*([A-Za-z_][A-Za-z0-9_]*)", rest)
            name = mname.group(1) if mname else "?"
            if name in ("const", "value_type", "iterator"):
                continue
            line = text.count("\n", 0, m.start()) + 1
            cls = "unordered" if unordered else ("compared" if comparator else "address")
            ty = "%s%s%s<%s>" % ("unordered_" if unordered else "", "multi" if multi else "", kind, ", ".join(args))
            out.append(("%s:%s" % (fn, name), cls + "|" + ty, line))
    # typedef + `::value_type` re-declarations give duplicate keys; keep the first of each (file:name)
    seen, res = set(), []
    for k, v, line in out:
        if k in seen:
            continue
        seen.add(k)
        res.append((k, v, line))
    need(any(k == "balance.h:amounts_map" for k, _, _ in res), "balance.h: amounts_map (unordered_map keyed by commodity_t*) not found")
    return res


# consumers whose enumeration is interpreted into a flag (left out of amountsWalks / orderContainers pins)
FLAGGED_WALKS = {"balance.cc:put_balance", "report.cc:top_amount"}
FLAGGED_CONTAINERS = {"filters.h:totals_map", "iterators.cc:commodities"}

FUNC_HEAD = re.compile(r"^[ \t]*(?:[A-Za-z_][\w:<>,&\*\s~]*?[\s\*&])?((?:[A-Za-z_]\w*::)*(?:operator\s*[^\s(]+|~?[A-Za-z_]\w*))\s*\([^;{}]*\)\s*(?:const)?\s*(?:throw\s*\(\))?\s*(?::[^{;]*)?\{", re.M)


def enclosing_function(text, pos):
    """name of the function whose body contains offset pos (column-0 or class-member definitions)."""
    best = None
    for m in FUNC_HEAD.finditer(text, 0, pos):
        name = m.group(1)
        if name in ("if", "for", "while", "switch", "foreach", "catch", "return", "else", "BOOST_REVERSE_FOREACH", "BOOST_FOREACH", "do"):
            continue
        # is pos inside this function's braces?
        i = m.end() - 1
        depth = 0
        j = i
        while j < len(text):
            if text[j] == "{":
                depth += 1
            elif text[j] == "}":
                depth -= 1
                if depth == 0:
                    break
            j += 1
        if i < pos <= j:
            best = name
    return best or "?"


def amounts_walks():
    """every function of src/ (Python bridge excluded) that enumerates a balance's hash map."""
    out = []
    names = sorted(os.path.basename(p) for p in glob.glob(os.path.join(SRC, "*.h")) + glob.glob(os.path.join(SRC, "*.cc")))
    for fn in names:
        if fn.startswith("py_") or fn in ("pyinterp.h", "pyinterp.cc", "pyutils.h"):
            continue  # Python bridge: outside the model, not built
        p = os.path.join(SRC, fn)
        if not os.path.exists(p):
            continue
        with open(p, encoding="utf-8", errors="replace") as f:
            text = strip_keep_lines(f.read())
        for m in re.finditer(r"foreach\s*\([^()]*amounts_map::value_type\s*&\s*\w+\s*,\s*([^()]*(?:\([^()]*\))?[^()]*)\)"
                             r"|\bfor\s*\([^;()]*:\s*[^;()]*\bamounts\s*\)"
                             r"|\bamounts\s*\.\s*c?begin\s*\(\s*\)", text):
            how = "foreach" if m.group(0).startswith("for") else "begin"
            func = enclosing_function(text, m.start())
            out.append(("%s:%s" % (fn, func), how))
    # collapse to (key, "foreach×n begin×m")
    agg = {}
    order = []
    for k, how in out:
        if k not in agg:
            agg[k] = {"foreach": 0, "begin": 0}
            order.append(k)
        agg[k][how] += 1
    res = [(k, " ".join("%s*%d" % (h, n) for h, n in agg[k].items() if n)) for k in order]
    need(any(k == "balance.cc:balance_t::sorted_amounts" for k, _ in res), "balance.cc: sorted_amounts no longer walks `amounts`")
    return res


def flag_put_balance():
    text = strip_comments(extract.src("balance.cc"))
    body = norm_ws(function_body(text, r"void\s+put_balance\(property_tree::ptree& st, const balance_t& bal\)\s*\{"))
    if re.fullmatch(r"foreach \(const balance_t::amounts_map::value_type& pair, bal\.amounts\) put_amount\(st\.add\(\"amount\", \"\"\), pair\.second\);", body):
        return False
    if ("sorted_amounts" in body) and ("bal.amounts)" not in body):
        return True
    raise ExtractError("balance.cc put_balance not recognised: " + body)


def flag_top_amount():
    text = strip_comments(extract.src("report.cc"))
    body = norm_ws(function_body(text, r"value_t\s+top_amount\(const value_t& val\)\s*\{"))
    if "return (*val.as_balance().amounts.begin()).second;" in body:
        return False
    if "sorted_amounts" in body and "amounts.begin()" not in body:
        return True
    raise ExtractError("report.cc top_amount not recognised: " + body)


def flag_totals_map():
    text = strip_comments(extract.src("filters.h"))
    m = re.search(r"class collapse_posts\b.*?typedef\s+([^;]+?)\s+totals_map\s*;", text, flags=re.S)
    need(m, "filters.h: collapse_posts::totals_map typedef not found")
    ty = re.sub(r"\s+", "", m.group(1))
    if ty == "std::map<account_t*,value_t>":
        return "address"
    if re.fullmatch(r"std::map<account_t\*,value_t,[\w:]+>", ty):
        return "name"          # a comparator: by (full)name is the only order an account offers
    if re.fullmatch(r"std::(list|vector|deque)<std::pair<account_t\*,value_t>>", ty):
        return "insertion"
    raise ExtractError("filters.h collapse_posts::totals_map not recognised: " + ty)


def flag_prices_set():
    text = strip_comments(extract.src("iterators.cc"))
    body = norm_ws(function_body(text, r"void\s+posts_commodities_iterator::reset\(journal_t& journal\)\s*\{"))
    m = re.search(r"(std::(?:set|map|vector|list|deque)\s*<[^;]*>)\s+commodities\s*;", body)
    need(m, "iterators.cc posts_commodities_iterator::reset: `commodities` container not found")
    ty = re.sub(r"\s+", "", m.group(1))
    if ty == "std::set<commodity_t*>":
        return "address"
    if re.fullmatch(r"std::set<commodity_t\*,[\w:]+>", ty) or re.fullmatch(r"std::map<(std::)?string,commodity_t\*>", ty):
        return "name"
    if re.fullmatch(r"std::(vector|list|deque)<commodity_t\*>", ty):
        return "insertion"
    raise ExtractError("iterators.cc posts_commodities_iterator::reset container not recognised: " + ty)


def comparator_of(entry_type):
    """the comparator type name of a `compared|map<K, V, C>` / `set<K, C>` entry."""
    m = re.match(r"(?:multi)?(map|set)<(.*)>$", entry_type)
    need(m, "container type not understood: " + entry_type)
    args, _ = template_args("<" + m.group(2) + ">", 0)
    idx = 2 if m.group(1) == "map" else 1
    return args[idx] if len(args) > idx else ""


def comparators():
    """For every ORDERED container keyed by a pointer that names a comparator: the comparator's operator() body and
    its classification.  A pointer-keyed map is only safe when the comparator never falls back to the pointer:
      name-only         no relational comparison of the two bare parameters (nor of their addresses)
      pointer-fallback  `lhs < rhs` (or > <= >=, std::less, &lhs < &rhs) on the parameters themselves
      unknown           the comparator's definition was not found in src/ (e.g. a std:: functor on pointers)
    -> [("file:container", class, "comparator|normalised body")]"""
    files = {}
    for pth in sorted(glob.glob(os.path.join(SRC, "*.h")) + glob.glob(os.path.join(SRC, "*.cc"))):
        with open(pth, encoding="utf-8", errors="replace") as f:
            files[os.path.basename(pth)] = strip_comments(f.read())
    out = []
    for key, val, _line in containers():
        cls, ty = val.split("|", 1)
        if cls != "compared":
            continue
        cname = comparator_of(ty)
        base = cname.split("::")[-1]
        body, params = None, None
        for fn, text in files.items():
            m = re.search(r"\b(?:struct|class)\s+" + re.escape(base) + r"\b[^;{]*\{", text)
            if not m:
                continue
            sbody = function_body(text, r"\b(?:struct|class)\s+" + re.escape(base) + r"\b[^;{]*\{")
            mo = re.search(r"bool\s+operator\s*\(\)\s*\(([^)]*)\)\s*const\s*\{", sbody)
            if not mo:
                continue
            body = norm_ws(function_body(sbody, r"bool\s+operator\s*\(\)\s*\(([^)]*)\)\s*const\s*\{"))
            params = [re.findall(r"[A-Za-z_]\w*", a)[-1] for a in mo.group(1).split(",")]
            break
        if body is None or len(params) != 2:
            out.append((key, "unknown", "%s|" % cname))
            continue
        a, b = map(re.escape, params)
        ptr = re.search(r"(?<![\w.>])&?\s*(%s|%s)\s*(<=|>=|<|>)\s*&?\s*(%s|%s)(?![\w(]|\s*(->|\.))" % (a, b, a, b), body) \
            or re.search(r"std::(less|greater)", body) \
            or re.search(r"(reinterpret_cast|uintptr_t|static_cast<\s*(const\s+)?void)", body)
        out.append((key, "pointer-fallback" if ptr else "name-only", "%s|%s" % (cname, body)))
    need(out, "no pointer-keyed container with a comparator found (output.h report maps expected)")
    return out


def presence_returns():
    """commodity.cc compare_by_commodity: for each lot detail X the two `one side has it` branches
    `if (! aleftcomm.details.X && arightcomm.details.X) … return A;` / `if (aleftcomm.details.X && ! arightcomm.details.X) … return B;`
    -> {X: (A, B)}  (A: only the right lot has X, B: only the left lot has X)."""
    text = strip_comments(extract.src("commodity.cc"))
    body = norm_ws(function_body(text, r"int\s+commodity_t::compare_by_commodity::operator\(\)\(const amount_t \* left,\s*const amount_t \* right\) const\s*\{"))
    out = {}
    for x in ("price", "date", "tag", "value_expr"):
        m = re.search(r"if \(! aleftcomm\.details\.%s && arightcomm\.details\.%s\) \{ (?:DEBUG\([^;]*\); )?return (-?\d+); \} "
                      r"if \(aleftcomm\.details\.%s && ! arightcomm\.details\.%s\) \{ (?:DEBUG\([^;]*\); )?return (-?\d+); \}" % (x, x, x, x), body)
        need(m, "commodity.cc compare_by_commodity: presence branches for lot %s not recognised" % x)
        out[x] = (int(m.group(1)), int(m.group(2)))
    m = re.search(r"if \(! leftcomm\.has_annotation\(\) && rightcomm\.has_annotation\(\)\) \{ (?:DEBUG\([^;]*\); )?return (-?\d+); \} "
                  r"else if \(leftcomm\.has_annotation\(\) && ! rightcomm\.has_annotation\(\)\) \{ (?:DEBUG\([^;]*\); )?return (-?\d+); \}", body)
    need(m, "commodity.cc compare_by_commodity: annotation presence branches not recognised")
    out["annotation"] = (int(m.group(1)), int(m.group(2)))
    return out


def gen_order_sources():
    cont = containers()
    walks = amounts_walks()
    L = ["/- GENERATED by tools/extract_ordersources.py from src/*.h, src/*.cc - do not edit. -/",
         "namespace Ledger.Gen", "",
         "/-- \"file:name\" ↦ \"class|type\" for every map/set of src/ whose iteration order is not fixed by the",
         "    input: `unordered` (hash order), `address` (ordered by a pointer key), `compared` (pointer key with a",
         "    comparator).  The containers of the flagged consumers are left out (interpreted below). -/",
         "def orderContainers : List (String × String) := ["]
    L.append(",\n".join("  (%s, %s)" % (lean_str(k), lean_str(v)) for k, v, _ in cont if k not in FLAGGED_CONTAINERS))
    L += ["]", "", "/-- line numbers of the same declarations (not pinned). -/",
          "def orderContainerLines : List (String × Nat) := ["]
    L.append(",\n".join("  (%s, %d)" % (lean_str(k), line) for k, _, line in cont))
    L += ["]", "", "/-- \"file:function\" ↦ how often it enumerates a balance's `amounts` hash map (foreach / begin()). -/",
          "def amountsWalks : List (String × String) := ["]
    L.append(",\n".join("  (%s, %s)" % (lean_str(k), lean_str(v)) for k, v in walks if k not in FLAGGED_WALKS))
    L += ["]", "",
          "/-- balance.cc put_balance: does it enumerate `sorted_amounts` (true) or the raw hash map (false)? -/",
          "def putBalanceSorted : Bool := %s" % ("true" if flag_put_balance() else "false"), "",
          "/-- report.cc top_amount: first of `sorted_amounts` (true) or `amounts.begin()` of the hash map (false)? -/",
          "def topAmountSorted : Bool := %s" % ("true" if flag_top_amount() else "false"), "",
          "/-- filters.h collapse_posts::totals_map: \"address\" (std::map keyed by account_t*), \"name\" (comparator), \"insertion\". -/",
          "def collapseTotalsOrder : String := %s" % lean_str(flag_totals_map()), "",
          "/-- iterators.cc posts_commodities_iterator::reset: \"address\" (std::set<commodity_t*>), \"name\" or \"insertion\". -/",
          "def pricesSetOrder : String := %s" % lean_str(flag_prices_set()), "",
          "/-- (\"file:container\", class, \"comparator|operator() body\") for every ordered container keyed by a pointer that names a",
          "    comparator (class: name-only | pointer-fallback | unknown).  The flagged containers are included. -/",
          "def comparators : List (String × String × String) := [",
          ",\n".join("  (%s, %s, %s)" % (lean_str(k), lean_str(c), lean_str(v)) for k, c, v in comparators()),
          "]", "",
          "/-- commodity.cc compare_by_commodity: (detail, result when only the RIGHT lot has it, result when only the LEFT lot has it). -/",
          "def lotPresenceReturns : List (String × Int × Int) := ["
          + ", ".join("(%s, %d, %d)" % (lean_str(k), a, b) for k, (a, b) in presence_returns().items()) + "]", "",
          "end Ledger.Gen"]
    return "\n".join(L) + "\n"


def two_commodity_branch():
    text = strip_comments(extract.src("xact.cc"))
    body = function_body(text, r"bool\s+xact_base_t::finalize\(\)\s*\{")
    sig = r"if\s*\(\s*!\s*null_post\s*&&\s*balance\.is_balance\(\)\s*&&\s*balance\.as_balance\(\)\.amounts\.size\(\)\s*==\s*2\s*\)\s*\{"
    need(re.search(sig, body), "xact.cc finalize: two-commodity branch not found")
    return norm_ws(function_body(body, sig))


def gen_order_source_fns():
    pairs = pin_functions("balance.cc", [
        ("balance.cc:sorted_amounts", r"void\s+balance_t::sorted_amounts\(amounts_array& sorted\) const\s*\{"),
        ("balance.cc:map_sorted_amounts", r"void\s+balance_t::map_sorted_amounts\(function<void\(const amount_t&\)> fn\) const\s*\{"),
        ("balance.cc:print", r"void\s+balance_t::print\(std::ostream&\s+out,\s*const int\s+first_width,\s*const int\s+latter_width,\s*const uint_least8_t flags\) const\s*\{"),
        ("balance.cc:strip_annotations", r"balance_t\s+balance_t::strip_annotations\(const keep_details_t& what_to_keep\) const\s*\{"),
        ("balance.cc:put_balance", r"void\s+put_balance\(property_tree::ptree& st, const balance_t& bal\)\s*\{"),
    ])
    pairs += pin_functions("commodity.cc", [
        ("commodity.cc:compare_by_commodity", r"int\s+commodity_t::compare_by_commodity::operator\(\)\(const amount_t \* left,\s*const amount_t \* right\) const\s*\{"),
    ])
    pairs += pin_functions("filters.cc", [
        ("filters.cc:collapse_posts::report_subtotal", r"void\s+collapse_posts::report_subtotal\(\)\s*\{"),
        ("filters.cc:collapse_posts::find_totals", r"value_t&\s+collapse_posts::find_totals\(account_t\* account\)\s*\{"),
        ("filters.cc:collapse_posts::operator()", r"void\s+collapse_posts::operator\(\)\(post_t& post\)\s*\{"),
        ("filters.cc:subtotal_posts::operator()", r"void\s+subtotal_posts::operator\(\)\(post_t& post\)\s*\{"),
        ("filters.cc:post_splitter::flush", r"void\s+post_splitter::flush\(\)\s*\{"),
    ])
    pairs += pin_functions("report.cc", [("report.cc:top_amount", r"value_t\s+top_amount\(const value_t& val\)\s*\{")])
    pairs += pin_functions("iterators.cc", [
        ("iterators.cc:posts_commodities_iterator::reset", r"void\s+posts_commodities_iterator::reset\(journal_t& journal\)\s*\{")])
    pairs.append(("xact.cc:finalize:two-commodity-branch", two_commodity_branch()))
    # the key types themselves
    fh = strip_comments(extract.src("filters.h"))
    for name, cls in [("totals_map", "collapse_posts"), ("values_map", "subtotal_posts"), ("value_to_posts_map", "post_splitter")]:
        m = re.search(r"class " + cls + r"\b.*?typedef\s+([^;]+?)\s+" + name + r"\s*;", fh, flags=re.S)
        need(m, "filters.h: %s::%s typedef not found" % (cls, name))
        pairs.append(("filters.h:%s::%s" % (cls, name), norm_ws(m.group(1))))
    bh = strip_comments(extract.src("balance.h"))
    m = re.search(r"typedef\s+([^;]+?)\s+amounts_map\s*;", bh)
    need(m, "balance.h: amounts_map typedef not found")
    pairs.append(("balance.h:amounts_map", norm_ws(m.group(1))))
    ah = strip_comments(extract.src("account.h"))
    m = re.search(r"typedef\s+([^;]+?)\s+accounts_map\s*;", ah)
    need(m, "account.h: accounts_map typedef not found")
    pairs.append(("account.h:accounts_map", norm_ws(m.group(1))))
    return gen_pairs("Normalised bodies / types of the order-sensitive consumers that Model/OrderSources.lean mirrors.",
                     "orderSourceFns", pairs,
                     "src/balance.cc, src/commodity.cc, src/filters.cc, src/filters.h, src/report.cc, src/iterators.cc, src/xact.cc, src/balance.h, src/account.h")


MORE = {"OrderSources": gen_order_sources, "OrderSourceFns": gen_order_source_fns}

if __name__ == "__main__":
    import sys
    print(gen_order_sources())
    if len(sys.argv) > 1:
        print(gen_order_source_fns())
