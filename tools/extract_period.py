"""Translator part of the C13 tie: re-extract from /repo/src/times.cc, times.h and
filters.cc everything the C13 theorems and the period model rest on.

Gen/PeriodKeywords.lean
  * periodKeywords   spelling -> (quantum, length): the lexer's `term == _("...")`
                     chain composed with the top-level `case TOK_...:` cells of
                     date_parser_t::parse that assign `period.duration`
  * everyPlural      `every N <word>`: word -> quantum (TOK_INT branch of TOK_EVERY)
  * everySingular    `every <word>`:  word -> quantum (length 1)
  * everyRejectsZero does the TOK_INT branch refuse a zero quantity before building
                     the duration?  (it does not at the pinned commit: DESIGN 9-3)
  * everyIntMax      largest value of the integer token's C++ type
  * sinceWords / untilWords / inWords / everyWords / otherWords   lexer spellings
  * durationAdd      quantum -> (boost unit, multiplier) from date_duration_t::add
Gen/PeriodCode.lean
  * periodCode       name -> normalised body (comments, DEBUG statements, whitespace
                     removed) of the routines the Lean model mirrors: date_duration_t::add,
                     find_nearest, resolve_end, stabilize, find_period, operator++,
                     date_specifier_t::begin/end, interval_posts::operator()/flush,
                     report_t::normalize_period, date_interval_t::dump.  Pinned copy:
                     Model/PeriodCodePinned.lean (tools/repin.py PeriodCode), compared by
                     the `rfl` theorem `C13.code_pinned`.
"""
import re
import extract
from extract import src, strip_comments, function_body, need, lean_str, lean_list, norm_ws, split_cases, ExtractError, gen_pairs

QUANTA = ["DAYS", "WEEKS", "MONTHS", "QUARTERS", "YEARS"]


def lexer_spellings(text):
    """token -> [spellings] from date_parser_t::lexer_t::next_token."""
    body = function_body(text, r"date_parser_t::lexer_t::token_t\s+date_parser_t::lexer_t::next_token\(\)\s*\{")
    out = {}
    order = []
    for m in re.finditer(r'if\s*\(((?:\s*term\s*==\s*_\("[a-z]+"\)\s*(?:\|\|)?)+)\)\s*return\s+token_t\(token_t::(TOK_[A-Z_]+)\)\s*;', body):
        words = re.findall(r'_\("([a-z]+)"\)', m.group(1))
        need(words, "lexer: empty spelling list for " + m.group(2))
        need(m.group(2) not in out, "lexer: token %s spelled twice" % m.group(2))
        out[m.group(2)] = words
        order.append(m.group(2))
    need(len(out) >= 29, "lexer: expected >= 29 keyword tokens, found %d" % len(out))
    return out, order


def names_of(text, fn):
    body = function_body(text, fn + r"\(const std::string& str\)\s*\{")
    return re.findall(r'str\s*==\s*_\("([a-z]+)"\)', body)


DUR = re.compile(r"period\.duration = date_duration_t\(date_duration_t::([A-Z]+), (\w+)\); break;")


def parser_tables(text):
    body = function_body(text, r"date_interval_t\s+date_parser_t::parse\(\)\s*\{")
    sw = function_body(body, r"switch\s*\(\s*tok\.kind\s*\)\s*\{")
    cells = split_cases(sw)
    pre = "lexer_t::token_t::"
    top = {}
    for lab, cell in cells.items():
        c = norm_ws(cell)
        m = DUR.fullmatch(c)
        if m:
            need(m.group(1) in QUANTA, "parser: unknown quantum " + m.group(1))
            need(m.group(2).isdigit(), "parser: keyword %s has a non-literal length %s" % (lab, m.group(2)))
            need(lab.startswith(pre), "parser: odd case label " + lab)
            top[lab[len(pre):]] = (m.group(1), int(m.group(2)))
        else:
            need("period.duration" not in c or lab == pre + "TOK_EVERY",
                 "parser: case %s assigns period.duration in an unrecognised way: %s" % (lab, c[:200]))
    need(pre + "TOK_EVERY" in cells, "parser: no TOK_EVERY case")
    ev = cells[pre + "TOK_EVERY"]
    evn = norm_ws(ev)
    m = re.match(r"tok = lexer\.next_token\(\); if \(tok\.kind == lexer_t::token_t::TOK_INT\) \{ (\w+) quantity = "
                 r"boost::get<([a-z ]+)>\(\*tok\.value\); (.*?)tok = lexer\.next_token\(\); switch \(tok\.kind\) \{", evn)
    need(m, "parser: TOK_EVERY case no longer starts with the TOK_INT branch: " + evn[:300])
    ctype = m.group(2)
    need(ctype == "unsigned short", "parser: quantity token type is %r" % ctype)
    guard = m.group(3).strip()
    if guard == "":
        rejects_zero = False
    elif re.fullmatch(r"if \((quantity == 0|quantity < 1|quantity <= 0|! ?quantity|0 == quantity)\) (\{ )?(throw_\(.*?\);|tok\.unexpected\(\);)( \})?", guard):
        rejects_zero = True
    else:
        raise ExtractError("parser: unrecognised statement between the quantity and the quantum switch: " + guard)
    # the two nested switches
    i1 = ev.index("switch")
    s1 = function_body(ev[i1:], r"switch\s*\(\s*tok\.kind\s*\)\s*\{")
    rest = ev[i1 + len("switch") + len(s1):]
    need("else" in rest, "parser: TOK_EVERY has no else branch")
    s2 = function_body(rest[rest.index("else"):], r"switch\s*\(\s*tok\.kind\s*\)\s*\{")
    plural, singular = {}, {}
    for lab, cell in split_cases(s1).items():
        c = norm_ws(cell)
        m2 = DUR.fullmatch(c)
        if m2:
            need(m2.group(2) == "quantity", "parser: every-N case %s does not use the quantity: %s" % (lab, c))
            plural[lab[len(pre):]] = m2.group(1)
        else:
            need(lab == "default" and c == "tok.unexpected(); break;", "parser: every-N case %s: %s" % (lab, c))
    for lab, cell in split_cases(s2).items():
        c = norm_ws(cell)
        m2 = DUR.fullmatch(c)
        if m2:
            need(m2.group(2) == "1", "parser: every-<quantum> case %s has length %s" % (lab, m2.group(2)))
            singular[lab[len(pre):]] = m2.group(1)
        else:
            need(lab == "default" and c == "tok.unexpected(); break;", "parser: every-<quantum> case %s: %s" % (lab, c))
    need(len(plural) == 5 and len(singular) == 5, "parser: expected 5 + 5 `every` cases")
    return top, plural, singular, rejects_zero


def duration_add(th):
    m = re.search(r"date_t\s+add\(const date_t& date\) const\s*\{", th)
    need(m, "times.h: date_duration_t::add not found")
    body = function_body(th, r"date_t\s+add\(const date_t& date\) const\s*\{")
    sw = function_body(body, r"switch\s*\(\s*quantum\s*\)\s*\{")
    out = []
    for lab, cell in split_cases(sw).items():
        c = norm_ws(cell)
        m2 = re.fullmatch(r"return date \+ gregorian::(days|weeks|months|years)\(length( \* (\d+))?\);", c)
        need(m2, "times.h add: case %s not recognised: %s" % (lab, c))
        out.append((lab, m2.group(1), int(m2.group(3) or 1)))
    need([o[0] for o in out] == QUANTA, "times.h add: cases are %s" % [o[0] for o in out])
    return out


def strip_debug(body):
    """Remove DEBUG(...) statements and #if DEBUG_ON blocks: they have no effect on behaviour."""
    body = re.sub(r"#if DEBUG_ON.*?#endif", "", body, flags=re.S)
    # DEBUG("...", a << b);  -- balanced parentheses, may span lines
    out = []
    i = 0
    while True:
        m = re.search(r"\bDEBUG\s*\(", body[i:])
        if not m:
            out.append(body[i:])
            break
        out.append(body[i:i + m.start()])
        j = i + m.end()
        depth = 1
        while depth:
            ch = body[j]
            if ch == '"':
                j += 1
                while body[j] != '"':
                    if body[j] == "\\":
                        j += 1
                    j += 1
            elif ch == "(":
                depth += 1
            elif ch == ")":
                depth -= 1
            j += 1
        while body[j] in " \t\n":
            j += 1
        need(body[j] == ";", "DEBUG statement without ;")
        i = j + 1
    return "".join(out)


CODE = [
    ("times.h:date_duration_t::add", "times.h", r"date_t\s+add\(const date_t& date\) const\s*\{"),
    ("times.cc:resolve_end", "times.cc", r"void\s+date_interval_t::resolve_end\(\)\s*\{"),
    ("times.cc:find_nearest", "times.cc", r"date_t\s+date_duration_t::find_nearest\(const date_t& date, skip_quantum_t skip\)\s*\{"),
    ("times.cc:stabilize", "times.cc", r"void\s+date_interval_t::stabilize\(const optional<date_t>& date, bool align_intervals\)\s*\{"),
    ("times.cc:find_period", "times.cc", r"bool\s+date_interval_t::find_period\(const date_t& date,\s*const bool\s+align_intervals,\s*const bool\s+allow_shift\)\s*\{"),
    ("times.cc:operator++", "times.cc", r"date_interval_t&\s+date_interval_t::operator\+\+\(\)\s*\{"),
    ("times.cc:specifier_begin", "times.cc", r"date_t\s+date_specifier_t::begin\(\) const\s*\{"),
    ("times.cc:specifier_end", "times.cc", r"date_t\s+date_specifier_t::end\(\) const\s*\{"),
    ("filters.cc:interval_posts::operator()", "filters.cc", r"void\s+interval_posts::operator\(\)\(post_t& post\)\s*\{"),
    ("filters.cc:interval_posts::flush", "filters.cc", r"void\s+interval_posts::flush\(\)\s*\{"),
    ("report.cc:normalize_period", "report.cc", r"void\s+report_t::normalize_period\(\)\s*\{"),
    ("times.cc:dump", "times.cc", r"void\s+date_interval_t::dump\(std::ostream& out\)\s*\{"),
]


def period_code():
    out = []
    for name, fname, sig in CODE:
        text = strip_comments(src(fname))
        body = strip_debug(function_body(text, sig))
        body = re.sub(r"#if !NO_ASSERTS.*?#endif", "", body, flags=re.S)
        out.append((name, norm_ws(body)))
    return out


def tables():
    text = strip_comments(src("times.cc"))
    spell, order = lexer_spellings(text)
    top, plural, singular, rejects_zero = parser_tables(text)
    kw = []
    for tok in order:
        if tok in top:
            for w in spell[tok]:
                kw.append((w, top[tok][0], top[tok][1]))
    need(len(kw) >= 7, "expected >= 7 period keywords, got %d" % len(kw))
    for tok in top:
        need(tok in spell, "parser keyword %s has no lexer spelling" % tok)
    pl = [(w, plural[t]) for t in order if t in plural for w in spell[t]]
    sg = [(w, singular[t]) for t in order if t in singular for w in spell[t]]
    need(len(pl) == 5 and len(sg) == 5, "every: spellings missing")
    for t in ("TOK_SINCE", "TOK_UNTIL", "TOK_IN", "TOK_EVERY"):
        need(t in spell, "lexer: no spelling for " + t)
    modelled = set(top) | set(plural) | set(singular) | {"TOK_SINCE", "TOK_UNTIL", "TOK_IN", "TOK_EVERY"}
    other = [w for t in order if t not in modelled for w in spell[t]]
    other += names_of(text, r"string_to_month_of_year") + names_of(text, r"string_to_day_of_week")
    return dict(kw=kw, pl=pl, sg=sg, rejects_zero=rejects_zero, spell=spell, other=sorted(set(other)))


def gen_period_keywords():
    t = tables()
    add = duration_add(strip_comments(src("times.h")))
    sl = lambda ws: lean_list([lean_str(w) for w in ws])
    L = ["/- GENERATED by tools/extract_period.py from src/times.cc, src/times.h, src/filters.cc, src/report.cc - do not edit. -/",
         "namespace Ledger.Gen", "",
         "/-- period keyword -> (quantum, length): lexer spelling composed with the parser case",
         "    (date_parser_t::parse, top-level `case TOK_...: period.duration = ...`). -/",
         "def periodKeywords : List (String × String × Nat) := " +
         lean_list(["(%s, %s, %d)" % (lean_str(w), lean_str(q), n) for w, q, n in t["kw"]]), "",
         "/-- `every N <word>`: the TOK_INT branch of the TOK_EVERY case. -/",
         "def everyPlural : List (String × String) := " + lean_list(["(%s, %s)" % (lean_str(w), lean_str(q)) for w, q in t["pl"]]), "",
         "/-- `every <word>` (length 1): the else branch of the TOK_EVERY case. -/",
         "def everySingular : List (String × String) := " + lean_list(["(%s, %s)" % (lean_str(w), lean_str(q)) for w, q in t["sg"]]), "",
         "/-- Does the parser refuse `every 0 <quantum>` before building the duration? -/",
         "def everyRejectsZero : Bool := %s" % ("true" if t["rejects_zero"] else "false"), "",
         "/-- Largest value of the integer token (`unsigned short`). -/",
         "def everyIntMax : Nat := 65535", "",
         "def sinceWords : List String := " + sl(t["spell"]["TOK_SINCE"]),
         "def untilWords : List String := " + sl(t["spell"]["TOK_UNTIL"]),
         "def inWords : List String := " + sl(t["spell"]["TOK_IN"]),
         "def everyWords : List String := " + sl(t["spell"]["TOK_EVERY"]), "",
         "/-- Words the lexer knows that are outside the modelled grammar (relative dates, month and weekday names). -/",
         "def otherWords : List String := " + sl(t["other"]), "",
         "/-- date_duration_t::add (times.h): quantum -> (boost duration type, multiplier of `length`). -/",
         "def durationAdd : List (String × String × Nat) := " +
         lean_list(["(%s, %s, %d)" % (lean_str(q), lean_str(u), k) for q, u, k in add]), "",
         "end Ledger.Gen"]
    return "\n".join(L) + "\n"


def gen_period_code():
    return gen_pairs("Normalised bodies (comments, DEBUG statements and whitespace removed) of the routines that "
                     "Model/Period.lean mirrors step by step.", "periodCode", period_code(),
                     "src/times.h, src/times.cc, src/filters.cc, src/report.cc (tools/extract_period.py)")


MORE = {"PeriodKeywords": gen_period_keywords, "PeriodCode": gen_period_code}

if __name__ == "__main__":
    print(gen_period_keywords())
    print(gen_period_code())
