"""Translator part of the tie for C10 (market valuation): re-extract from
/repo/src the code shapes and comparison operators the price-history model
(lean/LedgerModel/Model/Prices.lean) was written against.

Gen/Prices.lean gets
  * interpreted flags the model's definitions *use* (so a changed operator
    changes the model and breaks the theorems that need the flag's value):
      boundInclusive       recent_edge_weight picks the entry with `upper_bound(reftime)` then `--low`
                           (greatest date <= moment); `lower_bound` would mean `<`
      equalDateOverwrites  add_price replaces the entry already stored for the same moment
      listingInclusive     map_prices lists entries with `when <= moment`
      priceUnitIsPrimary   add_price marks the commodity of the *price* (the unit) COMMODITY_PRIMARY
      marketSkipsPrimary   amount_t::value without a target leaves a PRIMARY commodity alone
      costPriceAtMidnight  costs are recorded at datetime_t(date(), 00:00:00)
  * `shapes`: (name, normalised statement text) of every function body /
    statement the model mirrors (comments and DEBUG output removed);
    Model/PricesPinned.lean (written by `tools/repin.py Prices`) holds the copy
    the model was written against and `C10.source_pinned` compares them by `rfl`.
"""
import re
from extract import src, strip_comments, function_body, need, lean_str, norm_ws, ExtractError


def strip_debug(text):
    """Remove `#if DEBUG_ON … #endif` blocks and DEBUG(...) ; statements."""
    text = re.sub(r"#if\s+DEBUG_ON\b.*?#endif", "", text, flags=re.S)
    out = []
    i = 0
    n = len(text)
    while i < n:
        m = re.compile(r"\bDEBUG\s*\(").search(text, i)
        if not m:
            out.append(text[i:])
            break
        out.append(text[i:m.start()])
        j = m.end()
        depth = 1
        while j < n and depth:
            ch = text[j]
            if ch == '"':
                j += 1
                while text[j] != '"':
                    if text[j] == "\\":
                        j += 1
                    j += 1
            elif ch == "(":
                depth += 1
            elif ch == ")":
                depth -= 1
            j += 1
        while j < n and text[j] in " \t\r\n":
            j += 1
        need(j < n and text[j] == ";", "DEBUG(...) not followed by ';'")
        i = j + 1
    return "".join(out)


def clean(name):
    return strip_debug(strip_comments(src(name)))


def stmt_containing(body, needle, what):
    """The `;`-terminated statement (at any depth) that contains needle."""
    k = body.find(needle)
    need(k >= 0, what + ": `" + needle + "` not found")
    a = max(body.rfind(";", 0, k), body.rfind("{", 0, k), body.rfind("}", 0, k)) + 1
    b = body.find(";", k)
    need(b >= 0, what + ": unterminated statement")
    return norm_ws(body[a:b + 1])


def boost_shapes():
    """The boost routines whose tie behaviour Model/PriceRoute.lean mirrors (the headers ledger is built against)."""
    import os
    inc = None
    cache = os.path.join(os.environ.get("VERIF_BUILD") or os.path.join(os.path.dirname(os.path.dirname(os.path.abspath(__file__))), ".build"),
                         "hooks", "CMakeCache.txt")
    if os.path.exists(cache):
        mm = re.search(r"^Boost_INCLUDE_DIR[^=]*=(.+)$", open(cache).read(), flags=re.M)
        if mm and os.path.isdir(mm.group(1).strip()):
            inc = mm.group(1).strip()
    inc = inc or "/usr/include"

    def hdr(rel):
        path = os.path.join(inc, rel)
        need(os.path.exists(path), "boost header not found: " + path)
        with open(path, encoding="utf-8", errors="replace") as f:
            return strip_comments(f.read())
    out = {}
    ver = re.search(r'#define BOOST_LIB_VERSION "([^"]+)"', hdr("boost/version.hpp"))
    need(ver, "boost/version.hpp: BOOST_LIB_VERSION not found")
    out["boost.version"] = ver.group(1)
    rx = hdr("boost/graph/relax.hpp")
    out["boost.relax_target"] = norm_ws(function_body(rx, r"bool relax_target\(typename graph_traits< Graph >::edge_descriptor e,"))
    heap = hdr("boost/graph/detail/d_ary_heap.hpp")
    out["boost.d_ary_heap.push"] = norm_ws(function_body(heap, r"void push\(const Value& v\)\s*\{"))
    out["boost.d_ary_heap.pop"] = norm_ws(function_body(heap, r"void pop\(\)\s*\{"))
    out["boost.d_ary_heap.update"] = norm_ws(function_body(heap, r"void update\(const Value& v\)\s*\{"))
    out["boost.d_ary_heap.up"] = norm_ws(function_body(heap, r"void preserve_heap_property_up\(size_type index\)\s*\{"))
    out["boost.d_ary_heap.down"] = norm_ws(function_body(heap, r"void preserve_heap_property_down\(\)\s*\{"))
    m = re.search(r"static size_type parent\(size_type index\) \{ return \(index - 1\) / Arity; \}", heap)
    need(m, "d_ary_heap: parent() changed")
    m2 = re.search(r"static size_type first_child\(size_type index\)\s*\{\s*return index \* Arity \+ 1;\s*\}", heap)
    need(m2, "d_ary_heap: first_child() changed")
    out["boost.d_ary_heap.index"] = norm_ws(m.group(0)) + " " + norm_ws(m2.group(0))
    bfs = hdr("boost/graph/breadth_first_search.hpp")
    out["boost.breadth_first_visit"] = norm_ws(function_body(bfs, r"void breadth_first_visit\(const IncidenceGraph& g, SourceIterator sources_begin,"))
    dj = hdr("boost/graph/dijkstra_shortest_paths.hpp")
    m = re.search(r"typedef d_ary_heap_indirect< Vertex, (\d+), IndexInHeapMap, DistanceMap,\s*Compare >\s*MutableQueue;", dj)
    need(m and m.group(1) == "4", "dijkstra_shortest_paths: the queue is no longer a 4-ary indirect heap")
    out["boost.dijkstra.queue"] = norm_ws(m.group(0))
    out["boost.dijkstra.tree_edge"] = norm_ws(function_body(dj, r"template < class Edge, class Graph > void tree_edge\(Edge e, Graph& g\)\s*\{"))
    out["boost.dijkstra.gray_target"] = norm_ws(function_body(dj, r"template < class Edge, class Graph > void gray_target\(Edge e, Graph& g\)\s*\{"))
    return out


def shapes_and_flags():
    sh = {}
    fl = {}

    # ---- history.cc -------------------------------------------------------
    h = clean("history.cc")
    rec = function_body(h, r"bool\s+operator\(\)\(const Edge& e\) const\s*\{")
    sh["history.recent_edge_weight"] = norm_ws(rec)
    has_up = re.search(r"low\s*=\s*prices\.upper_bound\(reftime\)", rec) is not None
    has_lo = re.search(r"low\s*=\s*prices\.lower_bound\(reftime\)", rec) is not None
    need(has_up != has_lo, "history.cc recent_edge_weight: neither upper_bound(reftime) nor lower_bound(reftime)")
    need(re.search(r"if\s*\(low != prices\.end\(\) && low == prices\.begin\(\)\)\s*\{\s*return false;\s*\}\s*else\s*\{\s*--low;", rec),
         "history.cc recent_edge_weight: begin-check / --low shape changed")
    fl["boundInclusive"] = (has_up, "history.cc 230-235: `prices.upper_bound(reftime)` then `--low` selects the greatest date <= the moment "
                                     "(true); `lower_bound` would select the greatest date < the moment (false)")

    add = function_body(h, r"void\s+commodity_history_impl_t::add_price\(const commodity_t& source,\s*const datetime_t&\s+when,\s*const amount_t&\s+price\)\s*\{")
    sh["history.add_price"] = norm_ws(add)
    need("prices.insert(price_map_t::value_type(when, price))" in norm_ws(add), "history.cc add_price: insert shape changed")
    over = re.search(r"if\s*\(!\s*result\.second\)\s*\{\s*\(\*result\.first\)\.second\s*=\s*price;\s*\}", add) is not None
    fl["equalDateOverwrites"] = (over, "history.cc 293-298: an entry already stored for the same moment on the same edge is replaced (last writer wins)")

    fp = h.split("commodity_history_impl_t::find_price(")
    need(len(fp) == 3, "history.cc: expected two commodity_history_impl_t::find_price definitions")
    one = function_body("X(" + fp[1], r"X\(const commodity_t& source,\s*const datetime_t&\s+moment,\s*const datetime_t&\s+oldest\)\s*\{")
    two = function_body("X(" + fp[2], r"X\(const commodity_t& source,\s*const commodity_t& target,\s*const datetime_t&\s+moment,\s*const datetime_t&\s+oldest\)\s*\{")
    sh["history.find_price.source"] = norm_ws(one)
    sh["history.find_price.source_target"] = norm_ws(two)
    need("price.is_null() || point.when > most_recent" in norm_ws(one), "history.cc find_price(source): selection test changed")
    # route choice on general graphs: Dijkstra with max as distance_combine, default compare / zero / inf
    fm = re.search(r"template <typename T>\s*struct f_max.*?\{\s*T operator\(\)\(const T& x, const T& y\) const \{\s*return std::max\(x, y\);\s*\}\s*\};", h, flags=re.S)
    need(fm, "history.cc: f_max changed")
    sh["history.f_max"] = norm_ws(re.sub(r"#if.*?#endif", "", fm.group(0), flags=re.S))
    dj = re.search(r"dijkstra_shortest_paths\(fg,\s*sv,\s*predecessor_map\(predecessorMap\)\s*\.distance_map\(distanceMap\)\s*\.distance_combine\(f_max<long>\(\)\)\);", two)
    need(dj, "history.cc find_price(source,target): dijkstra_shortest_paths call changed")
    sh["history.dijkstra_call"] = norm_ws(dj.group(0))
    gt = re.search(r"typedef adjacency_list\s*<vecS,\s*vecS,\s*undirectedS,", h)
    need(gt, "history.cc: the price graph is no longer adjacency_list<vecS, vecS, undirectedS>")
    sh["history.graph_type"] = norm_ws(gt.group(0))
    sh.update(boost_shapes())
    need("if (pprice.commodity_ptr() != last_target) price *= pprice.inverted(); else price *= pprice;" in norm_ws(two),
         "history.cc find_price(source,target): direction test changed")

    mp = function_body(h, r"void\s+commodity_history_impl_t::map_prices\(")
    g = re.search(r"if\s*\(\(oldest\.is_not_a_date_time\(\) \|\| when >= oldest\) && when (<=|<) moment\)", mp)
    need(g, "history.cc map_prices: date guard changed")
    sh["history.map_prices.guard"] = norm_ws(g.group(0))
    sh["history.map_prices.direction"] = stmt_containing(mp, "if (pair.second.commodity() == source)", "history.cc map_prices")[:60]
    fl["listingInclusive"] = (g.group(1) == "<=", "history.cc 352: map_prices lists the entries with `when <= moment`")

    # ---- commodity.cc / commodity.h -----------------------------------------
    c = clean("commodity.cc")
    cadd = function_body(c, r"void\s+commodity_t::add_price\(const datetime_t& date, const amount_t& price,\s*const bool reflexive\)\s*\{")
    sh["commodity.add_price"] = norm_ws(cadd)
    prim_unit = re.search(r"if\s*\(reflexive\)\s*\{\s*price\.commodity\(\)\.add_flags\(COMMODITY_PRIMARY\);\s*\}\s*else\s*\{\s*add_flags\(COMMODITY_PRIMARY\);\s*\}", cadd)
    need(prim_unit, "commodity.cc add_price: COMMODITY_PRIMARY marking changed")
    ch = strip_comments(src("commodity.h"))
    d = re.search(r"void add_price\(const datetime_t& date, const amount_t& price,\s*const bool reflexive = (true|false)\);", ch)
    need(d, "commodity.h add_price: default of `reflexive` not found")
    sh["commodity.h.add_price"] = norm_ws(d.group(0))
    cfind = function_body(c, r"commodity_t::find_price\(const commodity_t \* commodity,\s*const datetime_t&\s+moment,\s*const datetime_t&\s+oldest\) const\s*\{")
    sh["commodity.find_price"] = norm_ws(cfind)
    # the memo of find_price: key type, map type, bound (commodity.h 108-114); exact `find` on the key in the body above
    m = re.search(r"typedef tuple<datetime_t, datetime_t,\s*const commodity_t \*> memoized_price_entry;\s*"
                  r"typedef std::map<memoized_price_entry,\s*optional<price_point_t> > memoized_price_map;\s*"
                  r"static const std::size_t\s+max_price_map_size = \d+;\s*mutable memoized_price_map price_map;", ch)
    need(m, "commodity.h: memoized price map declarations changed")
    sh["commodity.h.price_memo"] = norm_ws(m.group(0))
    need("base->price_map.find(entry)" in norm_ws(cfind) and "base_t::memoized_price_entry entry(moment, oldest, commodity ? commodity : NULL);" in norm_ws(cfind),
         "commodity.cc find_price: memo key / exact lookup changed")

    # ---- pool.cc ----------------------------------------------------------------
    p = clean("pool.cc")
    ex1 = function_body(p, r"void commodity_pool_t::exchange\(commodity_t&\s+commodity,\s*const amount_t&\s+per_unit_cost,\s*const datetime_t& moment\)\s*\{")
    sh["pool.exchange.add"] = norm_ws(ex1)
    ex2 = function_body(p, r"commodity_pool_t::exchange\(const amount_t&\s+amount,\s*const amount_t&\s+cost,")
    sh["pool.exchange"] = norm_ws(ex2)
    sh["pool.exchange.per_unit_cost"] = stmt_containing(ex2, "amount_t per_unit_cost =", "pool.cc exchange")
    m = re.search(r"if\s*\(add_price &&.*?\)\s*\{\s*exchange\(commodity, per_unit_cost, moment \? \*moment : CURRENT_TIME\(\)\);\s*\}", ex2, flags=re.S)
    need(m, "pool.cc exchange: add_price guard changed")
    sh["pool.exchange.guard"] = norm_ws(m.group(0))
    ppd = function_body(p, r"commodity_pool_t::parse_price_directive\s*\(char \* line, bool do_not_add_price, bool no_date\)\s*\{")
    sh["pool.parse_price_directive"] = norm_ws(ppd)
    pd = re.search(r"commodity->add_price\(point\.when, point\.price(, (true|false))?\);", ppd)
    need(pd, "pool.cc parse_price_directive: add_price call changed")
    refl_default = d.group(1) == "true"
    p_reflexive = refl_default if pd.group(2) is None else pd.group(2) == "true"
    cost_call = re.search(r"base_commodity\.add_price\(moment, per_unit_cost(, (true|false))?\);", ex1)
    need(cost_call, "pool.cc exchange: add_price call changed")
    c_reflexive = refl_default if cost_call.group(2) is None else cost_call.group(2) == "true"
    need(p_reflexive == c_reflexive, "P directives and costs mark different commodities PRIMARY: the model has one rule")
    fl["priceUnitIsPrimary"] = (p_reflexive, "commodity.cc 45-55, commodity.h 240, pool.cc 233/361: every recorded price marks the commodity of the "
                                             "price amount (the unit) COMMODITY_PRIMARY (true) rather than the priced commodity (false)")

    # ---- amount.cc / balance.cc -----------------------------------------------------
    a = clean("amount.cc")
    val = function_body(a, r"amount_t::value\(const datetime_t&\s+moment,\s*const commodity_t \* in_terms_of\) const\s*\{")
    sh["amount.value"] = norm_ws(val)
    need("price.multiply(*this, true); price.in_place_round(); return price;" in norm_ws(val), "amount.cc value(): multiplication shape changed")
    skip = re.search(r"if\s*\(has_commodity\(\) &&\s*\(in_terms_of \|\| ! commodity\(\)\.has_flags\(COMMODITY_PRIMARY\)\)\)", val) is not None
    fl["marketSkipsPrimary"] = (skip, "amount.cc 769-770: without a target commodity (-V) a COMMODITY_PRIMARY commodity is not revalued")
    mul = function_body(a, r"amount_t& amount_t::multiply\(const amount_t& amt, bool ignore_commodity\)\s*\{")
    sh["amount.multiply.quantity"] = stmt_containing(mul, "mpq_mul(", "amount.cc multiply")
    inv = function_body(a, r"void amount_t::in_place_invert\(\)\s*\{")
    sh["amount.in_place_invert"] = norm_ws(inv)
    b = clean("balance.cc")
    sh["balance.value"] = norm_ws(function_body(b, r"balance_t::value\(const datetime_t&\s+moment,\s*const commodity_t \* in_terms_of\) const\s*\{"))
    an = clean("annotate.cc")
    sh["annotate.find_price"] = norm_ws(function_body(an, r"annotated_commodity_t::find_price\(const commodity_t \* commodity,"))

    # ---- xact.cc / textual.cc -----------------------------------------------------
    x = clean("xact.cc")
    xc = re.search(r"commodity_pool_t::current_pool->exchange\(\s*post->amount, \*post->cost, (true|false), ! post->has_flags\(POST_COST_VIRTUAL\),\s*"
                   r"datetime_t\(date\(\), time_duration\((\d+), (\d+), (\d+), (\d+)\)\)\);", x)
    need(xc, "xact.cc finalize: exchange(...) call changed")
    sh["xact.exchange_call"] = norm_ws(xc.group(0))
    fl["costPriceAtMidnight"] = (xc.group(1) == "false" and all(int(xc.group(k)) == 0 for k in (2, 3, 4, 5)),
                                 "xact.cc 296-299: a posting cost is passed as a total (is_per_unit=false) and recorded at 00:00:00 of the transaction date")
    t = clean("textual.cc")
    m = re.search(r"case 'P':\s*price_xact_directive\(line\);\s*break;", t)
    need(m, "textual.cc: `case 'P'` dispatch changed")
    sh["textual.case_P"] = norm_ws(m.group(0))
    sh["textual.price_xact_directive"] = norm_ws(function_body(t, r"void instance_t::price_xact_directive\(char \* line\)\s*\{"))
    sh["textual.cost.per_unit"] = stmt_containing(t, "*post->cost *= post->amount;", "textual.cc cost")
    m = re.search(r"else if \(post->amount\.sign\(\) < 0\)\s*\{\s*post->cost->in_place_negate\(\);\s*\}", t)
    need(m, "textual.cc: total-cost sign handling changed")
    sh["textual.cost.total_sign"] = norm_ws(m.group(0))

    # ---- report.cc / report.h --------------------------------------------------------
    r = clean("report.cc")
    sh["report.fn_market"] = norm_ws(function_body(r, r"value_t report_t::fn_market\(call_scope_t& args\)\s*\{"))
    m = re.search(r"if \(is_eq\(p, \"value_date\"\)\)\s*return MAKE_FUNCTOR\(report_t::fn_now\);", r)
    need(m, "report.cc: value_date no longer resolves to fn_now")
    sh["report.value_date"] = norm_ws(m.group(0))
    rh = strip_comments(src("report.h"))
    m = re.search(r"OPTION_\(report_t, now_, DO_\(str\) \{(.*?)\}\);", rh, flags=re.S)
    need(m, "report.h: --now handler not found")
    sh["report.now_"] = norm_ws(m.group(1))
    m = re.search(r"OPTION_\(report_t, market, DO\(\) \{(.*?)\}\);", rh, flags=re.S)
    need(m, "report.h: --market handler not found")
    sh["report.market"] = norm_ws(m.group(1))
    m = re.search(r"OPTION_\(report_t, exchange_, DO_\(str\) \{(.*?)\}\);", rh, flags=re.S)
    need(m, "report.h: --exchange handler not found")
    sh["report.exchange_"] = norm_ws(m.group(1))
    v = clean("value.cc")
    ec = function_body(v, r"value_t value_t::exchange_commodities\(const std::string& commodities,")
    sh["value.exchange_commodities.single"] = stmt_containing(ec, "return value(moment, commodity_pool_t::current_pool->find_or_create(commodities));",
                                                              "value.cc exchange_commodities")
    return sh, fl


def gen_prices():
    sh, fl = shapes_and_flags()
    lines = ["/- GENERATED by tools/extract_prices.py from src/{history,commodity,pool,amount,balance,annotate,xact,textual,report,value}.cc - do not edit. -/",
             "namespace Ledger.Gen.Prices", ""]
    for name in sorted(fl):
        val, doc = fl[name]
        lines += ["/-- %s -/" % doc, "def %s : Bool := %s" % (name, "true" if val else "false"), ""]
    lines += ["/-- (name, normalised code text) of the statements the price-history model mirrors,",
              "    as found in the working tree (comments and DEBUG output removed). -/",
              "def shapes : List (String × String) := ["]
    lines.append(",\n".join("  (%s, %s)" % (lean_str(k), lean_str(v)) for k, v in sorted(sh.items())))
    lines += ["]", "", "end Ledger.Gen.Prices"]
    return "\n".join(lines) + "\n"


MORE = {"Prices": gen_prices}

if __name__ == "__main__":
    print(gen_prices())
