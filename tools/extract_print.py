"""Translator part of C06: re-extract the code that Model/Print.lean mirrors from
/repo/src into lean/LedgerModel/Gen/Print.lean:

  Ledger.Gen.printFns : List (String × String)   normalised, comment-stripped bodies
      print.cc:post_has_simple_amount   the rule for eliding the second amount
      print.cc:print_note               note placement (same line / next line)
      print.cc:format_account_name      state mark + virtual brackets
      print.cc:print_xact               header, column arithmetic, cost reconstruction, assignment
      filters.cc:subtotal_posts::operator()        accumulation per account (equity)
      filters.cc:create_post_from_amount           balancing postings
      filters.cc:posts_as_equity::report_subtotal  the Opening Balances transaction
      filters.cc:handle_value           virtual brackets of the generated postings
      textual.cc:parse_xact             the header / body reader
      textual.cc:parse_post[-assign]    the posting reader with the balance-assignment block cut out
                                        (that block belongs to C09 and is not mirrored here)
      utils.h:next_element, utils.h:skip_ws
      value.cc:print[AMOUNT]            `0` for a display-zero amount, right justification
  Ledger.Gen.printAccountWidth / printAmountWidth / printColumns : Nat
      the defaults in print_xact (36, 12, 80); Model/PrintProto.lean renders with them and
      Props/C06.lean states `C06.layout_pinned`.
  Ledger.Gen.printMarkWhenStateDiffers / printElideChecksMustBalance / printPadsOnlyWithAmount : Bool
      which of two recognised forms three statements of print.cc have (the pinned, defective one = false; the
      repaired one = true).  The model and the theorems are parametric in them (`Layout`), so a repair of
      print.cc of the recognised form needs only `tools/repin.py Print`, not a new model:
        format_account_name   `if (xact.state() == item_t::UNCLEARED)`   ->   `if (post->state() != xact.state())`
        print_xact elision    `count == 2 && index == 2 && …`            ->   the same with `post->must_balance() &&
                                                                              (*xact.posts.begin())->must_balance()` among the conjuncts
        print_xact padding    `if (slip + amt_slip < 2)`                 ->   `if (! amt.empty() && slip + amt_slip < 2)`

Props/C06.lean proves `Gen.printFns = Pinned.printFns` by `rfl` (Model/PrintPinned.lean is the
copy the model was written against; refreshed by hand with `tools/repin.py Print`).
"""
import re
from extract import need, pin_functions, gen_pairs, src, strip_comments, function_body, norm_ws, lean_str

PRINT_FNS = [
    ("print.cc:post_has_simple_amount", r"bool\s+post_has_simple_amount\(const post_t& post\)\s*\{"),
    ("print.cc:print_note", r"void\s+print_note\(std::ostream&\s+out,\s*const string&\s+note,\s*const bool\s+note_on_next_line,"
                            r"\s*const std::size_t\s+columns,\s*const std::size_t\s+prior_width\)\s*\{"),
    ("print.cc:format_account_name", r"std::ostringstream\s+format_account_name\(xact_t& xact, post_t \* post\)\s*\{"),
    ("print.cc:print_xact", r"void\s+print_xact\(report_t& report, std::ostream& out, xact_t& xact\)\s*\{"),
]
FILTER_FNS = [
    ("filters.cc:subtotal_posts::operator()", r"void\s+subtotal_posts::operator\(\)\(post_t& post\)\s*\{"),
    ("filters.cc:create_post_from_amount", r"void\s+operator\(\)\(const amount_t& amount\)\s*\{(?=\s*if\s*\(\s*amount\.is_zero\(\)\))"),
    ("filters.cc:posts_as_equity::report_subtotal", r"void\s+posts_as_equity::report_subtotal\(\)\s*\{"),
    ("filters.cc:handle_value", r"void\s+handle_value\(const value_t&\s+value,"),
]
TEXTUAL_FNS = [
    ("textual.cc:parse_xact", r"xact_t \*\s+instance_t::parse_xact\(char \*\s+line,\s*std::streamsize\s+len,\s*account_t \*\s+account,"
                              r"\s*xact_t \*\s+previous_xact\)\s*\{"),
]
UTILS_FNS = [
    ("utils.h:skip_ws", r"inline char \* skip_ws\(char \* ptr\)\s*\{"),
    ("utils.h:next_element", r"inline char \* next_element\(char \* buf, bool variable = false\)\s*\{"),
]


def parse_post_without_assign():
    text = strip_comments(src("textual.cc"))
    body = norm_ws(function_body(text, r"post_t \*\s+instance_t::parse_post\(char \*\s+line,\s*std::streamsize\s+len,"
                                       r"\s*account_t \*\s+account,\s*xact_t \*\s+xact,\s*bool\s+defer_expr\)\s*\{"))
    a = body.find("if (xact && next && *next == '=') {")
    b = body.find("if (next && *next == ';') {")
    need(a >= 0, "textual.cc parse_post: balance assignment block `if (xact && next && *next == '=')` not found")
    need(b > a, "textual.cc parse_post: note block `if (next && *next == ';')` not found after the assignment block")
    return body[:a] + "/*assign*/ " + body[b:]


def value_print_amount_case():
    text = strip_comments(src("value.cc"))
    body = norm_ws(function_body(text, r"void\s+value_t::print\(std::ostream&\s+_out,\s*const int\s+first_width,"
                                       r"\s*const int\s+latter_width,\s*const uint_least8_t\s+flags\) const\s*\{"))
    m = re.search(r"case AMOUNT: \{ (.*?) break; \}", body)
    need(m, "value.cc value_t::print: `case AMOUNT: { … break; }` not found")
    return m.group(1)


def width_defaults():
    body = dict(pin_functions("print.cc", PRINT_FNS))["print.cc:print_xact"]
    out = {}
    for key, opt in (("printAccountWidth", "account_width_"), ("printAmountWidth", "amount_width_"), ("printColumns", "columns_")):
        m = re.search(r"report\.HANDLED\(%s\) \? lexical_cast<std::size_t>\(report\.HANDLER\(%s\)\.str\(\)\) : (\d+)\)" % (opt, opt), body)
        need(m, "print.cc print_xact: default of --%s not found" % opt.rstrip("_").replace("_", "-"))
        out[key] = int(m.group(1))
    return out


MARK_TEXT = 'pbuf << (post->state() == item_t::CLEARED ? "* " : (post->state() == item_t::PENDING ? "! " : ""));'
ELIDE_BASE = ["count == 2", "index == 2", "post_has_simple_amount(*post)", "post_has_simple_amount(*(*xact.posts.begin()))",
              "((*xact.posts.begin())->amount.commodity() == post->amount.commodity())"]
ELIDE_MB = ["post->must_balance()", "(*xact.posts.begin())->must_balance()"]


def rule_flags():
    """three places where the pinned print.cc violates C06 and the repaired form is known: recognise which form the
    source has (anything else is an unknown shape and breaks the tie)."""
    d = dict(pin_functions("print.cc", PRINT_FNS))
    fa = d["print.cc:format_account_name"]
    if "if (xact.state() == item_t::UNCLEARED) " + MARK_TEXT in fa:
        mark = False
    elif re.search(r"if \((post->state\(\) != xact\.state\(\)|xact\.state\(\) != post->state\(\))\) " + re.escape(MARK_TEXT), fa):
        mark = True
    else:
        raise_shape("print.cc format_account_name: the condition under which a posting's state mark is written is neither "
                    "`xact.state() == item_t::UNCLEARED` nor `post->state() != xact.state()`")
    px = d["print.cc:print_xact"]
    m = re.search(r"else if \((count == 2 && .*?)\) \{ \} else \{", px)
    need(m, "print.cc print_xact: the branch that elides the second amount (`else if (count == 2 && …) { }`) not found")
    conj = [c.strip() for c in m.group(1).split("&&")]
    if sorted(conj) == sorted(ELIDE_BASE):
        elide = False
    elif sorted(conj) == sorted(ELIDE_BASE + ELIDE_MB):
        elide = True
    else:
        raise_shape("print.cc print_xact: unrecognised condition for eliding the second amount: " + m.group(1))
    if "if (slip + amt_slip < 2) amtbuf << string(2 - (slip + amt_slip), ' ');" in px:
        pad = False
    elif re.search(r"if \(! ?amt\.empty\(\) && slip \+ amt_slip < 2\) amtbuf << string\(2 - \(slip \+ amt_slip\), ' '\);", px):
        pad = True
    else:
        raise_shape("print.cc print_xact: unrecognised padding statement before the amount (`if (slip + amt_slip < 2) …`)")
    return {"printMarkWhenStateDiffers": mark, "printElideChecksMustBalance": elide, "printPadsOnlyWithAmount": pad}


def raise_shape(msg):
    need(False, msg)


def pairs():
    out = pin_functions("print.cc", PRINT_FNS) + pin_functions("filters.cc", FILTER_FNS) + \
        pin_functions("textual.cc", TEXTUAL_FNS)
    out.append(("textual.cc:parse_post[-assign]", parse_post_without_assign()))
    out += pin_functions("utils.h", UTILS_FNS)
    out.append(("value.cc:print[AMOUNT]", value_print_amount_case()))
    return out


def gen_print():
    txt = gen_pairs("Normalised text of the print / equity / reader code that Model/Print.lean mirrors.",
                    "printFns", pairs(), "src/print.cc, src/filters.cc, src/textual.cc, src/utils.h, src/value.cc (tools/extract_print.py)")
    w = width_defaults()
    extra = ["", "namespace Ledger.Gen", ""]
    docs = {"printAccountWidth": "print.cc print_xact: default `--account-width`.",
            "printAmountWidth": "print.cc print_xact: default `--amount-width`.",
            "printColumns": "print.cc print_xact: default `--columns`."}
    for k in ("printAccountWidth", "printAmountWidth", "printColumns"):
        extra += ["/-- %s -/" % docs[k], "def %s : Nat := %d" % (k, w[k]), ""]
    fl = rule_flags()
    fdocs = {"printMarkWhenStateDiffers": "print.cc format_account_name: is a posting's state mark written whenever it differs from the "
                                          "transaction's state (true) or only under an uncleared transaction (false, the pinned code)?",
             "printElideChecksMustBalance": "print.cc print_xact: does the rule that elides the second amount require both postings to "
                                            "balance (true) or not (false, the pinned code)?",
             "printPadsOnlyWithAmount": "print.cc print_xact: are the two padding blanks written only in front of an amount (true) or also "
                                        "when the amount is elided (false, the pinned code)?"}
    for k in ("printMarkWhenStateDiffers", "printElideChecksMustBalance", "printPadsOnlyWithAmount"):
        extra += ["/-- %s -/" % fdocs[k], "def %s : Bool := %s" % (k, "true" if fl[k] else "false"), ""]
    extra.append("end Ledger.Gen")
    return txt + "\n".join(extra) + "\n"


MORE = {"Print": gen_print}

if __name__ == "__main__":
    import sys
    sys.stdout.write(gen_print())
