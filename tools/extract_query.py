"""Translator part of C07: re-extract from /repo/src

  Gen/QueryKeywords.lean  query.cc lexer (next_token): the single-character
                          tokens, the `=` rule, the quote characters, the
                          characters that end an identifier, the keyword table
                          of `test_ident`, and the shape of the query parser
                          (which token each parse_* level loops on, which level
                          it calls, which node it builds; the identifier each
                          context matches against; juxtaposition operator).
  Gen/BeginEnd.lean       report.h: the predicate templates --begin/--end build,
                          the fixed predicates of --real/--cleared/--pending/
                          --uncleared/--actual/--current, how --limit combines
                          repeated uses; report.cc normalize_period templates.

Every extractor asserts the shape it expects (ExtractError otherwise).
"""
import re
from extract import src, strip_comments, function_body, need, lean_str, lean_list, ExtractError, pin_functions, gen_pairs, norm_ws


def _strip_comments_keep_strings(text):
    """strip // and /* */ comments, but not inside string / char literals."""
    out = []
    i, n = 0, len(text)
    while i < n:
        c = text[i]
        if c == '"' or c == "'":
            j = i + 1
            while j < n and text[j] != c:
                if text[j] == "\\":
                    j += 1
                j += 1
            out.append(text[i:j + 1])
            i = j + 1
        elif text.startswith("//", i):
            while i < n and text[i] != "\n":
                i += 1
        elif text.startswith("/*", i):
            j = text.find("*/", i + 2)
            i = n if j < 0 else j + 2
        else:
            out.append(c)
            i += 1
    return "".join(out)


def _c_char(lit):
    """C character literal body -> the character."""
    esc = {"\\'": "'", '\\"': '"', "\\\\": "\\", "\\t": "\t", "\\n": "\n", "\\r": "\r", "\\0": "\0"}
    if lit in esc:
        return esc[lit]
    need(len(lit) == 1, "query.cc: unexpected character literal %r" % lit)
    return lit


def lean_char(c):
    m = {"'": "'\\''", "\\": "'\\\\'", "\t": "'\\t'", "\n": "'\\n'", "\r": "'\\r'", '"': "'\"'"}
    return m.get(c, "'%s'" % c)


CHAR_RE = r"'((?:\\.|[^'\\]))'"


def gen_query_keywords():
    text = _strip_comments_keep_strings(src("query.cc"))
    body = function_body(text, r"query_t::lexer_t::next_token\(query_t::lexer_t::token_t::kind_t tok_context\)\s*\{")

    # --- quoted patterns: first switch, cases before `string pat;`
    m = re.search(r"resume:\s*switch \(\*arg_i\) \{(.*?)string\s+pat;", body, flags=re.S)
    need(m, "query.cc next_token: first switch (quoted patterns) not found")
    quotes = [_c_char(c) for c in re.findall(r"case " + CHAR_RE + r":", m.group(1))]
    quotes = [c for c in quotes if c != "\0"]
    need(quotes, "query.cc next_token: no quote characters")
    need(re.search(r"if \(\*arg_i == '\\\\'\)\s*\{\s*if \(\+\+arg_i == arg_end\)", body),
         "query.cc next_token: backslash escape inside quoted pattern not found")
    need("Match pattern is empty" in body and "at end of pattern" in body, "query.cc next_token: quoted-pattern errors changed")

    # --- whole-argument consumption after `expr`
    need(re.search(r"if \(multiple_args && consume_next_arg\) \{\s*consume_next_arg = false;\s*"
                   r"token_t tok\(token_t::TERM, string\(arg_i, arg_end\)\);", body),
         "query.cc next_token: consume_next_arg branch changed")
    need(body.index("string pat;") < body.index("if (multiple_args && consume_next_arg)"),
         "query.cc next_token: quoted patterns no longer precede consume_next_arg")

    # --- second switch: whitespace and single-character tokens
    m = re.search(r"bool consume_next = false;\s*switch \(\*arg_i\) \{(.*?)case '\\\\':", body, flags=re.S)
    need(m, "query.cc next_token: second switch not found")
    sw = m.group(1)
    mws = re.search(r"((?:case " + CHAR_RE + r":\s*)+)if \(\+\+arg_i == arg_end\)\s*return next_token\(tok_context\);\s*goto resume;", sw)
    need(mws, "query.cc next_token: whitespace cases not found")
    ws = [_c_char(c) for c in re.findall(CHAR_RE, mws.group(1))]
    singles = []
    for mm in re.finditer(r"case " + CHAR_RE + r":\s*\+\+arg_i;\s*(?:if \(tok_context == token_t::TOK_EXPR\)\s*consume_whitespace = (?:true|false);\s*)?"
                          r"return token_t\(token_t::([A-Z_]+)\);", sw):
        singles.append((_c_char(mm.group(1)), mm.group(2)))
    need(len(singles) >= 2, "query.cc next_token: single-character tokens not found")
    meq = re.search(r"case '=':\s*if \(arg_i == \(\*begin\)\.as_string\(\)\.begin\(\)\) \{\s*\+\+arg_i;\s*return token_t\(token_t::([A-Z_]+)\);\s*\}"
                    r"\s*\+\+arg_i;\s*consume_next = true;\s*return token_t\(token_t::([A-Z_]+)\);", sw)
    need(meq, "query.cc next_token: '=' rule not found")
    cases_in_sw = set(_c_char(c) for c in re.findall(r"case " + CHAR_RE + r":", sw)) - {"\0"}
    accounted = set(ws) | set(c for c, _ in singles) | {"="}
    need(cases_in_sw == accounted, "query.cc next_token: unrecognised case in the character switch: %r" % sorted(cases_in_sw ^ accounted))

    # --- identifier scan: which characters end an identifier
    m = re.search(r"case '\\\\':\s*consume_next = true;\s*\+\+arg_i;\s*default: \{\s*string ident;\s*"
                  r"for \(; arg_i != arg_end; \+\+arg_i\) \{\s*switch \(\*arg_i\) \{(.*?)\}\s*\}\s*consume_whitespace = false;\s*test_ident:", body, flags=re.S)
    need(m, "query.cc next_token: identifier scan not found")
    scan = m.group(1)
    mw = re.search(r"((?:case " + CHAR_RE + r":\s*)+)if \(! multiple_args && ! consume_whitespace && ! consume_next_arg\)\s*goto test_ident;\s*else\s*ident\.push_back\(\*arg_i\);\s*break;", scan)
    need(mw, "query.cc next_token: whitespace inside identifiers changed")
    ident_ws = [_c_char(c) for c in re.findall(CHAR_RE, mw.group(1))]
    mr = re.search(r"case '\)':\s*if \(unbalanced_braces\(ident\)\)\s*consume_next = true;\s*if \(! consume_next && tok_context == token_t::TOK_EXPR\)\s*goto test_ident;\s*"
                   r"((?:case " + CHAR_RE + r":\s*)+)if \(! consume_next && tok_context != token_t::TOK_EXPR\)\s*goto test_ident;\s*default:\s*ident\.push_back\(\*arg_i\);\s*break;", scan)
    need(mr, "query.cc next_token: identifier stop characters changed")
    stops = [")"] + [_c_char(c) for c in re.findall(CHAR_RE, mr.group(1))]

    # --- keyword table
    mk = re.search(r"test_ident:(.*?)else\s*return token_t\(token_t::TERM, ident\);", body, flags=re.S)
    need(mk, "query.cc next_token: test_ident chain not found")
    chain = mk.group(1)
    kws = []
    pos = 0
    for mm in re.finditer(r'(?:else )?if \(ident == "([a-z]+)"\)\s*(\{[^}]*\}|return token_t\(token_t::[A-Z_]+\);)', chain):
        need(chain[pos:mm.start()].strip() == "", "query.cc test_ident: unrecognised text %r" % chain[pos:mm.start()].strip()[:60])
        pos = mm.end()
        mt = re.search(r"return token_t\(token_t::([A-Z_]+)\);", mm.group(2))
        need(mt, "query.cc test_ident: no token for keyword " + mm.group(1))
        sets_next = "consume_next_arg = true;" in mm.group(2)
        kws.append((mm.group(1), mt.group(1), sets_next))
    need(chain[pos:].strip() == "", "query.cc test_ident: unrecognised tail %r" % chain[pos:].strip()[:60])
    need(len(kws) >= 5, "query.cc test_ident: keyword table too short")
    next_arg_kws = [k for k, t, s in kws if s]

    # --- parser shape
    ladder = []
    for fn, tok_re in (("parse_or_expr", None), ("parse_and_expr", None)):
        b = function_body(text, r"query_t::parser_t::%s\(lexer_t::token_t::kind_t tok_context\)\s*\{" % fn)
        mm = re.search(r"if \(expr_t::ptr_op_t node = (parse_[a-z_]+)\(tok_context\)\) \{\s*while \(true\) \{\s*lexer_t::token_t tok = lexer\.next_token\(tok_context\);\s*"
                       r"if \(tok\.kind == lexer_t::token_t::([A-Z_]+)\) \{\s*expr_t::ptr_op_t prev\(node\);\s*node = new expr_t::op_t\(expr_t::op_t::([A-Z_]+)\);\s*"
                       r"node->set_left\(prev\);\s*node->set_right\((parse_[a-z_]+)\(tok_context\)\);", b)
        need(mm, "query.cc %s: loop shape changed" % fn)
        need(mm.group(1) == mm.group(4), "query.cc %s: left and right operands come from different levels" % fn)
        ladder.append((fn, mm.group(2), mm.group(3), mm.group(1)))
    b = function_body(text, r"query_t::parser_t::parse_unary_expr\(lexer_t::token_t::kind_t tok_context\)\s*\{")
    mm = re.search(r"case lexer_t::token_t::([A-Z_]+): \{\s*expr_t::ptr_op_t term\((parse_[a-z_]+)\(tok_context\)\);.*?node = new expr_t::op_t\(expr_t::op_t::([A-Z_]+)\);\s*node->set_left\(term\);", b, flags=re.S)
    need(mm, "query.cc parse_unary_expr: shape changed")
    md = re.search(r"default:\s*lexer\.push_token\(tok\);\s*node = (parse_[a-z_]+)\(tok_context\);", b)
    need(md and md.group(1) == mm.group(2), "query.cc parse_unary_expr: default case changed")
    ladder.append(("parse_unary_expr", mm.group(1), mm.group(3), mm.group(2)))
    b = function_body(text, r"query_t::parser_t::parse_query_expr\(lexer_t::token_t::kind_t tok_context,\s*bool\s+subexpression\)\s*\{")
    mm = re.search(r"while \(expr_t::ptr_op_t next = (parse_[a-z_]+)\(tok_context\)\) \{\s*if \(! limiter\) \{\s*limiter = next;\s*\} else \{\s*expr_t::ptr_op_t prev\(limiter\);\s*"
                   r"limiter = new expr_t::op_t\(expr_t::op_t::([A-Z_]+)\);\s*limiter->set_left\(prev\);\s*limiter->set_right\(next\);", b)
    need(mm, "query.cc parse_query_expr: juxtaposition loop changed")
    juxta = (mm.group(1), mm.group(2))
    sections = re.findall(r"case lexer_t::token_t::(TOK_[A-Z]+):\s*kind = (QUERY_[A-Z]+);", b)
    need(len(sections) == 3, "query.cc parse_query_expr: show/only/bold sections changed")
    need(re.search(r"query_map\.insert\s*\(query_map_t::value_type\s*\(QUERY_LIMIT, predicate_t\(limiter, what_to_keep\)\.print_to_str\(\)\)\);", b),
         "query.cc parse_query_expr: QUERY_LIMIT insertion changed")

    b = function_body(text, r"query_t::parser_t::parse_query_term\(query_t::lexer_t::token_t::kind_t tok_context\)\s*\{")
    idents = re.findall(r"case lexer_t::token_t::(TOK_[A-Z]+):\s*ident->set_ident\(\"([a-z_]+)\"\); break;", b)
    need(len(idents) == 4, "query.cc parse_query_term: context identifiers changed")
    mm = re.search(r"case lexer_t::token_t::TOK_META: \{\s*node = new expr_t::op_t\(expr_t::op_t::O_CALL\);\s*expr_t::ptr_op_t ident = new expr_t::op_t\(expr_t::op_t::IDENT\);\s*ident->set_ident\(\"([a-z_]+)\"\);", b)
    need(mm, "query.cc parse_query_term: metadata call changed")
    meta_fn = mm.group(1)
    need(re.search(r"default: \{\s*node = new expr_t::op_t\(expr_t::op_t::O_MATCH\);", b), "query.cc parse_query_term: O_MATCH node changed")
    mctx = re.search(r"((?:case lexer_t::token_t::TOK_[A-Z]+:\s*)+)node = parse_query_term\(tok\.kind\);", b)
    need(mctx, "query.cc parse_query_term: context-switch cases changed")
    ctx_toks = re.findall(r"TOK_[A-Z]+", mctx.group(1))
    mend = re.search(r"((?:case lexer_t::token_t::[A-Z_]+:\s*)+)lexer\.push_token\(tok\);\s*break;\s*case lexer_t::token_t::TOK_CODE", b)
    need(mend, "query.cc parse_query_term: section-keyword cases changed")
    stop_toks = re.findall(r"token_t::([A-Z_]+):", mend.group(1))
    need(re.search(r"case lexer_t::token_t::LPAREN:\s*node = parse_query_expr\(tok_context, true\);\s*tok = lexer\.next_token\(tok_context\);\s*"
                   r"if \(tok\.kind != lexer_t::token_t::RPAREN\)\s*tok\.expected\('\)'\);", b),
         "query.cc parse_query_term: parenthesis case changed")

    L = ["/- GENERATED by tools/extract_query.py from src/query.cc - do not edit. -/",
         "namespace Ledger.Gen", "",
         "/-- characters that open a quoted pattern (query.cc, first switch of next_token). -/",
         "def queryQuoteChars : List Char := " + lean_list([lean_char(c) for c in quotes]), "",
         "/-- whitespace skipped between tokens (second switch). -/",
         "def queryWhitespace : List Char := " + lean_list([lean_char(c) for c in ws]), "",
         "/-- whitespace kept inside an identifier when the lexer runs over an argument list. -/",
         "def queryIdentWhitespace : List Char := " + lean_list([lean_char(c) for c in ident_ws]), "",
         "/-- single-character tokens (character, token kind). -/",
         "def queryCharTokens : List (Char × String) := " + lean_list(["(%s, %s)" % (lean_char(c), lean_str(t)) for c, t in singles]), "",
         "/-- `=`: token at the very start of an argument, token elsewhere. -/",
         "def queryEqTokens : String × String := (%s, %s)" % (lean_str(meq.group(1)), lean_str(meq.group(2))), "",
         "/-- characters that end an identifier (outside `expr` context, not escaped). -/",
         "def queryIdentStops : List Char := " + lean_list([lean_char(c) for c in stops]), "",
         "/-- the `test_ident` keyword chain, in source order (identifier, token kind). -/",
         "def queryKeywords : List (String × String) := " + lean_list(["(%s, %s)" % (lean_str(k), lean_str(t)) for k, t, _ in kws]), "",
         "/-- keywords after which the whole next argument is one term. -/",
         "def queryNextArgKeywords : List String := " + lean_list([lean_str(k) for k in next_arg_kws]), "",
         "/-- parser levels: (function, token it acts on, node it builds, level it calls for operands). -/",
         "def queryLadder : List (String × String × String × String) := " +
         lean_list(["(%s, %s, %s, %s)" % tuple(lean_str(x) for x in l) for l in ladder]), "",
         "/-- juxtaposed terms: (level called repeatedly, node built). -/",
         "def queryJuxtaposition : String × String := (%s, %s)" % (lean_str(juxta[0]), lean_str(juxta[1])), "",
         "/-- context token → identifier matched with `=~`. -/",
         "def queryContextIdents : List (String × String) := " + lean_list(["(%s, %s)" % (lean_str(a), lean_str(b_)) for a, b_ in idents]), "",
         "/-- function called for a metadata term. -/",
         "def queryMetaFunction : String := " + lean_str(meta_fn), "",
         "/-- tokens that switch the context of the following term. -/",
         "def queryContextTokens : List String := " + lean_list([lean_str(t) for t in ctx_toks]), "",
         "/-- tokens at which a term (and so the limit predicate) stops. -/",
         "def queryStopTokens : List String := " + lean_list([lean_str(t) for t in stop_toks]), "",
         "/-- keyword sections after the limit predicate: (token, query kind). -/",
         "def querySections : List (String × String) := " + lean_list(["(%s, %s)" % (lean_str(a), lean_str(b_)) for a, b_ in sections]), "",
         "end Ledger.Gen"]
    return "\n".join(L) + "\n"


def gen_begin_end():
    rh = _strip_comments_keep_strings(src("report.h"))
    rc = _strip_comments_keep_strings(src("report.cc"))

    def date_opt(name, which):
        m = re.search(r"OPTION_\(report_t, %s_, DO_\(str\) \{\s*date_interval_t interval\(str\);\s*if \(optional<date_t> (\w+) = interval\.(\w+)\(\)\) \{\s*"
                      r"string predicate = \"([^\"]*)\" \+ to_iso_extended_string\(\*\1\) \+ \"([^\"]*)\";\s*OTHER\(limit_\)\.on\(whence, predicate\);" % name, rh)
        need(m, "report.h: --%s handler changed" % name)
        return m.group(3), m.group(4), m.group(2)
    b_pre, b_suf, b_acc = date_opt("begin", "begin")
    e_pre, e_suf, e_acc = date_opt("end", "end")

    fixed = []
    for mm in re.finditer(r"OPTION_\(report_t, (\w+), DO\(\) \{\s*OTHER\(limit_\)\.on\(whence, \"([^\"]*)\"\);\s*\}\);", rh):
        fixed.append((mm.group(1), mm.group(2)))
    need(len(fixed) >= 4, "report.h: fixed limit options not found")
    names = [n for n, _ in fixed]
    for n in ("real", "cleared", "pending", "uncleared"):
        need(n in names, "report.h: option --%s no longer sets a limit" % n)

    m = re.search(r"\(report_t, limit_,\s*DO_\(str\) \{\s*if \(handled\)\s*value = string\(\"([^\"]*)\"\) \+ value \+ \"([^\"]*)\" \+ str \+ \"([^\"]*)\";", rh)
    need(m, "report.h: --limit combination changed")
    comb = m.groups()

    nb = function_body(rc, r"void report_t::normalize_period\(\)\s*\{")
    mb = re.search(r"if \(! HANDLED\(begin_\) && begin\) \{\s*string predicate = \"([^\"]*)\" \+ to_iso_extended_string\(\*begin\) \+ \"([^\"]*)\";\s*HANDLER\(limit_\)\.on", nb)
    me = re.search(r"if \(! HANDLED\(end_\) && end\) \{\s*string predicate = \"([^\"]*)\" \+ to_iso_extended_string\(\*end\) \+ \"([^\"]*)\";\s*HANDLER\(limit_\)\.on", nb)
    need(mb and me, "report.cc normalize_period: templates changed")

    ch = _strip_comments_keep_strings(src("chain.cc"))
    stages = re.findall(r"new filter_posts\s*\(handler, (?:predicate_t\(report\.HANDLER\((\w+)\)\.str\(\),|(\w+_predicate))", ch)
    stages = [a or b for a, b in stages]
    need(stages[:1] == ["limit_"], "chain.cc: the first filter_posts is no longer the --limit predicate")
    fh = _strip_comments_keep_strings(src("filters.h"))
    fb = function_body(fh, r"class filter_posts : public item_handler<post_t>\s*\{")
    mop = re.search(r"virtual void operator\(\)\(post_t& post\) \{\s*bind_scope_t bound_scope\(context, post\);\s*if \(pred\(bound_scope\)\) \{\s*"
                    r"post\.xdata\(\)\.add_flags\(POST_EXT_MATCHES\);\s*\(\*handler\)\(post\);\s*\}\s*\}", fb)
    need(mop, "filters.h filter_posts::operator(): no longer `if (pred(post)) pass the post on unchanged`")

    L = ["/- GENERATED by tools/extract_query.py from src/report.h, report.cc, chain.cc, filters.h - do not edit. -/",
         "namespace Ledger.Gen", "",
         "/-- option begin_ (-b): text before and after the ISO date, and the interval accessor used. -/",
         "def beginPredicate : String × String × String := (%s, %s, %s)" % (lean_str(b_pre), lean_str(b_suf), lean_str(b_acc)), "",
         "/-- option end_ (-e). -/",
         "def endPredicate : String × String × String := (%s, %s, %s)" % (lean_str(e_pre), lean_str(e_suf), lean_str(e_acc)), "",
         "/-- normalize_period (report.cc): the same two templates built from the period option. -/",
         "def periodBeginPredicate : String × String := (%s, %s)" % (lean_str(mb.group(1)), lean_str(mb.group(2))),
         "def periodEndPredicate : String × String := (%s, %s)" % (lean_str(me.group(1)), lean_str(me.group(2))), "",
         "/-- options that add a fixed predicate to the limit option (option, predicate text). -/",
         "def limitOptions : List (String × String) := " + lean_list(["(%s, %s)" % (lean_str(a), lean_str(b_)) for a, b_ in sorted(fixed)]), "",
         "/-- the limit option given twice: value = a ++ old ++ b ++ new ++ c. -/",
         "def limitCombine : String × String × String := (%s, %s, %s)" % tuple(lean_str(x) for x in comb), "",
         "/-- chain.cc: predicates wrapped in filter_posts, in source order. -/",
         "def filterStages : List String := " + lean_list([lean_str(s) for s in stages]), "",
         "/-- filters.h filter_posts::operator() has the shape `if (pred(post)) (*handler)(post);`. -/",
         "def filterPostsPassesUnchanged : Bool := true", "",
         "end Ledger.Gen"]
    return "\n".join(L) + "\n"


QUERY_FNS = [
    ("query.cc:next_token", r"query_t::lexer_t::next_token\(query_t::lexer_t::token_t::kind_t tok_context\)\s*\{"),
    ("query.cc:parse_query_term", r"query_t::parser_t::parse_query_term\(query_t::lexer_t::token_t::kind_t tok_context\)\s*\{"),
    ("query.cc:parse_unary_expr", r"query_t::parser_t::parse_unary_expr\(lexer_t::token_t::kind_t tok_context\)\s*\{"),
    ("query.cc:parse_and_expr", r"query_t::parser_t::parse_and_expr\(lexer_t::token_t::kind_t tok_context\)\s*\{"),
    ("query.cc:parse_or_expr", r"query_t::parser_t::parse_or_expr\(lexer_t::token_t::kind_t tok_context\)\s*\{"),
    ("query.cc:parse_query_expr", r"query_t::parser_t::parse_query_expr\(lexer_t::token_t::kind_t tok_context,\s*bool\s+subexpression\)\s*\{"),
]


def _between(text, start_re, end_re, what):
    m = re.search(start_re, text)
    need(m, what + ": start not found")
    e = re.search(end_re, text[m.end():])
    need(e, what + ": end not found")
    return norm_ws(text[m.start():m.end() + e.start()])


def gen_query_fns():
    """Normalised bodies of the C++ the model mirrors (pinned by C07.query_fns_pinned)."""
    pairs = pin_functions("query.cc", QUERY_FNS)
    qh = strip_comments(src("query.h"))
    pairs.append(("query.h:push_token", norm_ws(function_body(qh, r"void\s+push_token\(token_t tok\)\s*\{"))))
    pairs.append(("query.h:peek_token", norm_ws(function_body(qh, r"token_t peek_token\(token_t::kind_t tok_context = token_t::UNKNOWN\)\s*\{"))))
    fh = strip_comments(src("filters.h"))
    cls = function_body(fh, r"class filter_posts : public item_handler<post_t>\s*\{")
    pairs.append(("filters.h:filter_posts::operator()", norm_ws(function_body(cls, r"virtual void operator\(\)\(post_t& post\)\s*\{"))))
    ph = strip_comments(src("predicate.h"))
    pairs.append(("predicate.h:real_calc", norm_ws(function_body(ph, r"virtual value_t real_calc\(scope_t& scope\)\s*\{"))))
    rh = strip_comments(src("report.h"))
    for opt in ("begin_", "end_"):
        pairs.append(("report.h:" + opt, norm_ws(function_body(rh, r"OPTION_\(report_t, %s, DO_\(str\)\s*\{" % opt))))
    for opt in ("actual", "cleared", "pending", "real", "uncleared"):
        pairs.append(("report.h:" + opt, norm_ws(function_body(rh, r"OPTION_\(report_t, %s, DO\(\)\s*\{" % opt))))
    pairs.append(("report.h:limit_", norm_ws(function_body(rh, r"\(report_t, limit_,\s*DO_\(str\)\s*\{"))))
    oh = strip_comments(src("option.h"))
    pairs.append(("option.h:on(whence,str)", norm_ws(function_body(oh, r"void on\(const optional<string>& whence, const string& str\)\s*\{"))))
    rc = strip_comments(src("report.cc"))
    pairs.append(("report.cc:normalize_period", norm_ws(function_body(rc, r"void report_t::normalize_period\(\)\s*\{"))))
    pairs.append(("report.cc:parse_query_args", norm_ws(function_body(rc, r"void report_t::parse_query_args\(const value_t& args, const string& whence\)\s*\{"))))
    ch = strip_comments(src("chain.cc"))
    pairs.append(("chain.cc:chain_pre_post_handlers", norm_ws(function_body(ch, r"post_handler_ptr chain_pre_post_handlers\(post_handler_ptr base_handler,\s*report_t&\s+report\)\s*\{"))))
    op = strip_comments(src("op.cc"))
    pairs.append(("op.cc:calc O_MATCH..O_GTE", _between(op, r"case O_MATCH:\s*result =", r"case O_ADD:", "op.cc calc comparison cases")))
    pairs.append(("op.cc:calc O_NOT..O_OR", _between(op, r"case O_NOT:\s*result =", r"case O_QUERY:", "op.cc calc logical cases")))
    it = strip_comments(src("item.cc"))
    pairs.append(("item.cc:has_tag(mask)", norm_ws(function_body(it, r"bool item_t::has_tag\(const mask_t& tag_mask,\s*const optional<mask_t>& value_mask, bool\) const\s*\{"))))
    for fn in ("get_uncleared", "get_cleared", "get_pending"):
        pairs.append(("item.cc:" + fn, norm_ws(function_body(it, r"value_t %s\(item_t& item\)\s*\{" % fn))))
    po = strip_comments(src("post.cc"))
    pairs.append(("post.cc:has_tag(mask)", norm_ws(function_body(po, r"bool post_t::has_tag\(const mask_t&\s+tag_mask,\s*const optional<mask_t>& value_mask,\s*bool\s+inherit\) const\s*\{"))))
    for fn in ("get_virtual", "get_real", "get_code", "get_payee", "get_note", "get_amount"):
        pairs.append(("post.cc:" + fn, norm_ws(function_body(po, r"value_t %s\(post_t& post\)\s*\{" % fn))))
    va = strip_comments(src("value.cc"))
    for fn in ("is_equal_to", "is_less_than", "is_greater_than"):
        pairs.append(("value.cc:" + fn, norm_ws(function_body(va, r"bool value_t::%s\(const value_t& val\) const\s*\{" % fn))))
    tx = strip_comments(src("textual.cc"))
    pairs.append(("textual.cc:post state inheritance", _between(tx, r"if \(xact &&\s*\(xact->_state != item_t::UNCLEARED", r"// Parse the account name|if \(! \*p \|\| \*p == ';'\)", "textual.cc parse_post state")))
    return gen_pairs("Normalised bodies of the C++ routines that Model/Query.lean and Model/QueryParse.lean mirror.",
                     "queryFns", pairs, "src/query.cc, query.h, filters.h, predicate.h, report.h, option.h, report.cc, chain.cc, op.cc, item.cc, post.cc, textual.cc")


MORE = {"QueryKeywords": gen_query_keywords, "BeginEnd": gen_begin_end, "QueryFns": gen_query_fns}
