"""Translator part of C17's tie: what can be read mechanically from the sorting
/ truncation / regrouping handlers goes to lean/LedgerModel/Gen/Regroup.lean.

* interpreted (the model is written over these, so a changed operator changes
  the model and the theorems of Props/C17 are re-proved - or fail - against it):
    - the std algorithm sort_posts calls (std::stable_sort vs std::sort),
    - the four window comparisons of truncate_xacts::flush and the early-stop
      comparison of truncate_xacts::operator(),
    - the key expression of subtotal_posts' values map, the container types of
      the three regrouping maps (their iteration order is what orders the rows);
* pinned (compared by `rfl` with Model/RegroupPinned.lean): the normalised text
  of every function the hand-written model mirrors, and the order in which
  chain.cc stacks the handlers.
"""
import re
import extract
from extract import src, strip_comments, function_body, need, lean_str, lean_list, norm_ws, ExtractError

CMP = {"<": "lt", "<=": "le", ">": "gt", ">=": "ge"}


def _cmp(text, pattern, what):
    """pattern has one group matching the comparison operator."""
    m = re.search(pattern, text)
    need(m, "filters.cc %s: expected shape not found (%s)" % (what, pattern))
    op = m.group(1)
    need(op in CMP, "filters.cc %s: unknown comparison %r" % (what, op))
    return CMP[op]


def _typedef(text, name):
    m = re.search(r"typedef\s+(std::[^;]*?)\s+" + re.escape(name) + r"\s*;", text)
    need(m, "filters.h: typedef %s not found" % name)
    return re.sub(r"\s+", "", m.group(1))


BODIES = [
    # (key, file, signature regex)
    ("truncate_xacts::flush", "filters.cc", r"void\s+truncate_xacts::flush\(\)\s*\{"),
    ("truncate_xacts::operator()", "filters.cc", r"void\s+truncate_xacts::operator\(\)\(post_t& post\)\s*\{"),
    ("sort_posts::post_accumulated_posts", "filters.cc", r"void\s+sort_posts::post_accumulated_posts\(\)\s*\{"),
    ("collapse_posts::report_subtotal", "filters.cc", r"void\s+collapse_posts::report_subtotal\(\)\s*\{"),
    ("collapse_posts::find_totals", "filters.cc", r"value_t&\s+collapse_posts::find_totals\(account_t\*\s*account\)\s*\{"),
    ("collapse_posts::operator()", "filters.cc", r"void\s+collapse_posts::operator\(\)\(post_t& post\)\s*\{"),
    ("subtotal_posts::report_subtotal", "filters.cc", r"void\s+subtotal_posts::report_subtotal\(const char \*\s+spec_fmt,\s*const optional<date_interval_t>& interval\)\s*\{"),
    ("subtotal_posts::operator()", "filters.cc", r"void\s+subtotal_posts::operator\(\)\(post_t& post\)\s*\{"),
    ("by_payee_posts::flush", "filters.cc", r"void\s+by_payee_posts::flush\(\)\s*\{"),
    ("by_payee_posts::operator()", "filters.cc", r"void\s+by_payee_posts::operator\(\)\(post_t& post\)\s*\{"),
    ("day_of_week_posts::flush", "filters.cc", r"void\s+day_of_week_posts::flush\(\)\s*\{"),
    ("calc_posts::operator()", "filters.cc", r"void\s+calc_posts::operator\(\)\(post_t& post\)\s*\{"),
    ("compare_items<post_t>::operator()", "compare.cc", r"template <>\s*bool\s+compare_items<post_t>::operator\(\)\(post_t \* left,\s*post_t \* right\)\s*\{"),
    ("compare_items<post_t>::find_sort_values", "compare.cc", r"template <>\s*void\s+compare_items<post_t>::find_sort_values\(\s*std::list<sort_value_t>& sort_values,\s*scope_t& scope\)\s*\{"),
    ("push_sort_value", "compare.cc", r"void\s+push_sort_value\(std::list<sort_value_t>& sort_values,\s*expr_t::ptr_op_t node,\s*scope_t& scope\)\s*\{"),
    ("sort_value_is_less_than", "value.cc", r"bool\s+sort_value_is_less_than\(const std::list<sort_value_t>& left_values,\s*const std::list<sort_value_t>& right_values\)\s*\{"),
    ("value_t::in_place_simplify", "value.cc", r"void\s+value_t::in_place_simplify\(\)\s*\{"),
    ("post_t::add_to_value", "post.cc", r"void\s+post_t::add_to_value\(value_t& value,\s*const optional<expr_t&>& expr\) const\s*\{"),
]


def _strip_debug(body):
    """DEBUG(...)/DEBUG_(...)/TRACE lines, #if DEBUG_ON blocks and pragmas carry no behaviour."""
    body = re.sub(r"#if\s+DEBUG_ON.*?#endif", "", body, flags=re.S)
    body = re.sub(r"#if\s+defined\(__GNUC__\)[^\n]*\n#pragma[^\n]*\n(#pragma[^\n]*\n)?#endif", "", body)
    body = re.sub(r"^\s*#pragma[^\n]*$", "", body, flags=re.M)
    out = []
    i = 0
    while True:
        m = re.search(r"\b(DEBUG_?|TRACE_[A-Z]+|LOGGER)\s*\(", body[i:])
        if not m:
            out.append(body[i:])
            break
        out.append(body[i:i + m.start()])
        j = i + m.end()
        depth = 1
        while j < len(body) and depth:
            ch = body[j]
            if ch == '"':
                j += 1
                while body[j] != '"':
                    if body[j] == "\\":
                        j += 1
                    j += 1
            elif ch == "(":
                depth += 1
            elif ch == ")":
                depth -= 1
            j += 1
        while j < len(body) and body[j] in " \t":
            j += 1
        if j < len(body) and body[j] == ";":
            j += 1
        i = j
    return "".join(out)


def bodies():
    cache = {}
    out = []
    for key, fname, sig in BODIES:
        if fname not in cache:
            cache[fname] = strip_comments(src(fname))
        b = norm_ws(_strip_debug(function_body(cache[fname], sig)))
        if key == "subtotal_posts::operator()":
            # the accumulated value is interpreted (Gen.Regroup.subtotalReadsCompound), not pinned
            b = re.sub(r"value_t amount\(.*?\); post\.xdata\(\)\.compound_value = amount;",
                       "value_t amount(<interpreted>); post.xdata().compound_value = amount;", b)
        out.append((key, b))
    return out


INLINE = [
    # (key, class header regex in filters.h, method signature regex inside the class)
    ("sort_posts::flush", r"class\s+sort_posts\s*:\s*public\s+item_handler<post_t>\s*\{", r"virtual\s+void\s+flush\(\)\s*\{"),
    ("sort_posts::operator()", r"class\s+sort_posts\s*:\s*public\s+item_handler<post_t>\s*\{", r"virtual\s+void\s+operator\(\)\(post_t& post\)\s*\{"),
    ("sort_xacts::flush", r"class\s+sort_xacts\s*:\s*public\s+item_handler<post_t>\s*\{", r"virtual\s+void\s+flush\(\)\s*\{"),
    ("sort_xacts::operator()", r"class\s+sort_xacts\s*:\s*public\s+item_handler<post_t>\s*\{", r"virtual\s+void\s+operator\(\)\(post_t& post\)\s*\{"),
    ("collapse_posts::flush", r"class\s+collapse_posts\s*:\s*public\s+item_handler<post_t>\s*\{", r"virtual\s+void\s+flush\(\)\s*\{"),
    ("subtotal_posts::flush", r"class\s+subtotal_posts\s*:\s*public\s+item_handler<post_t>\s*\{", r"virtual\s+void\s+flush\(\)\s*\{"),
    ("day_of_week_posts::operator()", r"class\s+day_of_week_posts\s*:\s*public\s+subtotal_posts\s*\{", r"virtual\s+void\s+operator\(\)\(post_t& post\)\s*\{"),
    ("truncate_xacts::truncate_xacts", r"class\s+truncate_xacts\s*:\s*public\s+item_handler<post_t>\s*\{", r"truncate_xacts\(post_handler_ptr handler,\s*int _head_count,\s*int _tail_count\)\s*:"),
]


def inline_bodies():
    fh = strip_comments(src("filters.h"))
    out = []
    for key, cls, sig in INLINE:
        body = function_body(fh, cls)
        if key.endswith("truncate_xacts"):
            m = re.search(sig + r"([^{]*)\{", body)
            need(m, "filters.h: constructor of truncate_xacts not found")
            out.append((key, norm_ws(m.group(1))))
        else:
            out.append((key, norm_ws(_strip_debug(function_body(body, sig)))))
    return out


def less_than_cells():
    """DATE and STRING rows of value_t::is_less_than (the numeric rows are Gen.valueCells, C03)."""
    text = strip_comments(src("value.cc"))
    body = function_body(text, r"bool\s+value_t::is_less_than\(const value_t& val\) const\s*\{")
    outer = extract.inner_switch(body, "type()")
    need(outer is not None, "value.cc is_less_than: no switch(type())")
    oc = extract.split_cases(outer)
    out = []
    for lab in ("DATE", "STRING"):
        need(lab in oc, "value.cc is_less_than: no case " + lab)
        out.append(("value_t::is_less_than:" + lab, norm_ws(oc[lab])))
    return out


def totals_order():
    """comparator of collapse_posts' totals map: which way are two account names compared?"""
    fh = strip_comments(src("filters.h"))
    cls = function_body(fh, r"class\s+collapse_posts\s*:\s*public\s+item_handler<post_t>\s*\{")
    m = re.search(r"typedef\s+std::map<account_t \*,\s*value_t,\s*(\w+)>\s+totals_map\s*;", cls)
    need(m, "filters.h collapse_posts: totals_map is not a std::map<account_t *, value_t, COMPARATOR>")
    name = m.group(1)
    body = function_body(cls, r"struct\s+" + name + r"\s*\{")
    m = re.search(r"bool\s+operator\(\)\(const account_t \* left,\s*const account_t \* right\) const\s*\{\s*"
                  r"return\s+left->fullname\(\)\s*(<=|>=|<|>)\s*right->fullname\(\)\s*;\s*\}", body)
    need(m, "filters.h collapse_posts::%s: expected `return left->fullname() ? right->fullname();`" % name)
    return CMP[m.group(1)]


def option_wiring():
    """report.h: how --sort, --sort-all and --sort-xacts set each other (normalised text of the three OPTION_ blocks)"""
    rh = strip_comments(src("report.h"))
    out = []
    for opt in ("sort_", "sort_all_", "sort_xacts_"):
        m = re.search(r"OPTION_\(report_t,\s*" + opt + r",\s*DO_\(str\)\s*\{(.*?)\}\);", rh, flags=re.S)
        need(m, "report.h: OPTION_(report_t, %s, DO_(str) {...}) not found" % opt)
        out.append(("report.h:option:" + opt, norm_ws(m.group(1))))
    ch = strip_comments(src("chain.cc"))
    body = function_body(ch, r"post_handler_ptr\s+chain_post_handlers\(post_handler_ptr base_handler,\s*report_t&\s+report,\s*bool\s+for_accounts_report\)\s*\{")
    out.append(("chain.cc:chain_post_handlers", norm_ws(_strip_debug(body))))
    return out


def chain_order():
    """Order of `handler.reset(new X(` constructions inside chain_post_handlers,
    with the report option guarding each (innermost `if (report.HANDLED(..))`)."""
    text = strip_comments(src("chain.cc"))
    body = function_body(text, r"post_handler_ptr\s+chain_post_handlers\(post_handler_ptr base_handler,\s*report_t&\s+report,\s*bool\s+for_accounts_report\)\s*\{")
    names = re.findall(r"(?:handler\.reset\s*\(\s*new\s+|=\s*new\s+)([a-z_]+)\s*\(", body)
    need(len(names) >= 15, "chain.cc: expected >= 15 handler constructions, got %d" % len(names))
    return names


def gen_regroup():
    fc = strip_comments(src("filters.cc"))
    fh = strip_comments(src("filters.h"))
    # --- sort algorithm
    sp = function_body(fc, r"void\s+sort_posts::post_accumulated_posts\(\)\s*\{")
    m = re.search(r"\b(std::\w*sort\w*)\s*\(\s*posts\.begin\(\)\s*,\s*posts\.end\(\)\s*,\s*compare_items<post_t>\(sort_order,\s*report\)\s*\)", sp)
    need(m, "filters.cc sort_posts::post_accumulated_posts: no std sort call over posts with compare_items<post_t>")
    sort_call = m.group(1)
    need(re.search(r"typedef\s+std::deque<post_t \*>\s+posts_deque\s*;", fh), "filters.h sort_posts: posts_deque typedef changed")
    ps = function_body(strip_comments(src("compare.cc")), r"void\s+push_sort_value\(std::list<sort_value_t>& sort_values,\s*expr_t::ptr_op_t node,\s*scope_t& scope\)\s*\{")
    m = re.search(r"sort_values\.back\(\)\.value\s*=\s*([^;]*);", ps)
    need(m, "compare.cc push_sort_value: assignment of the sort value not found")
    key_expr = norm_ws(m.group(1))
    if key_expr == "expr_t(node).calc(scope).simplified()":
        key_simplified = True
    elif key_expr == "expr_t(node).calc(scope)":
        key_simplified = False
    else:
        raise ExtractError("compare.cc push_sort_value: sort value expression not recognised: " + key_expr)
    # --- truncation comparisons
    fl = function_body(fc, r"void\s+truncate_xacts::flush\(\)\s*\{")
    head_pos = _cmp(fl, r"head_count\s*>\s*0\s*&&\s*i\s*(<=|>=|<|>)\s*head_count\b", "truncate head>0")
    head_neg = _cmp(fl, r"head_count\s*<\s*0\s*&&\s*i\s*(<=|>=|<|>)\s*-\s*head_count\b", "truncate head<0")
    tail_pos = _cmp(fl, r"tail_count\s*>\s*0\s*&&\s*l\s*-\s*i\s*(<=|>=|<|>)\s*tail_count\b", "truncate tail>0")
    tail_neg = _cmp(fl, r"tail_count\s*<\s*0\s*&&\s*l\s*-\s*i\s*(<=|>=|<|>)\s*-\s*tail_count\b", "truncate tail<0")
    op = function_body(fc, r"void\s+truncate_xacts::operator\(\)\(post_t& post\)\s*\{")
    early = _cmp(op, r"tail_count\s*==\s*0\s*&&\s*head_count\s*>\s*0\s*&&\s*static_cast<int>\(xacts_seen\)\s*(<=|>=|<|>)\s*head_count\b",
                 "truncate early stop")
    # --- subtotal key and container types
    so = function_body(fc, r"void\s+subtotal_posts::operator\(\)\(post_t& post\)\s*\{")
    m = re.search(r"values\.find\(\s*([^;]*?)\s*\)\s*;", so)
    need(m, "filters.cc subtotal_posts::operator(): values.find(KEY) not found")
    sub_key = norm_ws(m.group(1))
    m2 = re.search(r"values\.insert\s*\(\s*values_pair\s*\(\s*([^,]*?)\s*,", so)
    need(m2 and norm_ws(m2.group(1)) == sub_key, "filters.cc subtotal_posts::operator(): insert key differs from find key")
    m3 = re.search(r"value_t\s+amount\((.*?)\)\s*;\s*post\.xdata\(\)\.compound_value\s*=\s*amount\s*;", so, flags=re.S)
    need(m3, "filters.cc subtotal_posts::operator(): `value_t amount(...); post.xdata().compound_value = amount;` not found")
    sub_amount = norm_ws(m3.group(1))
    if sub_amount == "post.amount":
        reads_compound = False
    elif sub_amount == ("post.has_xdata() && post.xdata().has_flags(POST_EXT_COMPOUND) ? "
                        "post.xdata().compound_value : value_t(post.amount)"):
        reads_compound = True
    else:
        raise ExtractError("filters.cc subtotal_posts::operator(): accumulated value not recognised: " + sub_amount)
    values_map = _typedef(fh, "values_map")
    totals_map = _typedef(fh, "totals_map")
    payee_map = _typedef(fh, "payee_subtotals_map")
    m = re.search(r"days_of_the_week\[\s*([^\]]*?)\s*\]\.push_back\(&post\)", fh)
    need(m, "filters.h day_of_week_posts::operator(): bucket index not found")
    dow_index = norm_ws(m.group(1))
    lines = ["/- GENERATED by tools/extract_regroup.py from src/filters.cc, filters.h, compare.cc, value.cc, post.cc, chain.cc - do not edit. -/",
             "namespace Ledger.Gen.Regroup", "",
             "/-- an integer comparison operator as written in the source -/",
             "inductive Cmp | lt | le | gt | ge",
             "deriving DecidableEq, Repr", "",
             "def Cmp.eval : Cmp → Int → Int → Bool",
             "  | .lt, a, b => decide (a < b)",
             "  | .le, a, b => decide (a ≤ b)",
             "  | .gt, a, b => decide (a > b)",
             "  | .ge, a, b => decide (a ≥ b)", "",
             "/-- filters.cc sort_posts::post_accumulated_posts: the algorithm applied to the posting deque. -/",
             "def sortCall : String := %s" % lean_str(sort_call), "",
             "/-- compare.cc push_sort_value: is the key value passed through `.simplified()` (a real-zero amount becomes INTEGER 0)? -/",
             "def sortKeySimplified : Bool := %s" % ("true" if key_simplified else "false"), "",
             "/-- truncate_xacts::flush: `head_count > 0 && i ? head_count`. -/",
             "def truncHeadPos : Cmp := .%s" % head_pos,
             "/-- truncate_xacts::flush: `head_count < 0 && i ? - head_count`. -/",
             "def truncHeadNeg : Cmp := .%s" % head_neg,
             "/-- truncate_xacts::flush: `tail_count > 0 && l - i ? tail_count`. -/",
             "def truncTailPos : Cmp := .%s" % tail_pos,
             "/-- truncate_xacts::flush: `tail_count < 0 && l - i ? - tail_count`. -/",
             "def truncTailNeg : Cmp := .%s" % tail_neg,
             "/-- truncate_xacts::operator(): `tail_count == 0 && head_count > 0 && xacts_seen ? head_count`. -/",
             "def truncEarlyStop : Cmp := .%s" % early, "",
             "/-- subtotal_posts::operator(): the key used for both `values.find` and `values.insert`. -/",
             "def subtotalKey : String := %s" % lean_str(sub_key),
             "/-- subtotal_posts::operator(): does `value_t amount(...)` take the compound value of a posting handed down",
             "    by another subtotalling handler (true), or `post.amount` only (false)? -/",
             "def subtotalReadsCompound : Bool := %s" % ("true" if reads_compound else "false"),
             "/-- filters.h container types (their iteration order orders the emitted rows). -/",
             "def valuesMapType : String := %s" % lean_str(values_map),
             "def totalsMapType : String := %s" % lean_str(totals_map),
             "def payeeMapType : String := %s" % lean_str(payee_map),
             "/-- filters.h day_of_week_posts::operator(): bucket index. -/",
             "def dowIndex : String := %s" % lean_str(dow_index),
             "/-- filters.h collapse_posts: `left->fullname() ? right->fullname()` in the comparator of the totals map. -/",
             "def totalsOrder : Cmp := .%s" % totals_order(), "",
             "/-- order in which chain_post_handlers stacks the handlers (data flows through them in reverse). -/",
             "def chainOrder : List String := " + lean_list([lean_str(n) for n in chain_order()]), "",
             "/-- normalised text (comments, DEBUG lines and whitespace removed) of the functions the model mirrors. -/",
             "def bodies : List (String × String) := ["]
    lines.append(",\n".join("  (%s, %s)" % (lean_str(k), lean_str(v)) for k, v in bodies() + inline_bodies() + less_than_cells() + option_wiring()))
    lines += ["]", "", "end Ledger.Gen.Regroup"]
    return "\n".join(lines) + "\n"


MORE = {"Regroup": gen_regroup}

if __name__ == "__main__":
    print(gen_regroup())
