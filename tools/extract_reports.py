"""Translator part for C05 (report pipeline): re-extracts from /repo/src

* chain.cc  - the sequence of `new <handler>(...)` constructions of
              chain_pre_post_handlers / chain_post_handlers with their guarding
              conditions, and - evaluated by a tiny boolean evaluator over the
              guards - the *execution order* of the handlers for every report
              scenario C05 quantifies over (register/balance x limit x depth x basis);
* report.h  - the default amount/total/display expressions (merged_expr_t
              declarations), what each C05 option does (limit predicates of
              --real/--cleared/--uncleared/--pending, --depth's display predicate,
              --basis' base expression and its `revalued` side effect) and
              report_t::what_to_keep (which lot details --lots/--lot-prices/
              --lot-dates/--lot-notes keep);
* Gen/ReportFns.lean - the normalised bodies of every C++ function Model/Reports.lean mirrors
              (account.cc amount/total/…, filters.cc calc_posts/collapse_posts/display_filter_posts,
              output.cc format_accounts, post.cc add_to_value/get_cost, report.cc display_value/…,
              the strip_annotations family, chain.cc), compared with the pinned copy
              Model/ReportFnsPinned.lean by `rfl` in Props/C05.lean (refresh with tools/repin.py ReportFns
              together with the model).

Output: lean/LedgerModel/Gen/Chain.lean, lean/LedgerModel/Gen/ReportFns.lean
"""
import re
from extract import src, strip_comments, function_body, need, lean_str, lean_list, norm_ws, ExtractError, pin_functions, gen_pairs


# ---------------------------------------------------------------------------
# a tiny statement parser: enough for the if/else-if/else + `handler.reset(new X(...))` shape of chain.cc

def _skip_ws(t, i):
    while i < len(t) and t[i].isspace():
        i += 1
    return i


def _balanced(t, i, op, cl):
    """t[i] == op; returns index just after the matching close."""
    need(t[i] == op, "parser: expected %r at %d" % (op, i))
    depth = 0
    j = i
    while j < len(t):
        ch = t[j]
        if ch == '"':
            j += 1
            while t[j] != '"':
                if t[j] == "\\":
                    j += 1
                j += 1
        elif ch == op:
            depth += 1
        elif ch == cl:
            depth -= 1
            if depth == 0:
                return j + 1
        j += 1
    raise ExtractError("parser: unbalanced %s" % op)


def _parse_stmt(t, i, guards, out):
    """Parse one statement starting at i; appends (class, ctor args, guards) for every `new X(`; returns next index."""
    i = _skip_ws(t, i)
    if i >= len(t):
        return i
    if t[i] == "{":
        j = _balanced(t, i, "{", "}")
        _parse_block(t[i + 1:j - 1], guards, out)
        return j
    m = re.match(r"if\s*\(", t[i:])
    if m:
        p = i + m.end() - 1
        q = _balanced(t, p, "(", ")")
        cond = norm_ws(t[p + 1:q - 1])
        j = _parse_stmt(t, q, guards + [cond], out)
        k = _skip_ws(t, j)
        if re.match(r"else\b", t[k:]):
            j = _parse_stmt(t, k + 4, guards + ["!(" + cond + ")"], out)
        return j
    # plain statement up to ';' at depth 0
    j = i
    depth = 0
    while j < len(t):
        ch = t[j]
        if ch == '"':
            j += 1
            while t[j] != '"':
                if t[j] == "\\":
                    j += 1
                j += 1
        elif ch in "({":
            depth += 1
        elif ch in ")}":
            depth -= 1
        elif ch == ";" and depth == 0:
            break
        j += 1
    stmt = t[i:j]
    for m in re.finditer(r"\bnew\s+([A-Za-z_]+)\s*\(", stmt):
        p = m.end() - 1
        q = _balanced(stmt, p, "(", ")")
        out.append((m.group(1), norm_ws(stmt[p + 1:q - 1]), list(guards)))
    return j + 1


def _parse_block(t, guards, out):
    i = 0
    while True:
        i = _skip_ws(t, i)
        if i >= len(t):
            return
        i = _parse_stmt(t, i, guards, out)


def handler_sequence(fn_sig):
    text = strip_comments(src("chain.cc"))
    text = re.sub(r"\bDEBUG\s*\((?:[^()]|\([^()]*\))*\)\s*;", "", text)
    body = function_body(text, fn_sig)
    out = []
    _parse_block(body, [], out)
    return out


def handler_label(cls, args):
    """filter_posts is told apart by the option whose predicate it is given."""
    if cls in ("filter_posts", "transfer_details"):
        m = re.search(r"report\.HANDLER\((\w+)\)", args)
        if m:
            return "%s:%s" % (cls, m.group(1))
        m = re.search(r"\b(display_predicate|only_predicate)\b", args)
        if m:
            return "%s:%s" % (cls, {"display_predicate": "display_", "only_predicate": "only_"}[m.group(1)])
    return cls


# ---------------------------------------------------------------------------
# guard evaluation for the C05 scenarios

def eval_guard(cond, on, for_accounts):
    """Evaluate a C++ guard over `report.HANDLED(x)` / for_accounts_report / budget flags."""
    e = cond
    e = re.sub(r"report\.HANDLED\((\w+)\)", lambda m: " (%r in ON) " % m.group(1), e)
    e = e.replace("report.budget_flags != BUDGET_NO_BUDGET", " False ")
    e = re.sub(r"\bfor_accounts_report\b", " FA ", e)
    e = e.replace("&&", " and ").replace("||", " or ")
    e = re.sub(r"!(?!=)", " not ", e)
    need(re.fullmatch(r"[\s()A-Za-z_']*", e.replace("in ON", "")) is not None and
         not re.search(r"\b(?!and\b|or\b|not\b|in\b|ON\b|FA\b|False\b)[A-Za-z_]+\b", re.sub(r"'\w+'", "", e)),
         "chain.cc: guard not understood: " + cond)
    return bool(eval(e, {"__builtins__": {}}, {"ON": on, "FA": for_accounts}))


def scenarios():
    for fa in (False, True):
        for limit in (False, True):
            for depth in (False, True):
                for basis in (False, True):
                    yield fa, limit, depth, basis


def exec_order(pre, post, fa, limit, depth, basis):
    on = set()
    if limit:
        on.add("limit_")
    if depth:
        on.update(["depth_", "display_"])
    if basis:
        on.add("revalued")
    act_post = [handler_label(c, a) for c, a, g in post if all(eval_guard(x, on, fa) for x in g)]
    act_pre = [handler_label(c, a) for c, a, g in pre if all(eval_guard(x, on, fa) for x in g)]
    # each `handler.reset(new X(handler, ...))` wraps what was built before: the last
    # constructed handler runs first; chain_pre_post_handlers is applied after (outside of)
    # chain_post_handlers by report_t::posts_report / accounts_report
    return list(reversed(act_pre)) + list(reversed(act_post))


# ---------------------------------------------------------------------------
# report.h

def option_body(h, name):
    m = re.search(r"OPTION_{0,2}\s*\(\s*report_t\s*,\s*%s\b" % re.escape(name), h)
    need(m, "report.h: option %s not found" % name)
    p = h.index("(", m.start())
    q = _balanced(h, p, "(", ")")
    return h[p + 1:q - 1]


def cstr_concat(s):
    """Concatenate adjacent C string literals in s."""
    parts = re.findall(r'"((?:\\.|[^"\\])*)"', s)
    return "".join(bytes(p, "utf-8").decode("unicode_escape") for p in parts)


def report_h_facts():
    h = strip_comments(src("report.h"))
    facts = {}
    for opt, key in (("amount_", "amount"), ("total_", "total"), ("display_amount_", "display_amount"),
                     ("display_total_", "display_total")):
        b = option_body(h, opt)
        m = re.search(r"DECL1\s*\(\s*report_t\s*,\s*%s\s*,\s*merged_expr_t\s*,\s*expr\s*,\s*\(\s*\"([^\"]*)\"\s*,\s*\"([^\"]*)\"\s*\)\s*\)" % opt, b)
        need(m, "report.h: %s is no longer a merged_expr_t(\"term\", \"base\")" % opt)
        facts[key] = (m.group(1), m.group(2))
    limits = []
    for opt in ("real", "cleared", "uncleared", "pending", "actual"):
        b = option_body(h, opt)
        m = re.search(r"OTHER\(limit_\)\.on\(whence,\s*\"([^\"]*)\"\)", b)
        need(m, "report.h: --%s no longer sets a limit predicate" % opt)
        limits.append((opt, m.group(1)))
    b = option_body(h, "limit_")
    need(re.search(r'value\s*=\s*string\("\("\)\s*\+\s*value\s*\+\s*"\)&\("\s*\+\s*str\s*\+\s*"\)"', b),
         "report.h: limit_ no longer conjoins predicates with &")
    b = option_body(h, "depth_")
    m = re.search(r"OTHER\(display_\)\.on\(whence,\s*string\(\"([^\"]*)\"\)\s*\+\s*str\)", b)
    need(m, "report.h: --depth no longer sets a display predicate")
    facts["depth_display"] = m.group(1)
    b = option_body(h, "basis")
    m = re.search(r"OTHER\(amount_\)\.expr\.set_base_expr\(\"([^\"]*)\"\)", b)
    need(m, "report.h: --basis no longer sets the base amount expression")
    facts["basis_expr"] = m.group(1)
    facts["basis_revalued"] = bool(re.search(r"OTHER\(revalued\)\.on\(whence\)", b))
    facts["limits"] = limits
    wk = norm_ws(function_body(h, r"keep_details_t\s+what_to_keep\(\)\s*\{"))
    facts["what_to_keep"] = wk
    m = re.fullmatch(r"bool lots = HANDLED\(lots\) \|\| HANDLED\(lots_actual\); return keep_details_t\("
                     r"lots \|\| HANDLED\(lot_prices\), lots \|\| HANDLED\(lot_dates\), lots \|\| HANDLED\(lot_notes\), "
                     r"HANDLED\(lots_actual\)\);", wk)
    need(m, "report.h: what_to_keep() has an unexpected shape: " + wk)
    # (option, keeps price, keeps date, keeps tag)
    facts["keep"] = [("lots", True, True, True), ("lot_prices", True, False, False),
                     ("lot_dates", False, True, False), ("lot_notes", False, False, True)]
    bf = cstr_concat(re.search(r"CTOR\(report_t, balance_format_\)\s*\{\s*on\(none,(.*?)\);\s*\}", h, flags=re.S).group(1))
    facts["balance_format_total"] = "scrub(display_total)" in bf.split("%/")[0]
    rf = cstr_concat(re.search(r"CTOR\(report_t, register_format_\)\s*\{\s*on\(none,(.*?)\);\s*\}", h, flags=re.S).group(1))
    facts["register_format_cols"] = ("scrub(display_amount)" in rf, "scrub(display_total)" in rf)
    return facts


def gen_chain():
    pre = handler_sequence(r"post_handler_ptr\s+chain_pre_post_handlers\(post_handler_ptr base_handler,\s*report_t&\s+report\)\s*\{")
    post = handler_sequence(r"post_handler_ptr\s+chain_post_handlers\(post_handler_ptr base_handler,\s*report_t&\s+report,\s*bool\s+for_accounts_report\)\s*\{")
    need(len(pre) >= 2 and len(post) >= 10, "chain.cc: too few handler constructions found (%d, %d)" % (len(pre), len(post)))
    need(any(c == "calc_posts" for c, a, g in post), "chain.cc: calc_posts is no longer constructed in chain_post_handlers")
    facts = report_h_facts()
    L = ["/- GENERATED by tools/extract_reports.py from src/chain.cc, report.h - do not edit. -/",
         "namespace Ledger.Gen.Chain", ""]

    def seq(name, doc, items):
        L.append("/-- %s -/" % doc)
        L.append("def %s : List (String × List String) := [" % name)
        L.append(",\n".join("  (%s, %s)" % (lean_str(handler_label(c, a)), lean_list([lean_str(x) for x in g])) for c, a, g in items))
        L.append("]")
        L.append("")
    seq("preHandlers", "chain_pre_post_handlers: `new <handler>` in construction order, with the enclosing guards.", pre)
    seq("postHandlers", "chain_post_handlers: `new <handler>` in construction order, with the enclosing guards.", post)
    cargs = [a for c, a, g in post if c == "calc_posts"][0]
    L += ["/-- constructor arguments of calc_posts (its third argument decides whether a running total is kept). -/",
          "def calcPostsArgs : String := %s" % lean_str(cargs), ""]
    L += ["/-- Execution order of the handlers that are active in each scenario",
          "    (forAccountsReport, limit_ set, depth_ set, basis set), every other option off;",
          "    obtained by evaluating the guards above and reversing the construction order. -/",
          "def execOrder : List ((Bool × Bool × Bool × Bool) × List String) := ["]
    rows = []
    for fa, limit, depth, basis in scenarios():
        order = exec_order(pre, post, fa, limit, depth, basis)
        rows.append("  ((%s, %s, %s, %s), %s)" % tuple(["true" if b else "false" for b in (fa, limit, depth, basis)] +
                                                     [lean_list([lean_str(x) for x in order])]))
    L.append(",\n".join(rows))
    L += ["]", ""]
    for key in ("amount", "total", "display_amount", "display_total"):
        nm = {"amount": "amountExpr", "total": "totalExpr", "display_amount": "displayAmountExpr", "display_total": "displayTotalExpr"}[key]
        L += ["/-- report.h: `--%s` is merged_expr_t(term, base expression). -/" % key.replace("_", "-"),
              "def %s : String × String := (%s, %s)" % (nm, lean_str(facts[key][0]), lean_str(facts[key][1])), ""]
    L += ["/-- report.h: option ↦ predicate it conjoins to `--limit`. -/",
          "def limitPreds : List (String × String) := " +
          lean_list(["(%s, %s)" % (lean_str(o), lean_str(p)) for o, p in facts["limits"]]), "",
          "/-- report.h: `--depth N` conjoins this prefix ++ N to `--display`. -/",
          "def depthDisplayPrefix : String := %s" % lean_str(facts["depth_display"]), "",
          "/-- report.h: `--basis` sets this base amount expression … -/",
          "def basisExpr : String := %s" % lean_str(facts["basis_expr"]),
          "/-- … and turns `--revalued` on. -/",
          "def basisSetsRevalued : Bool := %s" % ("true" if facts["basis_revalued"] else "false"), "",
          "/-- report.h what_to_keep(): option ↦ (keep lot price, keep lot date, keep lot tag). -/",
          "def keepDetails : List (String × Bool × Bool × Bool) := " +
          lean_list(["(%s, %s, %s, %s)" % (lean_str(o), *["true" if x else "false" for x in (p, d, t)])
                     for o, p, d, t in facts["keep"]]), "",
          "/-- the default balance line shows scrub(display_total); the register line scrub(display_amount) and scrub(display_total). -/",
          "def balanceShowsScrubbedTotal : Bool := %s" % ("true" if facts["balance_format_total"] else "false"),
          "def registerShowsScrubbed : Bool × Bool := (%s, %s)" % tuple("true" if x else "false" for x in facts["register_format_cols"]), "",
          "end Ledger.Gen.Chain"]
    return "\n".join(L) + "\n"


REPORT_FNS = {
    "account.cc": [
        ("account.cc:find_account", r"account_t \* account_t::find_account\(const string& acct_name,\s*const bool\s+auto_create\)\s*\{"),
        ("account.cc:add_post", r"void\s+account_t::add_post\(post_t \* post\)\s*\{"),
        ("account.cc:partial_name", r"string\s+account_t::partial_name\(bool flat\) const\s*\{"),
        ("account.cc:children_with_flags", r"std::size_t\s+account_t::children_with_flags\(xdata_t::flags_t flags\) const\s*\{"),
        ("account.cc:amount", r"value_t\s+account_t::amount\(const optional<bool> real_only, const optional<expr_t&>& expr\) const\s*\{"),
        ("account.cc:total", r"value_t\s+account_t::total\(const optional<expr_t&>& expr\) const\s*\{"),
        ("account.cc:self_details", r"account_t::self_details\(bool gather_all\) const\s*\{"),
        ("account.cc:family_details", r"account_t::family_details\(bool gather_all\) const\s*\{"),
        ("account.cc:get_amount", r"value_t\s+get_amount\(account_t& account\)\s*\{"),
        ("account.cc:get_total", r"value_t\s+get_total\(account_t& account\)\s*\{"),
    ],
    "filters.cc": [
        ("filters.cc:calc_posts::operator()", r"void\s+calc_posts::operator\(\)\(post_t& post\)\s*\{"),
        ("filters.cc:collapse_posts::report_subtotal", r"void\s+collapse_posts::report_subtotal\(\)\s*\{"),
        ("filters.cc:collapse_posts::find_totals", r"value_t&\s+collapse_posts::find_totals\(account_t\* account\)\s*\{"),
        ("filters.cc:collapse_posts::operator()", r"void\s+collapse_posts::operator\(\)\(post_t& post\)\s*\{"),
        ("filters.cc:display_filter_posts::output_rounding", r"bool\s+display_filter_posts::output_rounding\(post_t& post\)\s*\{"),
        ("filters.cc:display_filter_posts::operator()", r"void\s+display_filter_posts::operator\(\)\(post_t& post\)\s*\{"),
    ],
    "filters.h": [
        ("filters.h:filter_posts::operator()", r"class filter_posts[^{]*\{(?:.|\n)*?virtual void operator\(\)\(post_t& post\)\s*\{"),
    ],
    "output.cc": [
        ("output.cc:format_posts::operator()", r"void\s+format_posts::operator\(\)\(post_t& post\)\s*\{"),
        ("output.cc:format_accounts::post_account", r"std::size_t\s+format_accounts::post_account\(account_t& account, const bool flat\)\s*\{"),
        ("output.cc:format_accounts::mark_accounts", r"format_accounts::mark_accounts\(account_t& account, const bool flat\)\s*\{"),
        ("output.cc:format_accounts::flush", r"void\s+format_accounts::flush\(\)\s*\{"),
        ("output.cc:format_accounts::operator()", r"void\s+format_accounts::operator\(\)\(account_t& account\)\s*\{"),
    ],
    "post.cc": [
        ("post.cc:add_to_value", r"void\s+post_t::add_to_value\(value_t& value, const optional<expr_t&>& expr\) const\s*\{"),
        ("post.cc:get_amount", r"value_t\s+get_amount\(post_t& post\)\s*\{"),
        ("post.cc:get_cost", r"value_t\s+get_cost\(post_t& post\)\s*\{"),
        ("post.cc:get_total", r"value_t\s+get_total\(post_t& post\)\s*\{"),
        ("post.cc:get_real", r"value_t\s+get_real\(post_t& post\)\s*\{"),
    ],
    "item.cc": [
        ("item.cc:get_cleared", r"value_t\s+get_cleared\(item_t& item\)\s*\{"),
        ("item.cc:get_pending", r"value_t\s+get_pending\(item_t& item\)\s*\{"),
        ("item.cc:get_uncleared", r"value_t\s+get_uncleared\(item_t& item\)\s*\{"),
    ],
    "report.cc": [
        ("report.cc:posts_report", r"void\s+report_t::posts_report\(post_handler_ptr handler\)\s*\{"),
        ("report.cc:accounts_report", r"void\s+report_t::accounts_report\(acct_handler_ptr handler\)\s*\{"),
        ("report.cc:accounts_flusher", r"struct accounts_flusher\s*\{"),
        ("report.cc:display_value", r"value_t\s+report_t::display_value\(const value_t& val\)\s*\{"),
        ("report.cc:fn_strip", r"value_t\s+report_t::fn_strip\(call_scope_t& args\)\s*\{"),
        ("report.cc:fn_rounded", r"value_t\s+report_t::fn_rounded\(call_scope_t& args\)\s*\{"),
        ("report.cc:fn_display_amount", r"value_t\s+report_t::fn_display_amount\(call_scope_t& scope\)\s*\{"),
        ("report.cc:fn_display_total", r"value_t\s+report_t::fn_display_total\(call_scope_t& scope\)\s*\{"),
    ],
    "report.h": [
        ("report.h:what_to_keep", r"keep_details_t\s+what_to_keep\(\)\s*\{"),
    ],
    "value.h": [
        ("value.h:add_or_set_value", r"inline value_t& add_or_set_value\(value_t& lhs, const T& rhs\)\s*\{"),
    ],
    "value.cc": [
        ("value.cc:strip_annotations", r"value_t\s+value_t::strip_annotations\(const keep_details_t& what_to_keep\) const\s*\{"),
    ],
    "balance.cc": [
        ("balance.cc:strip_annotations", r"balance_t::strip_annotations\(const keep_details_t& what_to_keep\) const\s*\{"),
    ],
    "amount.cc": [
        ("amount.cc:strip_annotations", r"amount_t\s+amount_t::strip_annotations\(const keep_details_t& what_to_keep\) const\s*\{"),
        ("amount.cc:in_place_round", r"void\s+amount_t::in_place_round\(\)\s*\{"),
    ],
    "annotate.cc": [
        ("annotate.cc:strip_annotations", r"annotated_commodity_t::strip_annotations\(const keep_details_t& what_to_keep\)\s*\{"),
        ("annotate.cc:keep_all", r"bool\s+keep_details_t::keep_all\(const commodity_t& comm\) const\s*\{"),
    ],
    "textual.cc": [],
    "chain.cc": [
        ("chain.cc:chain_pre_post_handlers", r"post_handler_ptr\s+chain_pre_post_handlers\(post_handler_ptr base_handler,\s*report_t&\s+report\)\s*\{"),
        ("chain.cc:chain_post_handlers", r"post_handler_ptr\s+chain_post_handlers\(post_handler_ptr base_handler,\s*report_t&\s+report,\s*bool\s+for_accounts_report\)\s*\{"),
    ],
}


def gen_report_fns():
    pairs = []
    for fname, sigs in REPORT_FNS.items():
        if sigs:
            pairs += [(k, re.sub(r"\bDEBUG\s*\((?:[^()\"]|\"(?:\\.|[^\"\\])*\"|\((?:[^()\"]|\"(?:\\.|[^\"\\])*\")*\))*\)\s*;\s*", "", v))
                      for k, v in pin_functions(fname, sigs)]
    # the posting state a posting inherits from its transaction (textual.cc parse_post)
    t = strip_comments(src("textual.cc"))
    m = re.search(r"if \(xact &&\s*\(xact->_state != item_t::UNCLEARED && post->_state == item_t::UNCLEARED\)\)\s*post->set_state\(xact->_state\);", t)
    need(m, "textual.cc: a posting no longer inherits its transaction's state in the expected way")
    pairs.append(("textual.cc:inherit_state", norm_ws(m.group(0))))
    return gen_pairs("Normalised bodies (DEBUG statements removed) of the C++ routines that Model/Reports.lean mirrors.",
                     "reportFns", pairs, ", ".join("src/" + f for f in REPORT_FNS))


MORE = {"Chain": gen_chain, "ReportFns": gen_report_fns}
