"""Translator part of C20: the fixed column reads of the clock directives
(textual.cc), the error messages, the matching chain, create_timelog_xact and
the --day-break loop (timelog.cc), the --day-break / --now plumbing
(session.cc, report.h, times.h) -> lean/LedgerModel/Gen/Timelog.lean.

`acctOffsetBounded` is an *interpreted* shape (closed dictionary): the pinned
tree reads the account at `line + 22` whatever the length of the line; the
repaired forms limit the offset by the length of the line.  Anything else is
"unknown" and breaks the tie.  Everything else is normalised text compared
with the pinned copy Model/TimelogPinned.lean (tools/repin.py Timelog) by
`C20.source_pinned` and `C20.directives_pinned`.
"""
import re
from extract import src, strip_comments, function_body, need, lean_str, lean_list, norm_ws, ExtractError


def _strip_debug(body):
    body = re.sub(r"\b(?:DEBUG|TRACE_START|TRACE_STOP|TRACE_CTOR|TRACE_DTOR|INFO)\s*\((?:[^()]|\([^()]*\))*\)\s*;", "", body)
    return norm_ws(body)


def directive_reads():
    """(dtOffset, dtLen, acctOffset, bounded) from clock_in_directive / clock_out_directive."""
    text = strip_comments(src("textual.cc"))
    res = []
    for fn in ("clock_in_directive", "clock_out_directive"):
        body = function_body(text, r"void\s+instance_t::%s\(char \* line, bool capitalized\)\s*\{" % fn)
        m = re.search(r"string\s+datetime\(line,\s*(\d+),\s*(\d+)\)\s*;", body)
        need(m, "textual.cc %s: `string datetime(line, N, M)` not found" % fn)
        dt = (int(m.group(1)), int(m.group(2)))
        m = re.search(r"char\s*\*\s*p\s*=\s*([^;]*);", body)
        need(m, "textual.cc %s: `char * p = ...;` not found" % fn)
        expr = norm_ws(m.group(1))
        nums = set(int(x) for x in re.findall(r"\b\d+\b", expr))
        # guards placed before the read (e.g. `if (std::strlen(line) <= 22) ...`)
        pre = body[:m.start()]
        guard = re.search(r"(strlen\s*\(\s*line\s*\)|\blen\b)[^;{]*\b(\d+)\b|\b(\d+)\b[^;{]*(strlen\s*\(\s*line\s*\)|\blen\b)", pre)
        if re.fullmatch(r"skip_ws\(line \+ (\d+)\)", expr):
            off = int(re.fullmatch(r"skip_ws\(line \+ (\d+)\)", expr).group(1))
            bounded = bool(guard)
        elif re.search(r"strlen\s*\(\s*line\s*\)|\blen\b", expr) and len(nums) == 1:
            off = nums.pop()
            bounded = True
        else:
            raise ExtractError("textual.cc %s: account read not recognised: %s" % (fn, expr))
        m2 = re.search(r"time_xact_t\s+event\(position,\s*parse_datetime\(datetime\),\s*capitalized,\s*([^,]*find_account\(p\)[^,]*),", body)
        need(m2, "textual.cc %s: time_xact_t event(...) not recognised" % fn)
        call = "timelog.clock_in(event);" if fn == "clock_in_directive" else "context.count += timelog.clock_out(event);"
        need(call in body, "textual.cc %s: %s not found" % (fn, call))
        res.append((dt[0], dt[1], off, bounded))
    need(res[0][:3] == res[1][:3], "clock_in_directive and clock_out_directive read different columns: %r" % (res,))
    # both directives must be bounded for the flag to be true
    return res[0][0], res[0][1], res[0][2], res[0][3] and res[1][3]


def dispatch_letters():
    text = strip_comments(src("textual.cc"))
    out = []
    for ch, fn, cap in (("i", "clock_in_directive", "false"), ("I", "clock_in_directive", "true"),
                        ("o", "clock_out_directive", "false"), ("O", "clock_out_directive", "true")):
        need(re.search(r"case\s+'%s':\s*%s\(line,\s*%s\);\s*break;" % (ch, fn, cap), text),
             "textual.cc: case '%s' no longer calls %s(line, %s)" % (ch, fn, cap))
        out.append((ch, fn, cap))
    need(re.search(r"apply_stack\.pop_front\(\);\s*(?:#if TIMELOG_SUPPORT\s*)?timelog\.close\(\);", text),
         "textual.cc instance_t::parse: timelog.close() at end of input not found")
    return out


def timelog_shapes():
    text = strip_comments(src("timelog.cc"))
    sigs = [("create_timelog_xact", r"void\s+create_timelog_xact\(const time_xact_t& in_event,\s*const time_xact_t& out_event,\s*parse_context_t&\s+context\)\s*\{"),
            ("clock_out_from_timelog", r"std::size_t\s+clock_out_from_timelog\(std::list<time_xact_t>& time_xacts,\s*time_xact_t\s+out_event,\s*parse_context_t&\s+context\)\s*\{"),
            ("time_log_t::close", r"void\s+time_log_t::close\(\)\s*\{"),
            ("time_log_t::clock_in", r"void\s+time_log_t::clock_in\(time_xact_t event\)\s*\{"),
            ("time_log_t::clock_out", r"std::size_t\s+time_log_t::clock_out\(time_xact_t event\)\s*\{")]
    shapes = []
    for name, sig in sigs:
        shapes.append((name, _strip_debug(function_body(text, sig))))
    return shapes


DIRECTIVE_SIG = r"void\s+instance_t::%s\(char \* line, bool capitalized\)\s*\{"


def directive_bodies():
    """Normalised bodies of the two clock directives of textual.cc."""
    text = strip_comments(src("textual.cc"))
    return [("textual.cc:" + fn, norm_ws(function_body(text, DIRECTIVE_SIG % fn)))
            for fn in ("clock_in_directive", "clock_out_directive")]


def error_messages():
    """(function, message) for every throw in timelog.cc, in source order."""
    out = []
    for name, body in timelog_shapes():
        for m in re.finditer(r'throw\s+(?:parse_error|std::logic_error)\s*\(\s*_\("([^"]*)"\)\s*\)', body):
            out.append((name, m.group(1)))
    need(len(out) >= 5, "timelog.cc: fewer than 5 error messages found")
    return out


def match_chain():
    body = dict(timelog_shapes())["clock_out_from_timelog"]
    m = re.match(r"time_xact_t event; if \((.*?)\) \{.*?\} else if \((.*?)\) \{.*?\} else if \((.*?)\) \{.*?\} else \{", body)
    need(m, "timelog.cc clock_out_from_timelog: if / else-if chain not recognised")
    return [m.group(1), m.group(2), m.group(3)]


def plumbing():
    out = []
    s = norm_ws(strip_comments(src("session.cc")))
    m = re.search(r"if \(HANDLED\(day_break\)\) journal->day_break = true;", s)
    need(m, "session.cc: HANDLED(day_break) -> journal->day_break not found")
    out.append(("session.cc:day_break", m.group(0)))
    j = norm_ws(strip_comments(src("journal.cc")))
    m = re.search(r"day_break = false;", j)
    need(m, "journal.cc: day_break default not found")
    out.append(("journal.cc:day_break", m.group(0)))
    r = norm_ws(strip_comments(src("report.h")))
    m = re.search(r"OPTION_\(report_t, now_, DO_\(str\) \{(.*?)\}\);", r)
    need(m, "report.h: option now_ not found")
    out.append(("report.h:now_", m.group(1).strip()))
    t = strip_comments(src("times.h"))
    ms = re.findall(r"#define CURRENT_TIME\(\)\s+\(([^\n]*)\)", t)
    need(ms and all(x.startswith("epoch ? *epoch : ") for x in ms), "times.h: CURRENT_TIME() no longer prefers epoch")
    out.append(("times.h:CURRENT_TIME", "epoch ? *epoch : TRUE_CURRENT_TIME()"))
    c = strip_comments(src("context.h"))
    m = re.search(r"static const std::size_t MAX_LINE = (\d+);", c)
    need(m, "context.h: MAX_LINE not found")
    out.append(("context.h:MAX_LINE", m.group(1)))
    m = re.search(r"char\s+linebuf\[MAX_LINE \+ 1\];", c)
    need(m, "context.h: linebuf[MAX_LINE + 1] not found")
    u = strip_comments(src("utils.h"))
    out.append(("utils.h:skip_ws", _strip_debug(function_body(u, r"inline char \* skip_ws\(char \* ptr\)\s*\{"))))
    out.append(("utils.h:next_element", _strip_debug(function_body(u, r"inline char \* next_element\(char \* buf, bool variable = false\)\s*\{"))))
    return out


def lean_pairs(name, doc, pairs):
    lines = ["/-- %s -/" % doc, "def %s : List (String × String) := [" % name]
    lines.append(",\n".join("  (%s, %s)" % (lean_str(a), lean_str(b)) for a, b in pairs))
    lines.append("]")
    return lines


def body_text(namespace, header):
    dt_off, dt_len, off, bounded = directive_reads()
    letters = dispatch_letters()
    lines = [header, "namespace %s" % namespace, ""]
    lines += ["/-- textual.cc clock_*_directive: `string datetime(line, dtOffset, dtLen)`. -/",
              "def dtOffset : Nat := %d" % dt_off, "def dtLen : Nat := %d" % dt_len, "",
              "/-- textual.cc clock_*_directive: the account is read at `line + acctOffset`. -/",
              "def acctOffset : Nat := %d" % off, ""]
    lines += lean_pairs("dispatch", "textual.cc read_next_directive: letter -> (directive, capitalized)",
                        [(ch, "%s(line, %s)" % (fn, cap)) for ch, fn, cap in letters]) + [""]
    lines += lean_pairs("errorMessages", "timelog.cc: every throw, in source order, as (function, message)", error_messages()) + [""]
    lines += ["/-- timelog.cc clock_out_from_timelog: the conditions of the matching chain, in order (then `else`: search by account). -/",
              "def matchChain : List String := " + lean_list([lean_str(c) for c in match_chain()]), ""]
    lines += lean_pairs("shapes", "timelog.cc: normalised bodies (DEBUG/TRACE statements removed)", timelog_shapes()) + [""]
    lines += lean_pairs("directives", "textual.cc: normalised bodies of clock_in_directive / clock_out_directive", directive_bodies()) + [""]
    lines += lean_pairs("plumbing", "the day-break and now options, CURRENT_TIME, MAX_LINE, skip_ws, next_element", plumbing()) + [""]
    lines.append("end %s" % namespace)
    return "\n".join(lines) + "\n", bounded


def gen_timelog():
    txt, bounded = body_text("Ledger.Gen.Timelog", "/- GENERATED by tools/extract_timelog.py from src/timelog.cc, textual.cc, session.cc, report.h, times.h, context.h, utils.h - do not edit. -/")
    # the interpreted flag lives only in Gen (it legitimately changes when the read is repaired)
    flag = ["/-- textual.cc clock_*_directive: is the fixed offset limited by the length of the line?",
            "    (`skip_ws(line + 22)` with no length test = false: a shorter line is read past its terminator,",
            "    into bytes left in linebuf by earlier lines.) -/",
            "def acctOffsetBounded : Bool := %s" % ("true" if bounded else "false"), ""]
    marker = "end Ledger.Gen.Timelog\n"
    return txt[:-len(marker)] + "\n".join(flag) + "\n" + marker


# Model/TimelogPinned.lean is refreshed, deliberately and together with the model, by
#   python3 tools/repin.py Timelog
MORE = {"Timelog": gen_timelog}

if __name__ == "__main__":
    import sys
    sys.stdout.write(gen_timelog())
