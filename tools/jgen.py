"""Shared structured journal generator: builds a journal AST (plain dicts, JSON
serialisable, consumed by the Lean driver through Model/Journal.lean's
`fromJson`) and renders the same AST to ledger journal text.  Every random
choice comes from the `random.Random` passed in, so a case replays from its seed.

AST
  journal  = {"xacts": [xact, ...], "directives": [...] (optional, free form per check)}
  xact     = {"date": day number (days since 1970-01-01), "aux": day|None, "state": 0|1|2 (none,*,!),
              "code": str, "payee": str, "note": str, "posts": [post, ...],
              "line": first line, "end_line": last line (filled by render)}
  post     = {"account": "A:B:C", "kind": "real"|"virtual"|"bvirtual", "state": 0|1|2,
              "amount": amount|None (None = elided), "cost": cost|None, "assert": amount|None,
              "note": str, "line": line number (filled by render)}
  amount   = {"q": "num/den", "prec": decimals written, "comm": symbol ("" = none)}
  cost     = amount + {"per_unit": bool}     ('@' vs '@@'; q is as written)
"""
import datetime
from fractions import Fraction

EPOCH = datetime.date(1970, 1, 1)


def day_of(y, m, d):
    return (datetime.date(y, m, d) - EPOCH).days


def date_text(n, sep="/"):
    dt = EPOCH + datetime.timedelta(days=n)
    return "%04d%s%02d%s%02d" % (dt.year, sep, dt.month, sep, dt.day)


class Commodity:
    def __init__(self, name, dec=2, prefix=False, space=True, thousands=False):
        self.name, self.dec, self.prefix, self.space, self.thousands = name, dec, prefix, space, thousands

    def needs_quotes(self):
        return any((not ch.isalpha()) and ch not in "$€£¥" for ch in self.name)

    def sym(self):
        return '"%s"' % self.name if self.needs_quotes() else self.name


STD_COMMS = [Commodity("$", 2, prefix=True, space=False, thousands=True), Commodity("EUR", 2),
             Commodity("AAA", 0), Commodity("BTC", 8), Commodity("£", 2, prefix=True, space=False),
             Commodity("XY", 4, thousands=True)]


def dec_digits(q, dec):
    """decimal rendering of a Fraction that has at most `dec` decimals."""
    n = q * 10 ** dec
    assert n.denominator == 1, (q, dec)
    s = str(abs(n.numerator)).rjust(dec + 1, "0")
    ip, fp = (s[:-dec], s[-dec:]) if dec else (s, "")
    return ip, fp


def fmt_amount(q, c, dec=None, thousands=None):
    """Render quantity q (Fraction) of commodity c with `dec` decimals (default c.dec)."""
    dec = c.dec if dec is None else dec
    ip, fp = dec_digits(q, dec)
    if c.thousands if thousands is None else thousands:
        groups = []
        while len(ip) > 3:
            groups.insert(0, ip[-3:])
            ip = ip[:-3]
        groups.insert(0, ip)
        ip = ",".join(groups)
    num = ip + ("." + fp if dec else "")
    sign = "-" if q < 0 else ""
    if not c.name:
        return sign + num
    if c.prefix:
        return sign + c.sym() + (" " if c.space else "") + num
    return sign + num + (" " if c.space else "") + c.sym()


def amt(q, c, dec=None):
    q = Fraction(q)
    return {"q": "%d/%d" % (q.numerator, q.denominator), "prec": c.dec if dec is None else dec, "comm": c.name}


def amt_q(a):
    n, d = a["q"].split("/")
    return Fraction(int(n), int(d))


class Gen:
    """Knobs (all optional): comms, accounts, p_virtual, p_bvirtual, p_cost, p_elide,
    p_state, p_code, p_note, p_aux, max_posts, magnitudes, n_days."""

    def __init__(self, rng, comms=None, accounts=None, **kw):
        self.rng = rng
        self.comms = comms or STD_COMMS[:3]
        self.accounts = accounts or ["Assets:Bank:Checking", "Assets:Bank:Savings", "Assets:Cash", "Expenses:Food",
                                     "Expenses:Food:Out", "Expenses:Rent", "Income:Salary", "Liabilities:Card",
                                     "Equity:Opening"]
        self.kw = dict(p_virtual=0.1, p_bvirtual=0.1, p_cost=0.15, p_elide=0.5, p_state=0.3, p_code=0.2,
                       p_note=0.15, p_aux=0.05, max_posts=5, n_days=700, start=day_of(2019, 1, 1),
                       magnitudes=[10, 1000, 10 ** 6, 10 ** 9], p_multi=0.25)
        self.kw.update(kw)

    def quantity(self, c):
        r = self.rng
        mag = r.choice(self.kw["magnitudes"])
        n = r.randint(1, mag * 10 ** c.dec)
        q = Fraction(n, 10 ** c.dec)
        return q if r.random() < 0.5 else -q

    def posting(self, c=None, q=None, kind=None, account=None):
        r = self.rng
        c = c or r.choice(self.comms)
        q = self.quantity(c) if q is None else q
        if kind is None:
            x = r.random()
            kind = "virtual" if x < self.kw["p_virtual"] else "bvirtual" if x < self.kw["p_virtual"] + self.kw["p_bvirtual"] else "real"
        return {"account": account or r.choice(self.accounts), "kind": kind,
                "state": r.choice([1, 2]) if r.random() < self.kw["p_state"] * 0.3 else 0,
                "amount": amt(q, c), "cost": None, "assert": None, "note": ""}

    def xact(self, balanced=True, off_by=None):
        """A transaction that balances by construction (per commodity, costs
        applied), or is off by `off_by` whole units in one commodity."""
        r = self.rng
        k = self.kw
        n = r.randint(1, k["max_posts"])
        posts = []
        multi = r.random() < k["p_multi"]
        base = r.choice(self.comms)
        for i in range(n):
            c = r.choice(self.comms) if multi else base
            p = self.posting(c=c)
            if p["kind"] != "virtual" and r.random() < k["p_cost"]:
                others = [x for x in self.comms if x.name != c.name]
                if others:
                    cc = r.choice(others)
                    per_unit = r.random() < 0.6
                    price = Fraction(r.randint(1, 500 * 10 ** cc.dec), 10 ** cc.dec)
                    p["cost"] = dict(amt(price, cc), per_unit=per_unit)
            posts.append(p)
        # residual over must-balance postings, per commodity (cost commodity when a cost is given)
        cmap = {c.name: c for c in self.comms}
        res = {}
        for p in posts:
            if p["kind"] == "virtual":
                continue
            q = amt_q(p["amount"])
            if p["cost"]:
                cq = amt_q(p["cost"])
                tot = cq * abs(q) if p["cost"]["per_unit"] else cq
                tot = tot if q > 0 else -tot
                res[p["cost"]["comm"]] = res.get(p["cost"]["comm"], 0) + tot
            else:
                res[p["amount"]["comm"]] = res.get(p["amount"]["comm"], 0) + q
        res = {c: q for c, q in res.items() if q != 0}
        bal_acct = r.choice(self.accounts)
        bal_kind = "real"
        if balanced and res and len(res) == 1 and r.random() < k["p_elide"] or (balanced and len(res) > 1 and r.random() < 0.5):
            posts.append({"account": bal_acct, "kind": bal_kind, "state": 0, "amount": None, "cost": None,
                          "assert": None, "note": ""})
        else:
            for cname, q in sorted(res.items()):
                c = cmap[cname]
                qq = -q
                # a per-unit cost can create more decimals than the commodity has: write them all
                dec = c.dec
                while (qq * 10 ** dec).denominator != 1 and dec < 30:
                    dec += 1
                if (qq * 10 ** dec).denominator != 1:
                    dec = c.dec
                    qq = Fraction(round(qq * 10 ** dec), 10 ** dec)
                p = {"account": bal_acct, "kind": bal_kind, "state": 0, "amount": amt(qq, c, dec), "cost": None,
                     "assert": None, "note": ""}
                posts.append(p)
            if not balanced:
                c = r.choice(self.comms)
                u = off_by if off_by is not None else r.choice([1, -1, 2, 10])
                posts.append({"account": r.choice(self.accounts), "kind": "real", "state": 0,
                              "amount": amt(Fraction(u), c), "cost": None, "assert": None, "note": ""})
        # randomise position of postings
        r.shuffle(posts)
        x = {"date": k["start"] + r.randint(0, k["n_days"]), "aux": None,
             "state": r.choice([1, 2]) if r.random() < k["p_state"] else 0,
             "code": ("c%d" % r.randint(1, 999)) if r.random() < k["p_code"] else "",
             "payee": "payee %d" % r.randint(1, 12), "note": ("n%d" % r.randint(1, 99)) if r.random() < k["p_note"] else "",
             "posts": posts}
        if r.random() < k["p_aux"]:
            x["aux"] = x["date"] + r.randint(1, 20)
        return x

    def journal(self, n, sort_dates=True):
        xs = [self.xact() for _ in range(n)]
        if sort_dates:
            xs.sort(key=lambda x: x["date"])
        return {"xacts": xs}


def render_amount(a, comms):
    cmap = {c.name: c for c in comms}
    c = cmap.get(a["comm"]) or Commodity(a["comm"], a["prec"])
    return fmt_amount(amt_q(a), c, a["prec"])


def render_post(p, comms):
    acct = p["account"]
    if p["kind"] == "virtual":
        acct = "(" + acct + ")"
    elif p["kind"] == "bvirtual":
        acct = "[" + acct + "]"
    st = {0: "", 1: "* ", 2: "! "}[p["state"]]
    s = "    " + st + acct
    if p["amount"] is not None:
        s += "  " + render_amount(p["amount"], comms)
        if p["cost"]:
            s += (" @ " if p["cost"]["per_unit"] else " @@ ") + render_amount(p["cost"], comms)
    if p.get("assert") is not None:
        s += "  = " + render_amount(p["assert"], comms) if p["amount"] is not None else "  = " + render_amount(p["assert"], comms)
    if p.get("note"):
        s += "  ; " + p["note"]
    return s


def render_xact(x, comms, sep="/"):
    head = date_text(x["date"], sep)
    if x.get("aux") is not None:
        head += "=" + date_text(x["aux"], sep)
    if x["state"]:
        head += " " + {1: "*", 2: "!"}[x["state"]]
    if x["code"]:
        head += " (" + x["code"] + ")"
    head += " " + x["payee"]
    if x.get("note"):
        head += "  ; " + x["note"]
    return [head] + [render_post(p, comms) for p in x["posts"]]


def render(journal, comms, header_lines=None, sep="/"):
    """Journal text; fills line numbers into the AST. header_lines: directive lines put first."""
    out = list(header_lines or [])
    for x in journal["xacts"]:
        lines = render_xact(x, comms, sep)
        x["line"] = len(out) + 1
        for i, p in enumerate(x["posts"]):
            p["line"] = len(out) + 2 + i
        out += lines
        x["end_line"] = len(out)
        out.append("")
    return "\n".join(out) + "\n"


def write_tmp(text, suffix=".dat"):
    import tempfile
    f = tempfile.NamedTemporaryFile("w", suffix=suffix, delete=False, encoding="utf-8")
    f.write(text)
    f.close()
    return f.name
