#!/usr/bin/env python3
"""tools/keepseed.py <src dir> <id> <property> "<caught_by / result text>"  — keep a confirmed seeded change under seeded/<id>/."""
import sys, os, json, shutil
ROOT = os.path.dirname(os.path.dirname(os.path.abspath(__file__)))
src, sid, prop, result = sys.argv[1:5]
dst = os.path.join(ROOT, "seeded", sid)
os.makedirs(dst, exist_ok=True)
for f in os.listdir(src):
    if os.path.isfile(os.path.join(src, f)):
        shutil.copy(os.path.join(src, f), dst)
mp = os.path.join(dst, "meta.json")
meta = json.load(open(mp)) if os.path.exists(mp) else {}
meta.update({"property": prop, "breaks": prop,
             "confirmed_by_main_session": "tools/seedtest.py patch.diff %s --confirm demo.sh: builds, 428/428 tests pass on the mutant, demo exits 0 on the clean binary and non-zero on the mutant" % prop,
             "check_result": result})
json.dump(meta, open(mp, "w"), indent=1)
print("kept", dst)
