#!/usr/bin/env python3
"""Writes /verif/MANIFEST.json from the table below (kept valid at all times)."""
import json, os
ROOT = os.path.dirname(os.path.dirname(os.path.abspath(__file__)))

TRUST = ("Trusted: Lean 4.33 kernel (axioms propext, Classical.choice, Quot.sound only; audited per theorem on every run; "
         "no native_decide/bv_decide/sorry), tools/extract.py (translator of constants, tables and dispatch cells), the "
         "differential harness under tools/ (generators, canonicaliser), the hook verif_rational. The Lean model is hand-written; "
         "what ties it to /repo is the regenerated Gen/*.lean under the theorems and the model-vs-binary correspondence on every run.")

CHECKS = {}

NOT_YET = {}

def collect():
    """tools/props/cXX.py may define MANIFEST = dict(text=, note=, technique=, ref=[, category=])."""
    import sys, importlib, glob
    sys.path.insert(0, os.path.join(ROOT, "tools"))
    sys.path.insert(0, os.path.join(ROOT, "tools", "props"))
    for p in sorted(glob.glob(os.path.join(ROOT, "tools", "props", "c[0-9]*.py"))):
        name = os.path.basename(p)[:-3]
        mod = importlib.import_module(name)
        m = getattr(mod, "MANIFEST", None)
        if m:
            d = dict(m)
            d["note"] = TRUST + " " + d.get("note", "")
            CHECKS[name.upper()] = d


def main():
    collect()
    props = [json.loads(l) for l in open(os.path.join(ROOT, "properties.jsonl"))]
    checks = []
    na = []
    for p in props:
        pid = p["id"]
        if pid in CHECKS:
            c = CHECKS[pid]
            checks.append({
                "property_id": pid,
                "quick_cmd": "./vf check %s --tier quick" % pid,
                "thorough_cmd": "./vf check %s --tier thorough" % pid,
                "evidence_file": "evidence/%s.json" % pid,
                "replay_cmd_template": "./vf replay {path}",
                "engine": "lean4-model",
                "level_claimed": {"category": c.get("category", "proof"), "text": c["text"], "design_ref": c["ref"]},
                "level_note": c["note"],
                "technique": c["technique"],
            })
        else:
            na.append({"property_id": pid, "reason": NOT_YET.get(pid, "check not built yet in this round (planned, see DESIGN.md §13); not claimed until its theorems and correspondence run")})
    m = {
        "version": 1,
        "setup_cmd": "./vf setup",
        "hooks": {
            "guard": "LEDGER_VERIF",
            "enable": "cmake -S /repo -B /verif/.build/hooks -DCMAKE_CXX_FLAGS=-DLEDGER_VERIF (done by ./vf setup and by every check via ninja)",
            "baseline_off_cmd": "cmake -G Ninja -S /repo -B /verif/.build/off -DCMAKE_BUILD_TYPE=RelWithDebInfo -DCMAKE_CXX_FLAGS=-Wno-error > /dev/null && cmake --build /verif/.build/off > /dev/null && ctest --test-dir /verif/.build/off -j8 --timeout 900",
            "source_commits": ["8414e82"],
            "add_only": True,
        },
        "engines": [{"name": "lean4-model", "path": "lean/", "serves_properties": [c["property_id"] for c in checks],
                     "kind_free_text": "hand-written executable Lean 4 model + theorems (lake project, core Lean), regenerated Gen tables, compiled line-protocol driver; python orchestrator ./vf"}],
        "checks": checks,
        "not_applicable": na,
        "notes": "All checks: ./vf check <id> --tier quick|thorough (honours VERIF_SEED, VERIF_TIER). Known findings: known_findings.json. See DESIGN.md.",
    }
    with open(os.path.join(ROOT, "MANIFEST.json"), "w") as f:
        json.dump(m, f, indent=1)
    print("MANIFEST.json: %d checks, %d not claimed" % (len(checks), len(na)))

if __name__ == "__main__":
    main()
