#!/usr/bin/env python3
"""List every Gen/X.lean whose pinned copy Model/XPinned.lean differs, with the keys that changed."""
import os, re, glob
ROOT = os.path.dirname(os.path.dirname(os.path.abspath(__file__)))
M = os.path.join(ROOT, "lean/LedgerModel/Model")
G = os.path.join(ROOT, "lean/LedgerModel/Gen")
def pairs(txt):
    return dict(re.findall(r'\("((?:[^"\\]|\\.)*)", "((?:[^"\\]|\\.)*)"\)', txt))
for pp in sorted(glob.glob(os.path.join(M, "*Pinned.lean"))):
    name = os.path.basename(pp)[:-len("Pinned.lean")]
    gp = os.path.join(G, name + ".lean")
    if not os.path.exists(gp):
        continue
    g = open(gp, encoding="utf-8").read(); p = open(pp, encoding="utf-8").read()
    gb = g.split("namespace Ledger.Gen", 1)[-1].replace("Ledger.Gen", "X")
    pb = p.split("namespace Ledger.Pinned", 1)[-1].replace("Ledger.Pinned", "X")
    if gb == pb:
        continue
    a, b = pairs(gb), pairs(pb)
    ch = [k for k in a if a.get(k) != b.get(k)] + [k for k in b if k not in a]
    print(name, "differs:", ch if ch else "(non-pair content)")
