"""C01 — a transaction is accepted if and only if its postings balance.

Theorems: lean/LedgerModel/Props/C01.lean over the model of
xact_base_t::finalize in Model/Finalize.lean (shared with C02).
Tie: (a) Gen/Finalize.lean — the statements of finalize, add_balancing_post,
sorted_amounts, compare_by_commodity, add_xact, the textual.cc cost / error
path, and the whole bodies of those functions, re-extracted on every run and
compared with the pinned copy by `C01.finalize_shape_pinned : … := rfl`;
(b) driver ops `xact.fin` / `journal.fin` against the rebuilt binary: exit
status, stderr kind, `reg --empty --format` rows with exact quantities, cost,
calculated / cost_calculated flags, and the `-B` grand total of the balancing
postings.  Oracle (plain Fractions on ledger's own output, no Lean): see
finalize_common.oracle_c01 and run_journals.
"""
import os, sys, json, glob
import vflib
from vflib import Check
import finalize_common as fc

MANIFEST = dict(
    text="Machine-checked proof (Lean 4) over a step-by-step model of xact_base_t::finalize and the journal step: an accepted "
         "transaction's exact residual (costs applied, inferred postings included) prints as zero in every commodity; on the "
         "exact fragment (no costs/lots, amounts within display precision, implicit two-commodity rate included) it is exactly 0; a "
         "lot-priced posting with a cost ends at its basis cost lot price x quantity and exactly basis - cost goes to the balance; no "
         "null posting + a residual that does not print as zero => 'Transaction does not balance'; a rejected transaction is "
         "absent from the journal state and counted once; the -B grand total is the sum of per-transaction residuals and exactly "
         "0 on the exact fragment (induction over the journal). The statements and whole bodies of finalize / add_xact / the "
         "textual.cc error path are re-extracted and pinned by an rfl theorem; the model is run against the rebuilt binary on "
         "boundary, bounded-exhaustive and random transactions and journals; an independent Fraction oracle on ledger's own "
         "exit status, stderr and report rows supplies the failing input.",
    note="Lots are modelled: annotated commodities are commodities of their own (key BASE{exact price}[date](tag), the encoding of "
         "C05's Model/Reports.lean), exchange()'s computed annotation, the basis cost and the gain/loss adjustment of xact.cc 296-352, "
         "{{total}} and {=fixed} prices, compare_by_commodity order; observed through reg --lots with exact lot prices. "
         "Not modelled: ((value expressions)) in annotations, @ =fixed costs, (@) virtual costs, the price-history side of exchange(), "
         "scaling commodities; the pool's first-writer-wins sharing of annotation flags/precision (generators write one lot one way); "
         "hash-map enumeration order is a parameter (only the "
         "zero-amount-top-posting corner of the implicit exchange depends on it). A residual of exactly half a display unit is "
         "decided by MPFR's binary approximation (model rounds half-even): not compared. Sub-display-unit residuals from costs "
         "accumulate in bal -B (6 x `3 XX @ $0.333` vs `$-1.00` ends in $-0.01): outside the property's quantifier, inside the "
         "model correspondence.",
    technique="Lean 4 proof (invariant bal.den = residual through finalize; induction over the journal) + pinned source shape + "
              "differential model/binary check + implementation-side oracle",
    ref="DESIGN.md §5 C01")


def corpus_cases():
    out = []
    for p in sorted(glob.glob(os.path.join(vflib.ROOT, "corpus", "C01", "*.json"))):
        with open(p) as f:
            out.append(json.load(f))
    return out


def run(tier, seed):
    ctx = Check("C01", tier, seed)
    ctx.mism = []
    ctx.failing = []
    ctx.rule = ("transactions of 1-8 postings over 1-5 commodities (prefix/suffix, thousands marks, quoted, 0-8 decimals), "
                "real/(virtual)/[bracketed] postings, @ and @@ costs, states, magnitudes 1e-8..1e20, display precision optionally "
                "raised by an earlier transaction; families: boundary (residual 0 / half / one display unit, two commodities, "
                "bucket, bracketed-only, cancelling commodities, lots bought/sold at/above/below the lot price ...), bounded-exhaustive small, "
                "lots ({price} {{total}} {=fixed} [date] (tag) with/without @ and @@, sells, gains posted or elided), balanced-by-construction, off by >= 1 unit at a chosen "
                "posting, implicit two-commodity rate, sub-unit cost residuals, oddities; journals of 3-12 transactions with "
                "bucket directives. non-trivial = >= 2 commodities or a cost or a bracketed posting or |q| > 1e9 or an elided "
                "amount not in last position; distinct by journal text")
    ctx.assumptions = ["GMP rational arithmetic is exact", "commodity display precision = max decimals of the posting amounts read so far "
                       "(costs are parsed with PARSE_NO_MIGRATE)", "hash-map enumeration order of the residual is a model parameter",
                       "a lot-priced posting with a cost is valued at its basis cost (lot price x quantity) when price and cost share a commodity (xact.cc 301-327)",
                       "value-expression annotations, fixed (@ =) and virtual ((@)) costs and scaling commodities are outside the model and the generators",
                       "exactly-half-a-display-unit residuals are not compared (MPFR tie)"]
    # the model-coherence layer (the four independently written finalize fragments, the three per-account
    # sum fragments and the display-zero tests agree on their common domain) rides on this check
    if not ctx.prepare(extra_modules=["LedgerModel.Props.Coherence"]):
        return ctx.finish()
    search = bool(ctx.ties_broken)
    if search:
        vflib.log("C01: a proof obligation / extractor broke: widening every stream to search for a failing input")
        ctx.feature("search-mode")
    thorough = ctx.tier == "thorough"
    k = (80 if thorough else 5) * (3 if search else 1)
    rng = ctx.rng
    g = fc.TGen(rng)
    cases = corpus_cases()
    cases += fc.boundary_cases(rng)
    exh = fc.exhaustive_small()
    ctx.extra_cov["exhaustive_small_total"] = len(exh)
    if thorough or search:
        cases += exh
        ctx.exhaustive = "<=3 postings x 2 commodities x 3 kinds x {elided, explicit} x 5 magnitudes x {balanced, +1, -1 unit}: %d cases" % len(exh)
    else:
        step = 7
        off = rng.randint(0, step - 1)
        cases += exh[off::step]
    for fam, n in ((g.balanced, 150), (g.off_by, 150), (g.implicit, 60), (g.sub_unit, 80), (g.single, 30),
                   (g.one_null, 40), (g.two_nulls, 15), (g.oddities, 30), (g.cancelling, 80), (g.lots, 200), (g.bucket_decls, 40)):
        cases += [fam() for _ in range(n * k)]
    fc.run_cases(ctx, cases, fc.oracle_c01)
    journals = []
    for i in range(30 * k):
        journals.append(fc.gen_journal(rng, rng.randint(3, 12), p_bad=0.0, exact_only=True))
    for i in range(15 * k):
        journals.append(fc.gen_journal(rng, rng.randint(3, 12), p_bad=0.0, exact_only=False))
    for i in range(15 * k):
        journals.append(fc.gen_journal(rng, rng.randint(3, 12), p_bad=0.25, exact_only=True))
    for i in range(10 * k):
        journals.append(fc.gen_lot_journal(rng, rng.randint(3, 10)))
    # the remark of DESIGN §5 C01: many sub-unit residuals add up (model correspondence only)
    six = []
    for i in range(6):
        p = fc.post("A", "real", jgen_amt(3, "AAA"))
        p["cost"] = dict(fc.jgen.amt(fc.F(333, 1000), fc.CMAP["$"], 3), per_unit=True)
        six.append(("xact", fc.xact([p, fc.post("B", "real", fc.amt(-1, "$"))], date=fc.jgen.day_of(2020, 2, 1 + i), payee="s%d" % i)))
    journals.append(six)
    fc.run_journals(ctx, journals)
    fc.report_failures(ctx, fc.oracle_c01)
    ctx.extra_cov["oracle_failures"] = len(ctx.failing)
    if ctx.mism:
        ctx.extra_cov["mismatches"] = ctx.mism[:8]
    return ctx.finish()


def jgen_amt(q, cname):
    return fc.amt(q, cname)


def replay(obj):
    r = obj.get("replay", {})
    vflib.ensure_ledger()
    if "case" in r:
        case = r["case"]
        led = fc.run_ledger(case)
        print(fc.case_text(case))
        print("class:", fc.classify(case))
        print("ledger now: rc=%s kind=%s" % (led["rc"], led["kind"]))
        print("\n".join(fc.show_rows(led["rows"])))
        fails = fc.oracle_c01(case, led) + fc.oracle_c02(case, led)
        for fp, what in fails:
            print("FAILS", fp, what)
        return 1 if fails else 0
    if r.get("items"):
        print(r["journal"])
        fails, ties = fc.replay_journal(r["items"])
        for fp, what in fails:
            print("FAILS", fp, what)
        for name, detail in ties:
            print("MODEL/LEDGER DISAGREE", name)
        return 1 if fails else 0
    if "journal" in r:
        res = fc.run_ledger_text(r["journal"], extra_cmds=[["bal", "-B", "--empty", "--limit", fc.LIMIT_MUST_BALANCE]])
        print(r["journal"])
        print("ledger now: rc=%s errors=%s" % (res["rc"], res["nerr"]))
        print(res["extra"][0][1])
        return 1
    print(json.dumps(obj, indent=1)[:3000])
    return 1
