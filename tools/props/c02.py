"""C02 — an elided amount is inferred as the exact negation of the rest.

Theorems: lean/LedgerModel/Props/C02.lean over the model of
xact_base_t::finalize / add_balancing_post in Model/Finalize.lean (shared with
C01).  Tie: the pinned source shape (`C02.finalize_shape_pinned`) and the
driver op `xact.fin` against the rebuilt binary, with the elided posting at
every position, 1-6 other postings over 1-4 commodities, costs, (virtual) and
[bracketed] postings, with / without an `A` bucket directive, two elided
amounts.  Oracle (plain Fractions on ledger's `reg` rows, no Lean):
finalize_common.oracle_c02.
"""
import os, sys, json, glob
import vflib
from vflib import Check
import finalize_common as fc

MANIFEST = dict(
    text="Machine-checked proof (Lean 4) over the model of xact_base_t::finalize / add_balancing_post: with exactly one elided "
         "must-balance amount at any index the result carries, per commodity of the residual in symbol order, exactly minus the sum "
         "of the other must-balance postings' cost-or-amount - the first in the elided posting, one generated posting on the same "
         "account per further commodity, all flagged calculated - and sums to exactly 0; two elided amounts are an error; a single "
         "posting is balanced on the bucket account; the cost commodity is what is offset; the result does not depend on the hash "
         "order of the residual (sort by symbol, each commodity once). Source shape pinned by an rfl theorem; model run against the "
         "rebuilt binary with the elided posting at every position; an independent Fraction oracle on ledger's reg rows supplies "
         "the failing input.",
    note="Lots are modelled (see C01): an elided posting next to lots gets one inferred posting per ANNOTATED commodity, in "
         "compare_by_commodity order; next to a lot sale with a cost it absorbs the difference to the basis cost (ledger's behaviour). "
         "Ordinary and [bracketed] postings share one residual (as the binary does): a real elided posting also offsets bracketed "
         "amounts. A commodity whose other postings cancel still gets a zero inferred posting when the residual has several entries "
         "(modelled; the oracle accepts a zero row or none). ITEM_GENERATED is not observable through reg --format; `calculated` is.",
    technique="Lean 4 proof (residual invariant + sorted-enumeration independence) + pinned source shape + differential model/binary "
              "check + implementation-side oracle",
    ref="DESIGN.md §5 C02")


def corpus_cases():
    out = []
    for p in sorted(glob.glob(os.path.join(vflib.ROOT, "corpus", "C02", "*.json"))):
        with open(p) as f:
            out.append(json.load(f))
    return out


def run(tier, seed):
    ctx = Check("C02", tier, seed)
    ctx.mism = []
    ctx.failing = []
    ctx.rule = ("transactions with one amount-less posting at every position among 1-6 other postings over 1-4 commodities "
                "(prefix/suffix, thousands, quoted, 0-8 decimals), @/@@ costs on the others, (virtual)/[bracketed] kinds, with and "
                "without an `A` bucket directive; single-posting transactions with a bucket; two or three elided amounts (incl. "
                "accounts ending in a digit); lots next to the elided posting; boundary stream; the elided part of the bounded-exhaustive small set. non-trivial = "
                ">= 2 commodities or a cost or a bracketed posting or the elided posting not last; distinct by journal text")
    ctx.assumptions = ["GMP rational arithmetic is exact", "hash-map enumeration order of the residual is a model parameter "
                       "(C02.fill_order_free: irrelevant when a posting is elided)",
                       "value-expression annotations, fixed / virtual costs and scaling commodities are outside the model and the generators"]
    if not ctx.prepare():
        return ctx.finish()
    search = bool(ctx.ties_broken)
    if search:
        vflib.log("C02: a proof obligation / extractor broke: widening every stream to search for a failing input")
        ctx.feature("search-mode")
    thorough = ctx.tier == "thorough"
    k = (80 if thorough else 5) * (3 if search else 1)
    rng = ctx.rng
    g = fc.TGen(rng)
    cases = corpus_cases()
    cases += fc.boundary_cases(rng)
    # the elided posting at every position x number of others x number of commodities x bucket
    sweep = 0
    for n_other in range(1, 7):
        for ncomm in range(1, 5):
            for pos in range(n_other + 1):
                for rep in range(k if not thorough else 3 * k):
                    cases.append(g.one_null(n_other=n_other, ncomm=ncomm, pos=pos, bucket=fc.BUCKET if (pos + rep) % 2 else None))
                    sweep += 1
    ctx.extra_cov["position_sweep"] = sweep
    exh = [c for c in fc.exhaustive_small() if c["tag"] == "exh:elided"]
    ctx.extra_cov["exhaustive_elided_total"] = len(exh)
    if thorough or search:
        cases += exh
        ctx.exhaustive = "elided closing posting at every position over <=2 free postings x 2 commodities x 3 kinds x 5 magnitudes: %d cases" % len(exh)
    else:
        step = 5
        cases += exh[rng.randint(0, step - 1)::step]
    for fam, n in ((g.one_null, 120), (g.two_nulls, 60), (g.single, 80), (g.oddities, 30), (g.balanced, 30), (g.cancelling, 120), (g.lots, 200), (g.bucket_decls, 120)):
        cases += [fam() for _ in range(n * k)]
    fc.run_cases(ctx, cases, fc.oracle_c02)
    fc.run_bucket_journals(ctx, [fc.gen_bucket_journal(rng, rng.randint(2, 8)) for _ in range(40 * k)])
    fc.report_failures(ctx, fc.oracle_c02)
    ctx.extra_cov["oracle_failures"] = len(ctx.failing)
    if ctx.mism:
        ctx.extra_cov["mismatches"] = ctx.mism[:8]
    return ctx.finish()


def replay(obj):
    r = obj.get("replay", {})
    vflib.ensure_ledger()
    if r.get("items"):
        print(r["journal"])
        fails, ties = fc.replay_journal(r["items"])
        for fp, what in fails:
            print("FAILS", fp, what)
        return 1 if fails else 0
    if "case" in r:
        case = r["case"]
        led = fc.run_ledger(case)
        print(fc.case_text(case))
        print("class:", fc.classify(case))
        print("ledger now: rc=%s kind=%s" % (led["rc"], led["kind"]))
        print("\n".join(fc.show_rows(led["rows"])))
        fails = fc.oracle_c02(case, led)
        for fp, what in fails:
            print("FAILS", fp, what)
        return 1 if fails else 0
    print(json.dumps(obj, indent=1)[:3000])
    return 1
