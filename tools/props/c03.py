"""C03 — amount arithmetic is exact rational arithmetic.

Theorems: lean/LedgerModel/Props/C03.lean (denotation homomorphism of the
value_t dispatch lattice).  Tie: Gen.ValueCells / Gen.Consts regenerated from
value.cc, and this differential check of `Value.*` (driver op val.rpn) against
`ledger eval verif_rational(EXPR)` REPL batches.  Oracle on the implementation:
an independent exact evaluation with Python Fractions of every generated
expression whose meaning is unambiguous (see oracle()).
"""
import sys, os, re, itertools
from fractions import Fraction
import vflib
from vflib import Check

MANIFEST = dict(
    text="Machine-checked proof (Lean 4) that the value_t/balance_t/amount_t dispatch preserves the exact rational denotation of "
         "every operand for + - * / neg and that ==/< decide the order of exact quantities (24 theorems, all operands, no size bound); "
         "the dispatch cells are re-extracted from value.cc on every run (C03.cells_pinned, Gen.Consts flags) and the model is run "
         "against the rebuilt binary on every ordered type pair x operator plus random trees; an independent Fraction oracle on "
         "ledger's own answers supplies the failing input when a proof or the tie breaks.",
    note="Modelled, not verified: GMP is exact; long cells on Int (no overflow); INTEGER/INTEGER is C long division by design. "
         "Known findings (known_findings.json): INTEGER/AMOUNT operand swap (pinned by a unit test), zero components kept by balance +=.",
    technique="Lean 4 proof of denotation homomorphism + regenerated dispatch table + differential model/binary check",
    ref="DESIGN.md §5 C03")

COMMS = {"EUR": 2, "USD": 4, "XAU": 0, "BTC": 8, "PQ": 20}
WARM = 'eval "0.00 EUR + 0.0000 USD + 0 XAU + 0.00000000 BTC + 0.00000000000000000000 PQ"'
ENV = ",".join("%s=%d" % kv for kv in COMMS.items())


class Leaf:
    def __init__(self, kind, q, dec=0, comm=""):
        self.kind, self.q, self.dec, self.comm = kind, q, dec, comm  # kind: int | amt

    def text(self):
        if self.kind == "int":
            return "int(%d)" % self.q
        s = dec_str(abs(self.q), self.dec)
        if self.comm:
            s = s + " " + self.comm
        return "(-%s)" % s if self.q < 0 else s

    def rpn(self):
        if self.kind == "int":
            return ["i:%d" % self.q]
        return ["a:%d/%d:%d:0:%s" % (self.q.numerator, self.q.denominator, self.dec, self.comm)]

    def depth(self):
        return 0


class Node:
    def __init__(self, op, kids):
        self.op, self.kids = op, kids

    def text(self):
        if self.op == "neg":
            return "(-%s)" % self.kids[0].text()
        if self.op == "abs":
            return "abs(%s)" % self.kids[0].text()
        return "(%s %s %s)" % (self.kids[0].text(), self.op, self.kids[1].text())

    def rpn(self):
        out = []
        for k in self.kids:
            out += k.rpn()
        return out + [self.op]

    def depth(self):
        return 1 + max(k.depth() for k in self.kids)


def dec_str(q, dec):
    n = q * 10 ** dec
    assert n.denominator == 1
    s = str(n.numerator).rjust(dec + 1, "0")
    return s if dec == 0 else s[:-dec] + "." + s[-dec:]


# ---- independent oracle -----------------------------------------------------
# value = dict commodity -> Fraction  (a finitely supported function), plus a tag
# saying whether the expression is an INTEGER (C long semantics for int/int).


class Undefined(Exception):
    pass


def oracle(t):
    """Exact meaning of the expression, or Undefined where the property does
    not determine it (error cells, integer/integer division, comparisons of
    balances)."""
    if isinstance(t, Leaf):
        return ({t.comm: Fraction(t.q)} if t.q != 0 else {}), t.kind == "int"
    vs = [oracle(k) for k in t.kids]
    if t.op == "neg":
        return {c: -q for c, q in vs[0][0].items()}, vs[0][1]
    if t.op == "abs":
        return {c: abs(q) for c, q in vs[0][0].items()}, vs[0][1]
    (a, ai), (b, bi) = vs
    if t.op in "+-":
        r = dict(a)
        for c, q in b.items():
            r[c] = r.get(c, 0) + (q if t.op == "+" else -q)
        return {c: q for c, q in r.items() if q != 0}, ai and bi
    if t.op in "*/":
        # defined when the right operand is a single quantity and (it has no
        # commodity, or the left operand is a single quantity)
        if len(b) > 1 or len(a) > 1 and any(c for c in b):
            raise Undefined
        if len(a) > 1 and len(b) == 1 and "" not in b:
            raise Undefined
        y = list(b.values())[0] if b else Fraction(0)
        if t.op == "/":
            if ai and bi:
                raise Undefined  # C long division
            if y == 0:
                raise Undefined
            y = 1 / y
        if len(a) <= 1:
            x = list(a.values())[0] if a else Fraction(0)
            ca = list(a.keys())[0] if a else ""
            cb = list(b.keys())[0] if b else ""
            comm = ca or cb
            r = x * y
            return ({comm: r} if r != 0 else {}), ai and bi
        return {c: q * y for c, q in a.items() if q * y != 0}, False
    if t.op in ("==", "!=", "<", "<=", ">", ">="):
        if len(a) > 1 or len(b) > 1:
            raise Undefined
        ca = list(a.keys())[0] if a else None
        cb = list(b.keys())[0] if b else None
        x = list(a.values())[0] if a else Fraction(0)
        y = list(b.values())[0] if b else Fraction(0)
        if ca is not None and cb is not None and ca != cb:
            raise Undefined
        if ca is None or cb is None:
            raise Undefined  # a zero operand: whether 0 and 0.00 EUR are "equal" is not fixed by the property
        return {"bool": {"==": x == y, "!=": x != y, "<": x < y, "<=": x <= y, ">": x > y, ">=": x >= y}[t.op]}, False
    raise Undefined


def den_of_answer(ans):
    """Parse a verif_rational answer into commodity -> Fraction (zero entries dropped)."""
    tag, _, rest = ans.partition(":")
    if tag == "I":
        n = int(rest)
        return {"": Fraction(n)} if n else {}
    if tag == "A":
        parts = [rest]
    elif tag == "B":
        parts = rest.split(";") if rest else []
    elif tag == "T":
        return {"bool": rest == "true"}
    else:
        return None
    d = {}
    for p in parts:
        q, prec, keep, comm = p.split(":", 3)
        n, dd = q.split("/")
        f = Fraction(int(n), int(dd))
        if f != 0:
            d[comm] = d.get(comm, 0) + f
    return d


# ---- generators ---------------------------------------------------------------


def gen_leaf(rng, kind=None):
    kind = kind or rng.choice(["int", "plain", "plain", "comm", "comm", "comm"])
    if kind == "int":
        return Leaf("int", rng.choice([0, 1, -1, 2, 3, 7, 10, -12, 100, 12345, rng.randint(-10 ** 6, 10 ** 6)]))
    if kind == "plain":
        dec = rng.choice([0, 0, 1, 2, 3, 6, 12, 20])
        digits = rng.choice([1, 2, 3, 5, 9, 15, 22, 40])
        n = rng.randint(0, 10 ** digits)
        if rng.random() < 0.1:
            n = 0
        q = Fraction(n, 10 ** dec) * rng.choice([1, 1, -1])
        return Leaf("amt", q, dec, "")
    comm = rng.choice(list(COMMS))
    dec = rng.randint(0, COMMS[comm])
    digits = rng.choice([1, 2, 3, 5, 9, 15, 22, 40])
    n = rng.randint(0, 10 ** digits)
    if rng.random() < 0.07:
        n = 0
    q = Fraction(n, 10 ** dec) * rng.choice([1, 1, -1])
    return Leaf("amt", q, dec, comm)


BIN = ["+", "-", "*", "/"]
CMP = ["==", "!=", "<", "<=", ">", ">="]


def gen_tree(rng, depth):
    if depth == 0 or rng.random() < 0.15:
        return gen_leaf(rng)
    r = rng.random()
    if r < 0.08:
        return Node("neg", [gen_tree(rng, depth - 1)])
    if r < 0.14:
        return Node("abs", [gen_tree(rng, depth - 1)])
    op = rng.choice(["+", "+", "-", "-", "*", "/"])
    if op in "*/" and rng.random() < 0.8:
        # mostly-valid stream: scale by a scalar (the cells the code defines); the rest is the malformed stream
        right = gen_leaf(rng, rng.choice(["plain", "plain", "int"]))
        if op == "/" and right.q == 0:
            right = Leaf("amt", Fraction(3, 2), 1, "")
        return Node(op, [gen_tree(rng, depth - 1), right])
    return Node(op, [gen_tree(rng, depth - 1), gen_tree(rng, depth - 1)])


def type_representatives():
    """One or two operands of every numeric type: integer, plain amount,
    commoditized amount (two commodities), one- and two-commodity balance."""
    F = Fraction
    e1 = Leaf("amt", F(5, 2), 2, "EUR")
    e2 = Leaf("amt", F(-1, 4), 2, "EUR")
    u1 = Leaf("amt", F(3), 0, "USD")
    reps = {
        "int": [Leaf("int", 10), Leaf("int", -3), Leaf("int", 0)],
        "plain": [Leaf("amt", F(5, 2), 1, ""), Leaf("amt", F(-1, 8), 3, ""), Leaf("amt", F(0), 0, "")],
        "comm": [e1, e2, u1, Leaf("amt", F(0), 2, "EUR")],
        "bal1": [Node("-", [Node("+", [e1, u1]), u1])],          # simplifies to an amount
        "bal1b": [Node("+", [Node("+", [e1, u1]), Node("neg", [u1])])],   # stays a balance with a zero entry
        "bal2": [Node("+", [e1, u1]), Node("+", [Node("+", [e2, u1]), Leaf("amt", F(7, 2), 1, "")])],
    }
    return reps


def run_cases(ctx, cases):
    """cases: list of trees. Runs both sides, compares, applies the oracle."""
    lines = [WARM] + ['eval "verif_rational(%s)"' % t.text() for t in cases]
    # chunked REPL batches, each with its own warm-up line
    CH = 300
    chunks = [cases[i:i + CH] for i in range(0, len(cases), CH)]

    def one(chunk):
        ls = [WARM] + ['eval "verif_rational(%s)"' % t.text() for t in chunk]
        res, rc = vflib.repl_batch(ls)
        return res[1:]
    outs = []
    for r in vflib.pmap(one, chunks):
        outs += r
    model = vflib.driver_run(["val.rpn\t" + ENV + "\t" + "\t".join(t.rpn()) for t in cases])
    for t, out, m in zip(cases, outs, model):
        ctx.count()
        text = t.text()
        if out is None:
            # the process died (e.g. SIGFPE on int/int by zero): memory/trap safety is C11's
            # subject; here it is a correspondence difference unless the model also errors
            ctx.feature("impl:died")
            if not m.startswith("err"):
                ctx.tie_broken("corr:val.rpn", "ledger died on %s, model=%r" % (text, m))
                ctx.mism.append({"expr": text, "model": m, "ledger": "died"})
            continue
        out = out.strip()
        ek = vflib.err_kind(out)
        if ek:
            impl = "err\t" + ek
        else:
            impl = "ok\t" + out.split("\n")[-1]
        ctx.feature("impl:" + (ek or impl[3:4]))
        if isinstance(t, Node):
            ctx.feature("op:" + t.op)
        if impl != m and order_dependent(t):
            ctx.feature("order-dependent-comparison-skipped")
        elif impl != m and impl.startswith("err") and m.startswith("err") and t.depth() >= 2:
            ctx.feature("error-kind-order-ambiguous")  # C++ operand evaluation order is unspecified
        elif impl != m:
            ctx.tie_broken("corr:val.rpn", "model and ledger disagree on %s: model=%r ledger=%r" % (text, m, impl))
            ctx.mism.append({"expr": text, "model": m, "ledger": impl})
        # property oracle on the implementation's answer
        try:
            want, _ = oracle(t)
        except Undefined:
            want = None
        if want is not None:
            if ek:
                # an error where the exact result is defined: only "Divide by zero"
                # on a divisor that displays as zero is legitimate
                if ek == "divZero":
                    pass
                else:
                    ctx.feature("oracle:error-on-defined")
            else:
                got = den_of_answer(impl[3:])
                if got is not None and got != want:
                    ctx.failing.append(t)
                ctx.traces_validated += 1
        if t.depth() >= 1 and (mixed(t) or big(t)):
            ctx.nontrivial(text)
        ctx.sample({"expr": text, "ledger": impl, "model": m}, cap=5)


def comms_of(t):
    try:
        v, _ = oracle_loose(t)
    except Undefined:
        return None
    return v


def oracle_loose(t):
    """commodity support of an arithmetic sub-expression (zero entries kept)."""
    if isinstance(t, Leaf):
        return {t.comm}, False
    if t.op in ("neg", "abs"):
        return oracle_loose(t.kids[0])
    a, _ = oracle_loose(t.kids[0])
    b, _ = oracle_loose(t.kids[1])
    if t.op in "+-":
        return a | b, False
    if t.op in "*/":
        return (b if a == {""} else a), False
    raise Undefined


_LT_SORTED = None


def lt_balance_sorted():
    """Gen.ltBalanceSorted as regenerated from value.cc on this run."""
    global _LT_SORTED
    if _LT_SORTED is None:
        try:
            with open(os.path.join(vflib.LEAN, "LedgerModel", "Gen", "Consts.lean"), encoding="utf-8") as f:
                _LT_SORTED = "def ltBalanceSorted : Bool := true" in f.read()
        except OSError:
            _LT_SORTED = False
    return _LT_SORTED


def order_dependent(t):
    """`<`-family comparison between a balance of >= 2 commodities and a value
    of one of them: value.cc walks the unordered_map and stops at the first
    component that decides, so whether the comparison errors ("different
    commodities") or answers depends on the hash order.  The model fixes
    insertion order; such cells are excluded from the tie (and reported under
    C19)."""
    if lt_balance_sorted():
        return False   # the source walks sorted_amounts: deterministic, compared like any other cell
    if isinstance(t, Node) and t.op in ("<", "<=", ">", ">="):
        a, b = comms_of(t.kids[0]), comms_of(t.kids[1])
        return (a is not None and len(a) >= 2) or (b is not None and len(b) >= 2)
    return False


def eval_impl(trees):
    ls = [WARM] + ['eval "verif_rational(%s)"' % t.text() for t in trees]
    res, rc = vflib.repl_batch(ls)
    outs = []
    for o in res[1:]:
        if o is None:
            outs.append(None)
            continue
        o = o.strip()
        outs.append(None if vflib.err_kind(o) else o.split("\n")[-1])
    return outs


def fails(t, ans):
    try:
        want, _ = oracle(t)
    except Undefined:
        return False
    if ans is None:
        return False
    got = den_of_answer(ans)
    return got is not None and got != want


TYPE = {"I": "INTEGER", "A": "AMOUNT", "B": "BALANCE", "T": "BOOLEAN", "N": "VOID", "V": "OTHER"}


def localise(ctx, t):
    """Smallest failing sub-expression: a node whose own answer is wrong while
    its operands' answers are right.  Fingerprint = operator and the operand
    types ledger itself reports, or `zero-entry-balance` when an operand is a
    balance carrying a zero component (balance_t::operator+= keeps those)."""
    cur = t
    for _ in range(12):
        if isinstance(cur, Leaf):
            break
        kid_ans = eval_impl(cur.kids)
        bad = [k for k, a in zip(cur.kids, kid_ans) if fails(k, a)]
        if bad:
            cur = bad[0]
            continue
        ans = eval_impl([cur])[0]
        types = [TYPE.get((a or "?")[0], "?") for a in kid_ans]
        zero_entry = any(a and a.startswith("B:") and re.search(r"(^|;|:)0/1:", a[2:]) for a in kid_ans)
        if zero_entry:
            fp = "C03:zero-entry-balance"
        else:
            fp = "C03:%s:%s" % (cur.op, ":".join(types))
        want, _ = oracle(cur)
        ctx.violation(fp, "ledger computes %s = %s (operands %s), exact result is %s" %
                      (cur.text(), ans, kid_ans, {k: str(v) for k, v in want.items()}),
                      {"expr": cur.text(), "ledger": ans, "operands": kid_ans, "found_in": t.text(),
                       "exact": {k: str(v) for k, v in want.items()},
                       "how": "ledger eval 'verif_rational(%s)'" % cur.text()})
        return
    ctx.violation("C03:expr", "ledger computes a wrong value for %s" % t.text(), {"expr": t.text()})


def shape_of(t):
    """operator skeleton with leaf kinds (not values): failures of one shape share a cause."""
    if isinstance(t, Leaf):
        return "i" if t.kind == "int" else ("c" if t.comm else "p")
    return "(" + t.op + " " + " ".join(shape_of(k) for k in t.kids) + ")"


def leaves(t):
    if isinstance(t, Leaf):
        return [t]
    return [l for k in t.kids for l in leaves(k)]


def mixed(t):
    ls = leaves(t)
    return len({(l.kind, l.comm != "") for l in ls}) > 1 or len({l.comm for l in ls}) > 1


def big(t):
    return any(len(str(abs(l.q.numerator))) >= 15 for l in leaves(t) if l.kind == "amt")


def kind_of(t):
    if isinstance(t, Leaf):
        return "INTEGER" if t.kind == "int" else "AMOUNT"
    return "EXPR"


def fingerprint_of(t):
    """Smallest localisation: the dispatch cell of the top-level operator when
    both operands are leaves, else the operator."""
    if isinstance(t, Node) and len(t.kids) == 2:
        return "C03:%s:%s:%s" % (t.op, kind_of(t.kids[0]), kind_of(t.kids[1]))
    return "C03:expr"


def shrink_and_report(ctx):
    """When the correspondence broke, look for a small failing input aimed at the
    cells that disagree: all type pairs x ops over the representative set."""
    pass  # the exhaustive type-pair sweep runs on every tier (run())


def report_totals(ctx, n_post):
    """Report totals over many postings: bal grand total vs exact sum."""
    rng = ctx.rng
    lines = []
    total = {}
    for i in range(n_post):
        comm = rng.choice(["EUR", "USD", "BTC"])
        dec = COMMS[comm]
        q = Fraction(rng.randint(-10 ** 9, 10 ** 9), 10 ** dec)
        lines.append("2020/01/%02d p%d\n    A:x%d  %s %s\n    B\n" % (1 + i % 28, i, i % 7, dec_str(abs(q), dec) if q >= 0 else "-" + dec_str(-q, dec), comm))
        total[comm] = total.get(comm, 0) + q
    import tempfile
    with tempfile.NamedTemporaryFile("w", suffix=".dat", delete=False) as f:
        f.write("\n".join(lines))
        path = f.name
    try:
        rc, out, err = vflib.ledger_run(["-f", path, "bal", "^A", "--no-total", "--format", "%(verif_rational(total))\n", "--depth", "1"])
        rc2, out2, err2 = vflib.ledger_run(["-f", path, "reg", "^A", "--format", "%(verif_rational(total))\n"])
    finally:
        os.unlink(path)
    ctx.count()
    got = den_of_answer(out.strip().split("\n")[0]) if out.strip() else None
    got2 = den_of_answer(out2.strip().split("\n")[-1]) if out2.strip() else None
    want = {c: q for c, q in total.items() if q != 0}
    ctx.feature("report-total-postings", n_post)
    if got != want or got2 != want:
        ctx.violation("C03:report-total", "bal total of %d postings differs from the exact sum" % n_post,
                      {"journal": "\n".join(lines), "ledger": out, "exact": {k: str(v) for k, v in want.items()}})
    else:
        ctx.traces_validated += 1
        ctx.nontrivial(("total", n_post, str(sorted(want.items()))))


def run(tier, seed):
    ctx = Check("C03", tier, seed)
    ctx.mism = []
    ctx.failing = []
    ctx.rule = ("expression trees over int / plain / commoditized literals (<=40 digits, <=20 decimals) and + - * / neg abs "
                "comparisons; exhaustive over ordered type pairs x operators on a representative set, then random trees; "
                "non-trivial = depth>=1 and (mixed operand types/commodities or >=15 significant digits); distinct by text")
    ctx.assumptions = ["GMP rational arithmetic is exact", "long cells modelled on Int (generators stay below 2^31)",
                       "INTEGER / INTEGER is C long division by design (C03.int_div_int)"]
    if not ctx.prepare():
        return ctx.finish()
    rng = ctx.rng
    # search mode: a proof obligation or extractor broke -> widen every stream
    search = bool(ctx.ties_broken)
    if search:
        ctx.extra_cov["search_mode"] = [t[0] for t in ctx.ties_broken]
    cases = []
    reps = type_representatives()
    allreps = [(k, v) for k, vs in reps.items() for v in vs]
    for (ka, a), (kb, b) in itertools.product(allreps, allreps):
        for op in BIN + CMP:
            cases.append(Node(op, [a, b]))
    for k, a in allreps:
        cases.append(Node("neg", [a]))
        cases.append(Node("abs", [a]))
    n_exh = len(cases)
    ctx.extra_cov["exhaustive_type_pairs"] = n_exh
    n_rand = 8000 if tier == "quick" else 120000
    if search:
        n_rand *= 3
    maxd = 4 if tier == "quick" else 6
    for i in range(n_rand):
        d = rng.randint(1, maxd)
        t = gen_tree(rng, d)
        if rng.random() < 0.25:
            t = Node(rng.choice(CMP), [t, gen_tree(rng, rng.randint(0, 2))])
        cases.append(t)
    # near-equal comparisons: random operands almost never tie or differ in the last place,
    # so ordering/equality get their own stream: x against x, x ± one unit in its last place,
    # x ± 10^-20, at every magnitude (incl. around 2^53 and 2^64)
    n_near = 150 if tier == "quick" else 3000
    if search:
        n_near *= 5
    for i in range(n_near):
        digits = rng.choice([1, 2, 5, 9, 12, 15, 16, 17, 18, 19, 20, 21, 25, 40])
        comm = rng.choice(["", "", "EUR", "USD", "BTC", "PQ"])
        dec = rng.randint(0, COMMS[comm]) if comm else rng.choice([0, 0, 1, 2, 6, 12, 19, 20])
        n = rng.choice([rng.randint(10 ** (digits - 1), 10 ** digits), 2 ** 53, 2 ** 53 + 1, 2 ** 63, 2 ** 64 - 1, 2 ** 64])
        x = Fraction(n, 10 ** dec) * rng.choice([1, 1, -1])
        step = rng.choice([Fraction(0), Fraction(1, 10 ** dec), Fraction(-1, 10 ** dec)])
        y = x + step
        lx, ly = Leaf("amt", x, dec, comm), Leaf("amt", y, dec, comm)
        if rng.random() < 0.3 and not comm:
            extra = rng.choice([Fraction(1, 10 ** 20), Fraction(-1, 10 ** 20)])
            ly = Leaf("amt", x + extra, 20, comm)
        if rng.random() < 0.3:
            # reach the same comparison through arithmetic: (x + d) - d against y
            d = gen_leaf(rng, "plain" if not comm else "comm")
            if d.comm == comm:
                lx = Node("-", [Node("+", [lx, d]), d])
        for op in CMP:
            cases.append(Node(op, [lx, ly]))
    # INTEGER against non-integral AMOUNT: the integer side arises from int(), and from a subtraction
    # that cancels exactly (value_t simplifies it to INTEGER 0); the amount lies strictly between two
    # integers, at every distance from them
    n_ia = 80 if tier == "quick" else 1500
    if search:
        n_ia *= 5
    for i in range(n_ia):
        n = rng.choice([0, 0, 1, -1, 2, 7, -12, 1000])
        frac = rng.choice([Fraction(1, 4), Fraction(2, 5), Fraction(1, 2), Fraction(3, 5), Fraction(9, 10), Fraction(1, 1000), Fraction(999, 1000)])
        comm = rng.choice(["", "", "EUR", "USD"])
        dec = 3 if not comm else COMMS[comm] if COMMS[comm] >= 3 else None
        if dec is None:
            frac = rng.choice([Fraction(1, 4), Fraction(1, 2), Fraction(3, 4)])
            dec = 2
        v = Fraction(n) + frac * rng.choice([1, -1])
        amt = Leaf("amt", v, max(dec, 3 if v.denominator in (1000,) else dec), comm)
        if (v * 10 ** amt.dec).denominator != 1:
            continue
        if rng.random() < 0.5:
            ileaf = Leaf("int", n)
        else:
            z = gen_leaf(rng, "plain" if not comm else "comm")
            if comm and z.comm != comm:
                z = Leaf("amt", Fraction(3, 2), 2, comm)
            ileaf = Node("-", [z, z]) if n == 0 else Leaf("int", n)
        for op in CMP:
            cases.append(Node(op, [ileaf, amt]))
            cases.append(Node(op, [amt, ileaf]))
    # sub-display-precision residuals inside multi-commodity balances: (x C + y D) -/+ (x C * f)
    # with f = 1 - 10^-k, so that one component is non-zero but displays as zero (its precision
    # counter exceeds the commodity's display precision): nothing may be dropped or rounded
    n_tiny = 120 if tier == "quick" else 2500
    if search:
        n_tiny *= 5
    for i in range(n_tiny):
        c1, c2 = rng.sample(["EUR", "USD", "BTC", "XAU"], 2)
        p1 = COMMS[c1]
        x = Fraction(rng.randint(1, 10 ** rng.choice([1, 3, 6])), 10 ** p1)
        y = Fraction(rng.randint(1, 10 ** 4), 10 ** COMMS[c2]) * rng.choice([1, -1])
        k = rng.randint(p1 + 1, p1 + 5)
        f = 1 - Fraction(1, 10 ** k) if rng.random() < 0.7 else 1 + Fraction(1, 10 ** k)
        bal = Node("+", [Leaf("amt", x, p1, c1), Leaf("amt", y, COMMS[c2], c2)])
        if rng.random() < 0.3:
            bal = Node("+", [bal, Leaf("amt", Fraction(rng.randint(1, 99)), 0, "XAU" if "XAU" not in (c1, c2) else "PQ")])
        prod = Node("*", [Leaf("amt", x, p1, c1), Leaf("amt", f, k, "")])
        t = Node(rng.choice(["-", "-", "+"]), [bal, prod])
        shape = rng.random()
        if shape < 0.35:
            t = Node("*", [t, Leaf("amt", Fraction(10 ** rng.choice([3, 6, 9])), 0, "")])
        elif shape < 0.6:
            t = Node("+", [t, prod])          # (B - p) + p must give B back exactly
        elif shape < 0.75:
            t = Node("-", [t, Leaf("amt", y, COMMS[c2], c2)])
        cases.append(t)
    # long folds
    for i in range(20 if tier == "quick" else 400):
        t = gen_leaf(rng)
        for j in range(rng.randint(10, 30)):
            t = Node(rng.choice(["+", "-", "*", "+", "-"]), [t, gen_leaf(rng, rng.choice(["plain", "comm", "int"]))])
        cases.append(t)
    run_cases(ctx, cases)
    # localise failures: shortest first, skipping shapes already attributed, within a time budget
    import time as _time
    t_end = _time.time() + (60 if tier == "quick" else 300)
    attributed = set()
    n_loc = 0
    for t in sorted(ctx.failing, key=lambda x: len(x.text())):
        if _time.time() > t_end or n_loc >= 400:
            break
        shape = shape_of(t)
        if shape in attributed:
            continue
        n_loc += 1
        fp = localise(ctx, t)
        attributed.add(shape)
    ctx.extra_cov["localised"] = n_loc
    ctx.extra_cov["oracle_failures"] = len(ctx.failing)
    for n in ([50, 400] if tier == "quick" else [50, 400, 2000, 2000]):
        report_totals(ctx, n)
    if ctx.mism:
        ctx.extra_cov["mismatches"] = ctx.mism[:10]
    return ctx.finish()


def replay(obj):
    r = obj.get("replay", {})
    if "expr" in r:
        vflib.ensure_ledger()
        rc, out, err = vflib.ledger_run(["eval", "verif_rational(%s)" % r["expr"]])
        print("expr:", r["expr"])
        print("ledger now:", out.strip(), err.strip())
        print("exact:", r.get("exact"))
        got = den_of_answer(out.strip().split("\n")[-1]) if out.strip() else None
        want = {k: Fraction(v) if k != "bool" else (v == "True") for k, v in (r.get("exact") or {}).items()}
        return 0 if got == want else 1
    print(obj)
    return 1
