"""C04 — amounts print at commodity precision, correctly rounded, and re-read unchanged.

Theorems: lean/LedgerModel/Props/C04.lean over Model/AmountText.lean (printer:
digit generation of the half-even rounding, zero trimming, thousands grouping,
style flags, quoting; reader: amount_t::parse with the comma/period inference
state machine, symbol scanning over Gen.invalidChars, precision/style learning).
Tie: Gen.AmountText / Gen.InvalidChars regenerated from amount.cc, commodity.cc,
pool.cc, utils.h (C04.code_pinned, table facts by `decide`), and this
differential check of the driver ops amt.print / amt.parse / amt.learn /
amt.roundto against the rebuilt binary (one-posting journals, `reg --format`,
`xml` for the learned flags, `print`, REPL `eval`).
Oracle on the implementation (independent of the Lean model, exact Fractions):
the printed number has exactly the commodity's display precision decimals, is
within half a unit in the last displayed place of the exact value reported by
verif_rational (so never a truncation), is grouped in threes from the right,
carries the symbol on the learned side with the learned space and quotes; and
ledger's own output, fed back to ledger, denotes the printed value and the same
commodity.
"""
import os, re, sys, html, json, shutil, tempfile, subprocess, itertools
from fractions import Fraction
import vflib
from vflib import Check

MANIFEST = dict(
    text="Machine-checked proof (Lean 4) about an executable model of amount_t::print/stream_out_mpq and amount_t::parse: the rounding "
         "is a nearest value with at most p decimals and never changes a quantity that already fits (no truncation), the generated digit "
         "string denotes exactly that rounded value for every rational and precision, thousands marks sit every three integer digits "
         "from the right and removing them is the inverse, commodity precision is the maximum seen, and parsing what print wrote returns "
         "the same quantity, commodity and style flags for every quantity and every style (prefix/suffix, separated, thousands, decimal "
         "comma, quoted symbols) - with the exact guards under which the current reader fails kept as decidable hypotheses and their "
         "witnesses replayed on the binary. The quoting table, buffer capacities, rounding mode, the symbol-protection rule (three flags "
         "read from symbol_needs_quotes / pool create, so the pinned and the repaired source both verify) and the text of every mirrored "
         "function are re-extracted from the source on every run; the model is run against the rebuilt binary on seeded quantities x "
         "styles x precisions plus boundary streams; an independent Fraction oracle on ledger's own output supplies the failing input. The default "
         "register/balance path is covered too: value_t::print and amount_t::is_zero are modelled (a bare 0 is shown, and a row hidden, "
         "exactly when the amount rounds to zero at its display precision - proved), pinned, compared (amt.show) and checked on "
         "`reg`/`bal` default output for amounts that round up across a power of ten.",
    note="Modelled, not verified: MPFR %.*RNf rounds the exact rational to a nearest decimal (tie direction unspecified: the comparison "
         "accepts either neighbour exactly at ties and demands equality elsewhere); GMP is exact. Outside the model: lot annotations, "
         "the time-colon style of h/m/s, in_place_reduce, --time-colon. Text is modelled as bytes. Known finding: a commodity that "
         "learned decimal comma and 3n decimals prints amounts a fresh ledger reads as thousands (1,500 EUR); the symbol findings "
         "(reserved words, backslash/quote) are repaired by findings/C04-symbol-quoting.patch.",
    technique="Lean 4 proof over an executable printer/reader model + regenerated tables and code pins + differential model/binary check with exact-value oracle",
    ref="DESIGN.md §5 C04")

ENV = {"PATH": "/usr/bin:/bin", "HOME": "/nonexistent", "TZ": "UTC", "LC_ALL": "C"}


def run_ledger(args, stdin=None, timeout=30):
    """bytes in, bytes out (symbols are arbitrary UTF-8; never decode with the locale)."""
    try:
        r = subprocess.run([vflib.LEDGER, "--args-only"] + list(args), input=stdin, stdout=subprocess.PIPE,
                           stderr=subprocess.PIPE, env=ENV, timeout=timeout)
        return r.returncode, r.stdout, r.stderr
    except subprocess.TimeoutExpired:
        return None, b"", b"timeout"


# ---------------------------------------------------------------------------
# the property's vocabulary, stated independently of the Lean model

# characters that make a symbol "unusual" (the reader stops a bare symbol at them)
ORACLE_QUOTE_CHARS = set(b" \t\n\r0123456789.,;:?!-+*/^&|=<>{}[]()@")
RESERVED = [b"and", b"div", b"else", b"false", b"if", b"or", b"not", b"true"]


def oracle_needs_quotes(sym):
    return any(c in ORACLE_QUOTE_CHARS for c in sym)


class Style:
    __slots__ = ("suf", "sep", "thou", "dc")

    def __init__(self, suf, sep, thou, dc):
        self.suf, self.sep, self.thou, self.dc = bool(suf), bool(sep), bool(thou), bool(dc)

    def bits(self):
        return "%d%d%d%d" % (self.suf, self.sep, self.thou, self.dc)

    @staticmethod
    def of_bits(b):
        return Style(*[c == "1" for c in b])

    def __repr__(self):
        return self.bits()


def decimals_of(q):
    """number of decimals of a decimal fraction (None if not one)."""
    d = q.denominator
    k = 0
    while d % 10 == 0:
        d //= 10
        k += 1
    a = b = 0
    while d % 2 == 0:
        d //= 2
        a += 1
    while d % 5 == 0:
        d //= 5
        b += 1
    if d != 1:
        return None
    return k + max(a, b)


def write_number(q, k, thou, dc):
    """the generator's own writer: |q| with exactly k decimals (q must have <= k), optional marks."""
    n = abs(q) * 10 ** k
    assert n.denominator == 1, (q, k)
    s = str(n.numerator).rjust(k + 1, "0")
    ip, fp = (s[:-k], s[-k:]) if k else (s, "")
    if thou:
        groups = []
        while len(ip) > 3:
            groups.insert(0, ip[-3:])
            ip = ip[:-3]
        groups.insert(0, ip)
        ip = ("." if dc else ",").join(groups)
    out = ip + ((("," if dc else ".") + fp) if k else "")
    return ("-" if q < 0 else "") + out


def with_symbol(num, sym, st):
    qs = (b'"' + sym + b'"') if oracle_needs_quotes(sym) else sym
    if not sym:
        return num
    if st.suf:
        return num + (b" " if st.sep else b"") + qs
    return qs + (b" " if st.sep else b"") + num


def oracle_text(text, sym, st, dc_eff, q, dmin, dmax, trimmed):
    """The property restated on one printed amount.  Returns (problems, value, decimals).
    problems: list of (fingerprint-suffix, message)."""
    bad = []
    forms = printed_forms(sym)
    qs = next((f for f in forms if (text.endswith(f) if st.suf else text.startswith(f))), forms[0])
    body = text
    if sym:
        if st.suf:
            if not body.endswith(qs):
                return [("style", "symbol %r not at the end of %r" % (qs, text))], None, None
            body = body[:len(body) - len(qs)]
            if st.sep:
                if not body.endswith(b" "):
                    bad.append(("style", "no space before the symbol in %r" % text))
                else:
                    body = body[:-1]
            if body.endswith(b" "):
                bad.append(("style", "unexpected space before the symbol in %r" % text))
                body = body.rstrip(b" ")
        else:
            if not body.startswith(qs):
                return [("style", "symbol %r not at the start of %r" % (qs, text))], None, None
            body = body[len(qs):]
            if st.sep:
                if not body.startswith(b" "):
                    bad.append(("style", "no space after the symbol in %r" % text))
                else:
                    body = body[1:]
            if body.startswith(b" "):
                bad.append(("style", "unexpected space after the symbol in %r" % text))
                body = body.lstrip(b" ")
    neg = body.startswith(b"-")
    if neg:
        body = body[1:]
    dm, tm = (b",", b".") if dc_eff else (b".", b",")
    if body.count(dm) > 1:
        return bad + [("grouping", "more than one decimal mark in %r" % text)], None, None
    ip, _, fp = body.partition(dm)
    if body.count(dm) == 1 and not fp:
        bad.append(("decimals", "decimal mark without decimals in %r" % text))
    if not re.fullmatch(rb"[0-9]*", fp):
        return bad + [("grouping", "non-digits after the decimal mark in %r" % text)], None, None
    if st.thou:
        if not re.fullmatch(rb"[0-9]{1,3}(" + re.escape(tm) + rb"[0-9]{3})*", ip):
            return bad + [("grouping", "integer part %r is not grouped in threes from the right" % ip)], None, None
    else:
        if not re.fullmatch(rb"[0-9]+", ip):
            return bad + [("grouping", "integer part %r has marks although the commodity has no thousands style" % ip)], None, None
    digits = ip.replace(tm, b"")
    if len(digits) > 1 and digits.startswith(b"0"):
        bad.append(("grouping", "leading zero in %r" % text))
    val = Fraction(int(digits + fp), 10 ** len(fp))
    if neg:
        val = -val
    if neg and not q < 0:
        bad.append(("sign", "minus sign on a non-negative quantity: %r for %s" % (text, q)))
    if not neg and q < 0 and val != 0:
        bad.append(("sign", "no minus sign on a negative quantity: %r for %s" % (text, q)))
    d = len(fp)
    if not (dmin <= d <= dmax):
        bad.append(("decimals", "%d decimals displayed in %r, the commodity's display precision demands %s" %
                    (d, text, dmin if dmin == dmax else "%d..%d" % (dmin, dmax))))
    if trimmed and d > dmin and fp.endswith(b"0"):
        bad.append(("decimals", "trailing zero beyond the commodity precision in %r" % text))
    if abs(val - q) * 2 * 10 ** d > 1:
        trunc = Fraction(int(abs(q) * 10 ** d), 10 ** d) * (-1 if q < 0 else 1)
        bad.append(("nearest", "%r denotes %s but the exact value is %s: off by more than half a unit in the last place%s" %
                    (text, val, q, " (it is the truncation)" if val == trunc else "")))
    return bad, val, d


def parse_verif(line):
    """A:num/den:prec:keep:commodity -> (Fraction, prec, keep, commodity bytes as printed)"""
    if not line.startswith(b"A:"):
        return None
    parts = line[2:].split(b":", 3)
    if len(parts) != 4:
        return None
    n, d = parts[0].split(b"/")
    return Fraction(int(n), int(d)), int(parts[1]), parts[2] == b"1", parts[3]


def unquote(qs):
    """the bytes between the quotes of a printed symbol (the symbol itself when it is bare)."""
    if len(qs) >= 2 and qs.startswith(b'"') and qs.endswith(b'"'):
        return qs[1:-1]
    return qs


def unescape(inner):
    return re.sub(rb"\\(.)", rb"\1", inner, flags=re.S)


def same_symbol(printed, sym):
    """does the printed (possibly quoted, possibly escaped) symbol stand for `sym`?"""
    inner = unquote(printed)
    return inner == sym or (inner != printed and unescape(inner) == sym)


def special(sym):
    """symbols only a repaired printer can protect: a backslash / double quote inside, or a reserved word."""
    return b"\\" in sym or b'"' in sym or sym in RESERVED


def printed_forms(sym):
    """how the symbol may legitimately appear in output: bare when nothing in it is unusual, in quotes
    otherwise; for `special` symbols the pinned printer writes them bare/unescaped (a finding) and the
    repaired one in quotes with escapes - the oracle accepts either spelling and lets the re-read decide."""
    esc = b'"' + sym.replace(b"\\", b"\\\\").replace(b'"', b'\\"') + b'"'
    if special(sym):
        return [esc, b'"' + sym + b'"', sym]
    return [b'"' + sym + b'"'] if oracle_needs_quotes(sym) else [sym]


def xml_flags(xml):
    """{symbol bytes: Style} from the <commodities> section of `ledger xml`."""
    out = {}
    for m in re.finditer(rb'<commodity flags="([A-Z]*)">\s*<symbol>(.*?)</symbol>', xml, flags=re.S):
        fl = m.group(1)
        raw = html.unescape(m.group(2).decode("utf-8", "surrogateescape")).encode("utf-8", "surrogateescape")
        st = Style(b"P" not in fl, b"S" in fl, b"T" in fl, b"D" in fl)
        out[unquote(raw)] = st
        if unquote(raw) != raw:
            out.setdefault(unescape(unquote(raw)), st)
    return out


ERR_KINDS = [(b"No quantity specified for amount", "no-quantity"),
             (b"Too many periods in amount", "too-many-periods"),
             (b"Too many commas in amount", "too-many-commas"),
             (b"Incorrect use of thousand-mark period", "bad-thousand-period"),
             (b"Incorrect use of thousand-mark comma", "bad-thousand-comma"),
             (b"Incorrect use of decimal comma", "bad-decimal-comma"),
             (b"Quoted commodity symbol lacks closing quote", "no-closing-quote"),
             (b"Backslash at end of commodity name", "backslash-at-end"),
             (b"Unexpected char", "unexpected-char")]


def err_kind(stderr):
    for pat, k in ERR_KINDS:
        if pat in stderr:
            return k
    if b"Error:" in stderr:
        return "other"
    return None


# ---------------------------------------------------------------------------
# case construction

PLAIN_SYMS = ["$", "EUR", "USD", "CHF", "kr", "zł", "€", "£", "¥", "₿", "руб", "日本円", "Ω", "x y", "A€B", "a\"b", "Fr", "and_", "iff"]
QUOTED_SYMS = ["A B", "M&M", "2020", "X-1", "a.b", "US$ 2", "@home", "日本 円", "x;y", "€ 1,5", "a:b", "(p)", "[t]", "{c}", "1+1=2",
               "VTSAX 2025", "a,b", "q?", "w!", "s/t", "<>", "*", "^", " lead", "trail ", "-", "a\tb", "0"]
BAD_SYMS = ["a\\b", "\\", "and", "div", "else", "false", "if", "or", "not", "true", "\"x", "x\"\""]


def gen_quantity(rng, max_int_digits=15, max_dec=12):
    idig = rng.choice([0, 1, 1, 2, 3, 4, 5, 6, 7, 8, 9, 10, 12, 13, 15])
    idig = min(idig, max_int_digits)
    k = rng.choice([0, 0, 1, 2, 2, 3, 4, 5, 6, 7, 8, 9, 10, 11, 12, 13, 14])
    k = min(k, max_dec + 2)
    ip = rng.randint(10 ** (idig - 1), 10 ** idig - 1) if idig else 0
    r = rng.random()
    if k == 0:
        fp = 0
    elif r < 0.25:
        # aim at ties and near-ties of a shorter precision: ...d5, ...d4999, ...d5001, ...9995
        j = rng.randint(0, k - 1)
        head = rng.randint(0, 10 ** j - 1) if j else 0
        if rng.random() < 0.3:
            head = 10 ** j - 1
        tail = rng.choice(["5" + "0" * (k - j - 1), "4" + "9" * (k - j - 1), "5" + "0" * (k - j - 2) + "1" if k - j >= 2 else "5",
                           "9" * (k - j), "0" * (k - j - 1) + "1"])
        fp = int((str(head).rjust(j, "0") if j else "") + tail)
    else:
        fp = rng.randint(0, 10 ** k - 1)
    q = Fraction(ip * 10 ** k + fp, 10 ** k)
    if rng.random() < 0.04:
        q = Fraction(0)
    if rng.random() < 0.35:
        q = -q
    return q, k


def make_fmt_case(rng, sym, st, P, dcg, setup, channel, q, k, marks):
    """A one-posting journal that prints quantity q (written with k decimals) in commodity `sym`
    whose style is `st` and whose display precision was fixed/learned as P."""
    symb = sym.encode("utf-8") if isinstance(sym, str) else sym
    dc_eff = st.dc or dcg
    st = Style(st.suf, st.sep, st.thou, dc_eff)
    items = []          # ('post'|'format', text bytes)
    two_step = dc_eff and not dcg and P % 3 == 0
    if two_step:
        items.append(("post", with_symbol(write_number(Fraction(1000 if st.thou else 1), 2, st.thou, True).encode(), symb, st)))
        items.append((setup if setup == "format" else "post",
                      with_symbol(write_number(Fraction(1), P, False, True).encode(), symb, st)))
    else:
        items.append((setup if setup == "format" else "post",
                      with_symbol(write_number(Fraction(1000 if st.thou else 1), P, st.thou, dc_eff).encode(), symb, st)))
    if channel == "amount":
        ptext = with_symbol(write_number(q, k, marks and st.thou, dc_eff).encode(), symb, st)
        expr = "amount"
    else:
        ptext = with_symbol(b"1", symb, st)
        ktext = write_number(abs(q), k, False, dcg)
        expr = "amount * %s" % ktext
        if q < 0:
            expr = "amount * (0 - %s)" % ktext
        if channel == "unrounded":
            expr = "unrounded(%s)" % expr
    if setup == "format" or channel != "amount":
        p_eff = P
    else:
        p_eff = max(P, k)
    return dict(kind="fmt", sym=symb.hex(), style=st.bits(), P=P, dcg=dcg, setup=setup, channel=channel,
                q="%d/%d" % (q.numerator, q.denominator), k=k, items=[(a, b.hex()) for a, b in items],
                ptext=ptext.hex(), expr=expr, p_eff=p_eff)


def journal_of(items, ptext, sym=b""):
    out = []
    n = 0
    qs = (b'"' + sym + b'"') if oracle_needs_quotes(sym) else sym
    for kind, t in items:
        if kind == "format":
            out.append(b"commodity " + qs + b"\n    format " + t + b"\n\n")
        else:
            n += 1
            out.append(b"2020/01/%02d teach\n    T    " % n + t + b"\n    B\n\n")
    if ptext is not None:
        out.append(b"2020/02/01 case\n    A    " + ptext + b"\n    B\n")
    return b"".join(out)


def frac(s):
    n, d = s.split("/")
    return Fraction(int(n), int(d))


class Work:
    def __init__(self):
        self.dir = tempfile.mkdtemp(prefix="c04-")
        self.n = 0

    def path(self, content):
        self.n += 1
        p = os.path.join(self.dir, "j%d.dat" % self.n)
        with open(p, "wb") as f:
            f.write(content)
        return p

    def close(self):
        shutil.rmtree(self.dir, ignore_errors=True)


def observe_fmt(work, c):
    """stage 1 on the binary: printed text + exact value, learned flags."""
    items = [(a, bytes.fromhex(b)) for a, b in c["items"]]
    j = journal_of(items, bytes.fromhex(c["ptext"]), bytes.fromhex(c["sym"]))
    p = work.path(j)
    opt = ["--decimal-comma"] if c["dcg"] else []
    fmt = "%%(%s)\n%%(verif_rational(%s))\n" % (c["expr"], c["expr"])
    rc, out, err = run_ledger(["-f", p] + opt + ["reg", "^A$", "--empty", "--format", fmt])
    rc2, xml, err2 = run_ledger(["-f", p] + opt + ["xml"])
    res = dict(journal=j, rc=rc, err=err, text=None, verif=None, flags=None)
    lines = out.split(b"\n")
    if rc == 0 and len(lines) >= 2:
        res["text"] = lines[0]
        res["verif"] = parse_verif(lines[1])
    if rc2 == 0:
        res["flags"] = xml_flags(xml).get(bytes.fromhex(c["sym"]))
    if c.get("listing", True) and rc == 0:
        # the default listing path: value_t::print (a bare 0 for an amount that is_zero) behind justify(),
        # and the display filter that hides rows whose amount is_zero (no --empty here)
        amt = [] if c["expr"] == "amount" else ["--amount", c["expr"]]
        r1 = run_ledger(["-f", p] + opt + ["reg", "^A$", "--format", "%%(justify(scrub(%s), 1))\n" % c["expr"]])
        r2 = run_ledger(["-f", p] + opt + amt + ["reg", "^A$"])
        r3 = run_ledger(["-f", p] + opt + amt + ["bal", "^A$"])
        res["listing"] = dict(shown=r1[1] if r1[0] == 0 else None, reg=r2[1] if r2[0] == 0 else None,
                              bal=r3[1] if r3[0] == 0 else None, err=(r1[2] + r2[2] + r3[2])[-300:])
    return res


def reread(work, c, text, known):
    """stage 2: ledger's own printed amount as the posting of a new journal, in a fresh
    process; `known` = after the same style set-up (same session knowledge)."""
    items = [(a, bytes.fromhex(b)) for a, b in c["items"]] if known else []
    j = journal_of(items, text, bytes.fromhex(c["sym"]))
    p = work.path(j)
    opt = ["--decimal-comma"] if c["dcg"] else []
    rc, out, err = run_ledger(["-f", p] + opt + ["reg", "^A$", "--empty", "--format", "%(verif_rational(amount))\n"])
    v = parse_verif(out.split(b"\n")[0]) if rc == 0 else None
    return dict(journal=j, rc=rc, err=err, verif=v)


def listing_text(text, sym, st):
    """Report columns drop the quotes of a separated commodity's symbol unless it contains a space or is
    all digits (the register is for reading, not for re-reading); everything else is as `%(amount)`."""
    if not (sym and st.sep):
        return text
    qs = next((f for f in printed_forms(sym) if (text.endswith(f) if st.suf else text.startswith(f))), None)
    if qs is None or not qs.startswith(b'"') or b" " in qs or re.fullmatch(rb"[0-9]*", qs[1:-1]):
        return text
    return text[:len(text) - len(qs)] + qs[1:-1] if st.suf else qs[1:-1] + text[len(qs):]


def check_listing(ctx, c, o, val, shows, replay):
    """The default register / balance path.  Model: amt.show (value_t::print + amount_t::is_zero).
    Oracle: an amount whose correctly rounded display value is not zero keeps its row in `reg` and `bal`
    and is shown there exactly as `%(amount)` shows it - never a bare 0, never dropped."""
    li = o.get("listing")
    if li is None:
        return
    ctx.count()
    ctx.feature("listing")
    if li["shown"] is None or li["reg"] is None or li["bal"] is None:
        ctx.tie_broken("corr:amt.show", "ledger failed on the default listing of %r: %s" % (o["journal"], li["err"]))
        return
    shown = li["shown"].strip()
    model = set()
    for f in shows:
        if f[0] == "ok":
            if f[2] == "1":
                # is_zero: `reg` hides the row when the posting's own amount is the one displayed; a computed
                # column (amount*K) of a visible row is shown as a bare 0
                model.update([b"", b"0"])
            else:
                model.add(bytes.fromhex(f[1]))
    if shown not in model:
        ctx.tie_broken("corr:amt.show", "default listing shows %r, model %r (exact %s, %%(amount) gives %r)\n%r" %
                       (shown, sorted(model), o["verif"][0], o["text"], o["journal"]))
        ctx.mism.append(dict(op="amt.show", model=[m.decode("utf-8", "replace") for m in model],
                             ledger=shown.decode("utf-8", "replace"), case=c))
    else:
        ctx.traces_validated += 1
    if val is None or val == 0:
        if val == 0:
            ctx.feature("listing:displays-as-zero")
        return
    rp = dict(replay)
    rp.update(kind="listing", shown=shown.decode("utf-8", "replace"), reg=li["reg"].decode("utf-8", "replace"),
              bal=li["bal"].decode("utf-8", "replace"))
    what = None
    want = listing_text(o["text"], bytes.fromhex(c["sym"]), Style.of_bits(c["style"]))
    if want != o["text"]:
        ctx.feature("listing:quotes-elided")
    if shown == b"":
        what = ("row-dropped", "the register hides the posting although its amount displays as %r (exact %s)" % (o["text"], o["verif"][0]))
    elif shown != want:
        what = ("differs", "justify() / the default listing shows %r where %%(amount) shows %r (exact %s)" %
                (shown, o["text"], o["verif"][0]))
    elif want not in li["reg"]:
        what = ("row-dropped", "`ledger reg` does not show %r (exact %s): %r" % (want, o["verif"][0], li["reg"]))
    elif want not in li["bal"]:
        what = ("row-dropped", "`ledger bal` does not show %r (exact %s): %r" % (want, o["verif"][0], li["bal"]))
    if what:
        ctx.violation("C04:listing:" + what[0], what[1], rp)
    if abs(o["verif"][0]) < abs(val):
        ctx.feature("listing:rounds-up-in-magnitude")
        lead = str(abs(val)).split("/")[0]
        if abs(val).denominator == 1 and set(str(abs(val).numerator)[1:]) <= {"0"} and str(abs(val).numerator)[0] == "1":
            ctx.feature("listing:carries-into-new-digit")
            ctx.nontrivial(("listing-carry", c["sym"], c["style"], c["P"], c["q"], c["channel"]))


def classify_reread_failure(c, text, d):
    """Which known weakness of the reader explains a failed re-read (the guards of
    C04.print_parse_roundtrip_partial), else 'other'."""
    sym = bytes.fromhex(c["sym"])
    st = Style.of_bits(c["style"])
    if st.dc and not c["dcg"] and d is not None and d % 3 == 0 and d > 0:
        return "decimal-comma-3n-decimals"
    if b"\\" in sym or b'"' in sym or b"\n" in sym:
        return "symbol-backslash-or-quote"
    if sym in RESERVED:
        return "symbol-reserved-word"
    return "other"


def process_fmt_cases(ctx, work, cases, tag):
    """model vs binary on print / parse / learn; the oracle on every printed text and re-read."""
    vflib.log("C04: %d fmt cases (%s) at %.0fs" % (len(cases), tag, __import__("time").time() - ctx.t0))
    obs = vflib.pmap(lambda c: observe_fmt(work, c), cases)
    # model: learn + parse of the posting text
    lines = []
    for c in cases:
        items = [("!" if a == "format" else "") + b for a, b in c["items"]] + [c["ptext"]]
        lines.append("amt.learn\t%d\t%s" % (c["dcg"], "\t".join(items)))
    learned = vflib.driver_run(lines)
    plines = []
    meta = []
    for c, o, l in zip(cases, obs, learned):
        ctx.count()
        sym = bytes.fromhex(c["sym"])
        st = Style.of_bits(c["style"])
        q = frac(c["q"])
        ctx.feature("fmt:" + c["channel"])
        ctx.feature("setup:" + c["setup"])
        ctx.feature("style:" + c["style"])
        ctx.feature("P:%d" % c["P"])
        if oracle_needs_quotes(sym):
            ctx.feature("symbol:quoted")
        if any(b > 127 for b in sym):
            ctx.feature("symbol:non-ascii")
        replay = dict(kind="fmt", case=c, journal=o["journal"].decode("utf-8", "replace"),
                      how="ledger -f J %sreg '^A$' --empty --format '%%(%s)\\n%%(verif_rational(%s))\\n'" %
                          ("--decimal-comma " if c["dcg"] else "", c["expr"], c["expr"]))
        if o["text"] is None or o["verif"] is None:
            ctx.tie_broken("corr:fmt-setup", "ledger rejected a generated journal (%s): %r\n%s" %
                           (tag, o["journal"], o["err"][-400:]))
            ctx.violation("C04:fmt:rejected", "ledger rejects a well-formed amount: %r" % bytes.fromhex(c["ptext"]), replay)
            meta.append(None)
            continue
        vq, vprec, vkeep, vsym = o["verif"]
        # learned style: model vs xml
        ml = {}
        if l.startswith("ok\t") and l[3:]:
            for ent in l[3:].split(";"):
                s, b, p = ent.split(":")
                ml[bytes.fromhex(s)] = (b, int(p))
        mstyle, mprec = ml.get(sym, ("0000", 0))
        if o["flags"] is None or o["flags"].bits() != mstyle:
            ctx.tie_broken("corr:amt.learn", "learned style differs for %r: model %s, ledger xml %s\n%r" %
                           (sym, mstyle, o["flags"], o["journal"]))
        # oracle on the learned style: it is the style the amounts were written in
        if o["flags"] is not None and o["flags"].bits() != st.bits():
            ctx.violation("C04:learn:style", "commodity %r written in style %s was learned as %s" % (sym, st.bits(), o["flags"].bits()), replay)
        # the quantity itself (channel amount: what was written; mul: exact product)
        if not same_symbol(vsym, sym) and not special(sym):
            ctx.violation("C04:parse:commodity", "amount of commodity %r read as commodity %r" % (sym, vsym), replay)
        if vq != q:
            ctx.violation("C04:parse:quantity", "quantity %s of %r read as %s" % (q, bytes.fromhex(c["ptext"]), vq), replay)
        # oracle on the printed text
        keep = vkeep
        if keep:
            dmin, dmax = c["p_eff"], max(c["p_eff"], vprec)
        else:
            dmin = dmax = c["p_eff"]
        bad, val, d = oracle_text(o["text"], sym, st, st.dc, vq, dmin, dmax, keep)
        for k, msg in bad:
            ctx.violation("C04:fmt:" + k, msg, replay)
        # model print with ledger's own q / prec / keep
        dp = max(vprec, mprec) if keep else mprec
        scaled = vq * 10 ** dp
        tie = (scaled * 2).denominator == 1 and scaled.denominator != 1
        qs = [vq]
        if tie:
            lo = Fraction(scaled.numerator // scaled.denominator, 10 ** dp)
            hi = lo + Fraction(1, 10 ** dp)
            qs = [lo + (vq - lo) / 10, hi + (vq - hi) / 10]
            ctx.feature("tie")
        for qq in qs:
            plines.append("amt.print\t%d\t%s\t%s\t%d\t%d/%d\t%d\t%d" %
                          (c["dcg"], c["sym"], mstyle, mprec, qq.numerator, qq.denominator, vprec, keep))
        for qq in qs:
            plines.append("amt.show\t%d\t%s\t%s\t%d\t%d/%d\t%d\t%d" %
                          (c["dcg"], c["sym"], mstyle, mprec, qq.numerator, qq.denominator, vprec, keep))
        meta.append((len(qs), tie, val, d, bad, replay))
        # non-triviality
        changed = val is not None and val != vq
        idig = len(str(abs(int(vq))))
        if changed or (st.thou and idig >= 7) or oracle_needs_quotes(sym) or any(b > 127 for b in sym) or st.dc:
            ctx.nontrivial(("fmt", c["sym"], c["style"], c["P"], c["q"], c["channel"]))
        if changed:
            ctx.feature("rounding-changes-digit")
        if st.thou and idig >= 7:
            ctx.feature("thousands>=7digits")
    # posting text through the model's reader (fresh or known style is inside amt.learn; here: the case posting alone
    # would need the pool state, so the reader itself is compared in process_parse_cases)
    printed = vflib.driver_run(plines)
    pos = 0
    rr = []
    for c, o, m in zip(cases, obs, meta):
        if m is None:
            continue
        n, tie, val, d, bad, replay = m
        got = printed[pos:pos + n]
        shows = [g.split("\t") for g in printed[pos + n:pos + 2 * n]]
        pos += 2 * n
        texts = [bytes.fromhex(g[3:]) if g.startswith("ok\t") else None for g in got]
        check_listing(ctx, c, o, val, shows, replay)
        if o["text"] not in texts:
            ctx.tie_broken("corr:amt.print", "model prints %r, ledger prints %r (q=%s style=%s P=%s, tie=%s)\n%r" %
                           (texts, o["text"], o["verif"][0], c["style"], c["P"], tie, o["journal"]))
            ctx.mism.append(dict(op="amt.print", model=[t.decode("utf-8", "replace") if t else None for t in texts],
                                 ledger=o["text"].decode("utf-8", "replace"), case=c))
        else:
            ctx.traces_validated += 1
        ctx.sample(dict(op="fmt", journal=o["journal"].decode("utf-8", "replace"), expr=c["expr"],
                        ledger=o["text"].decode("utf-8", "replace"), exact=str(o["verif"][0])), cap=4)
        if val is not None:
            rr.append((c, o, val, d, replay))
    # stage 2: re-read ledger's own output
    def both(x):
        c, o, val, d, replay = x
        return reread(work, c, o["text"], False), reread(work, c, o["text"], True)
    for (c, o, val, d, replay), (fresh, known) in zip(rr, vflib.pmap(both, rr)):
        ctx.count()
        sym = bytes.fromhex(c["sym"])
        for name, r in (("fresh", fresh), ("known", known)):
            ok = r["verif"] is not None and r["verif"][0] == val and same_symbol(r["verif"][3], sym)
            full = val == o["verif"][0]
            if ok:
                ctx.traces_validated += 1
                if full:
                    ctx.feature("reread-exact:" + name)
                continue
            cls = classify_reread_failure(c, o["text"], d)
            if name == "known" and cls == "decimal-comma-3n-decimals":
                cls = "other"
            got = ("error: " + (r["err"].decode("utf-8", "replace").strip().split("\n")[-1] if r["err"] else "?")) \
                if r["verif"] is None else "%s of commodity %r" % (r["verif"][0], r["verif"][3])
            rp = dict(replay)
            rp.update(kind="reread", printed=o["text"].decode("utf-8", "replace"), printed_hex=o["text"].hex(),
                      reread_journal=r["journal"].decode("utf-8", "replace"), reread_journal_hex=r["journal"].hex(),
                      expect="%s of commodity %r" % (val, sym), got=got, context=name)
            ctx.violation("C04:reread:" + cls + ("" if name == "fresh" or cls != "other" else ":known-style"),
                          "ledger printed %r for %s %r; fed back to ledger (%s) it reads as %s" %
                          (o["text"], o["verif"][0], sym, "fresh process" if name == "fresh" else "same style set-up", got), rp)


# ---------------------------------------------------------------------------
# the reader alone (amt.parse): valid styles and a malformed stream

ALPHA = list("0123456789") * 3 + list(",,..") * 3 + list("--  \"\"$$XYe€\\;@")


def gen_parse_text(rng):
    r = rng.random()
    if r < 0.45:
        # well-formed, any style, possibly inconsistent marks
        q, k = gen_quantity(rng, 12, 8)
        st = Style(rng.random() < .5, rng.random() < .5, rng.random() < .5, rng.random() < .4)
        sym = rng.choice(PLAIN_SYMS + QUOTED_SYMS + [""]).encode()
        t = with_symbol(write_number(q, k, st.thou, st.dc).encode(), sym, st)
        if rng.random() < 0.2:
            t += rng.choice([b" ; note", b"  ;x", b" "])
        return t
    if r < 0.7:
        # a number with perturbed punctuation
        q, k = gen_quantity(rng, 9, 6)
        s = list(write_number(q, k, rng.random() < .7, rng.random() < .5))
        for _ in range(rng.randint(1, 2)):
            i = rng.randint(0, len(s))
            op = rng.random()
            if op < 0.4:
                s.insert(i, rng.choice(",.,.0-"))
            elif op < 0.7 and s:
                del s[min(i, len(s) - 1)]
            elif s:
                s[min(i, len(s) - 1)] = rng.choice(",.")
        num = "".join(s).encode()
        sym = rng.choice(["$", "EUR", "A B", "", "€"]).encode()
        st = Style(rng.random() < .5, rng.random() < .5, False, False)
        return with_symbol(num, sym, st)
    n = rng.randint(1, 12)
    return "".join(rng.choice(ALPHA) for _ in range(n)).encode()


def parse_expectation(model_line):
    """what ledger's posting parser must do given the model's answer for the amount text."""
    f = model_line.split("\t")
    if f[0] == "err":
        return ("err", f[1])
    q, prec, sym, flags, rest = frac(f[1]), int(f[2]), bytes.fromhex(f[3]), f[4], bytes.fromhex(f[5])
    tail = rest.lstrip(b" \t")
    if tail == b"" or tail.startswith(b";"):
        return ("ok", q, prec, sym, flags)
    if tail[:1] in (b"@", b"=", b"(", b"[", b"{"):
        return ("skip",)
    return ("err", "unexpected-char")


def process_parse_cases(ctx, work, texts, dcg=False):
    def one(t):
        j = b"2020/02/01 case\n    A    " + t + b"\n    B\n"
        p = work.path(j)
        opt = ["--decimal-comma"] if dcg else []
        rc, out, err = run_ledger(["-f", p] + opt + ["reg", "^A$", "--empty", "--format", "%(verif_rational(amount))\n"])
        rc2, xml, err2 = run_ledger(["-f", p] + opt + ["xml"]) if rc == 0 else (1, b"", b"")
        return rc, out, err, xml
    vflib.log("C04: %d parse texts at %.0fs" % (len(texts), __import__("time").time() - ctx.t0))
    # textual.cc trims trailing white space off every line before the posting is parsed
    texts = [t.rstrip(b" \t") for t in texts]
    usable = [t for t in texts if t.strip() and t.lstrip()[:1] not in (b";", b"=", b"(") and b"\n" not in t]
    obs = vflib.pmap(one, usable)
    model = vflib.driver_run(["amt.parse\t%s\t%d" % (t.hex(), dcg) for t in usable])
    for t, (rc, out, err, xml), m in zip(usable, obs, model):
        ctx.count()
        exp = parse_expectation(m)
        if exp[0] == "skip":
            ctx.feature("parse:rest-is-cost-or-annotation")
            continue
        if rc == 0:
            v = parse_verif(out.split(b"\n")[0])
            if v is None and out.startswith(b"I:"):
                v = None
            if v:
                msym = exp[3] if exp[0] == "ok" else None
                gsym = msym if (msym is not None and same_symbol(v[3], msym)) else unquote(v[3])
                got = ("ok", v[0], v[1], gsym, (xml_flags(xml).get(gsym) or Style(0, 0, 0, 0)).bits() if v[3] else None)
            else:
                got = ("?", out)
        else:
            got = ("err", err_kind(err))
        if exp[0] == "ok" and not exp[3]:
            exp = exp[:4] + (None,)      # flags of the null commodity are not observable
        if exp[0] == "ok" and got[0] == "ok" and dcg and exp[4] is not None:
            pass
        ctx.feature("parse:" + (got[1] if got[0] == "err" else got[0]) if got[0] != "ok" else "parse:ok")
        if tuple(exp) != tuple(got):
            ctx.tie_broken("corr:amt.parse", "amount text %r: model %r, ledger %r" % (t, exp, got))
            ctx.mism.append(dict(op="amt.parse", text=t.decode("utf-8", "replace"), model=repr(exp), ledger=repr(got)))
        else:
            ctx.traces_validated += 1
            if got[0] == "ok" and (b"," in t or b'"' in t):
                ctx.nontrivial(("parse", t.hex()))
        # oracle: a plain decimal number (no marks) denotes its positional value
        m2 = re.fullmatch(rb"(-?)([0-9]+)(?:\.([0-9]+))?( [A-Z]+)?", t)
        if m2 and not dcg:
            want = Fraction(int(m2.group(2) + (m2.group(3) or b"")), 10 ** len(m2.group(3) or b"")) * (-1 if m2.group(1) else 1)
            within = len(m2.group(1) + m2.group(2)) + (1 + len(m2.group(3)) if m2.group(3) else 0) <= 255 and \
                len((m2.group(4) or b" ")[1:]) <= 255
            if got[0] == "ok":
                wrong = got[1] != want or got[2] != len(m2.group(3) or b"")
            else:
                wrong = within        # beyond the documented 255-character limit ledger may refuse, never misread
            if wrong:
                ctx.violation("C04:parse:decimal", "the decimal text %r is read as %r, its positional value is %s" % (t, got, want),
                              dict(kind="parse", text=t.decode(), want=str(want)))


# ---------------------------------------------------------------------------
# roundto (in_place_roundto) through the REPL


def process_roundto(ctx, n):
    rng = ctx.rng
    vflib.log("C04: %d roundto cases at %.0fs" % (n, __import__("time").time() - ctx.t0))
    cases = []
    for i in range(n):
        p = rng.randint(0, 12)
        r = rng.random()
        if r < 0.4:
            q, k = gen_quantity(rng, 9, 12)
            a, b = q.numerator, q.denominator
        elif r < 0.7:
            # exact ties at p decimals
            m = rng.randint(-10 ** rng.randint(1, 8), 10 ** rng.randint(1, 8))
            q = Fraction(2 * m + 1, 2 * 10 ** p)
            a, b = q.numerator, q.denominator
        else:
            a, b = rng.randint(-10 ** 9, 10 ** 9), rng.choice([3, 7, 9, 11, 13, 17, 64, 125, 1024, rng.randint(1, 10 ** 6)])
        cases.append((Fraction(a, b), a, b, p))
    lines = ['eval "verif_rational(roundto((0 - %d) / %d, %d))"' % (-a, b, p) if a < 0 else
             'eval "verif_rational(roundto(%d / %d, %d))"' % (a, b, p) for q, a, b, p in cases]
    outs = vflib.repl_parallel(lines, chunk=500)
    model = vflib.driver_run(["amt.roundto\t%d/%d\t%d" % (q.numerator, q.denominator, p) for q, a, b, p in cases])
    for (q, a, b, p), o, m in zip(cases, outs, model):
        ctx.count()
        v = parse_verif((o or "").strip().split("\n")[-1].encode()) if o else None
        if v is None:
            ctx.tie_broken("corr:amt.roundto", "no answer for roundto(%s, %d): %r" % (q, p, o))
            continue
        r = v[0]
        want = "ok\t%d/%d" % (r.numerator, r.denominator)
        if want != m:
            ctx.tie_broken("corr:amt.roundto", "roundto(%s, %d): model %s, ledger %s" % (q, p, m, want))
        else:
            ctx.traces_validated += 1
        scaled = q * 10 ** p
        if (r * 10 ** p).denominator != 1 or abs(r - q) * 2 * 10 ** p > 1:
            ctx.violation("C04:roundto:nearest", "roundto(%s, %d) = %s is not a nearest value with %d decimals" % (q, p, r, p),
                          dict(kind="roundto", a=a, b=b, p=p, how='ledger eval "verif_rational(roundto(%d / %d, %d))"' % (a, b, p)))
        if scaled.denominator != 1 and r != q:
            ctx.nontrivial(("roundto", str(q), p))
        if (scaled * 2).denominator == 1 and scaled.denominator != 1:
            ctx.feature("roundto:tie")
            # the direction at a tie is not part of the property ("a nearest value"); in_place_roundto's
            # half-even rule is held by the correspondence with the model above


# ---------------------------------------------------------------------------
# multi-posting journals: precision = max seen, `print` output re-read


def make_print_journal(rng, ncomm, nposts):
    comms = []
    syms = rng.sample(PLAIN_SYMS + QUOTED_SYMS, ncomm)
    for s in syms:
        dc = rng.random() < 0.3
        st = Style(rng.random() < .5, rng.random() < .5, rng.random() < .5, dc)
        comms.append((s.encode(), st))
    posts = []
    for i in range(nposts):
        sym, st = rng.choice(comms)
        q, k = gen_quantity(rng, 12, 6)
        k = min(k, 8)
        q = Fraction(int(q * 10 ** k), 10 ** k)
        if q == 0:
            q = Fraction(1, 10 ** k)      # `print` omits all-zero transactions (C06's subject, not C04's)
        posts.append((sym, st, q, k))
    # a decimal-comma commodity must first be seen with 1, 2, 4 or 5 decimals, and must not end at 3n decimals
    # (those are the guards of C04.print_parse_roundtrip_partial, exercised on their own in the fmt cases)
    fixed = []
    seen = {}
    for sym, st, q, k in posts:
        if st.dc:
            if sym not in seen and k % 3 == 0:
                k = k + 1
            seen[sym] = max(seen.get(sym, 0), k)
        fixed.append((sym, st, q, k))
    for sym, p in list(seen.items()):
        if p % 3 == 0:
            st = dict(comms)[sym]
            fixed.append((sym, st, Fraction(1, 10 ** (p + 1)), p + 1))
    return fixed


def process_print_journals(ctx, work, n):
    rng = ctx.rng
    vflib.log("C04: %d print journals at %.0fs" % (n, __import__("time").time() - ctx.t0))
    js = [make_print_journal(rng, rng.randint(1, 4), rng.randint(2, 9)) for _ in range(n)]

    def one(posts):
        out = []
        for i, (sym, st, q, k) in enumerate(posts):
            out.append(b"2020/03/%02d p%d\n    A:x%d    " % (1 + i % 28, i, i) +
                       with_symbol(write_number(q, k, st.thou, st.dc).encode(), sym, st) + b"\n    B\n\n")
        j = b"".join(out)
        p = work.path(j)
        fmt = "%(amount)\n%(verif_rational(amount))\n"
        rc, reg, err = run_ledger(["-f", p, "reg", "^A", "--empty", "--format", fmt])
        rc1, xml, e1 = run_ledger(["-f", p, "xml"])
        rc2, printed, err2 = run_ledger(["-f", p, "print"])
        rc3, reg2, err3 = run_ledger(["-f", "-", "reg", "^A", "--empty", "--format", fmt], stdin=printed)
        return j, rc, reg, err, xml, rc2, printed, rc3, reg2, err3
    obs = vflib.pmap(one, js)
    model = vflib.driver_run(["amt.learn\t0\t" + "\t".join(
        with_symbol(write_number(q, k, st.thou, st.dc).encode(), sym, st).hex() for sym, st, q, k in posts) for posts in js])
    for posts, (j, rc, reg, err, xml, rc2, printed, rc3, reg2, err3), m in zip(js, obs, model):
        ctx.count()
        replay = dict(kind="journal", journal=j.decode("utf-8", "replace"), journal_hex=j.hex())
        if rc != 0 or rc2 != 0:
            ctx.violation("C04:fmt:rejected", "ledger rejects a journal of well-formed amounts: %s" % err[-300:], replay)
            continue
        pmax = {}
        for sym, st, q, k in posts:
            pmax[sym] = max(pmax.get(sym, 0), k)
        flags = xml_flags(xml)
        ml = {}
        for ent in m[3:].split(";") if m.startswith("ok\t") and m[3:] else []:
            s, b, p = ent.split(":")
            ml[bytes.fromhex(s)] = (b, int(p))
        lines = reg.split(b"\n")
        okall = True
        for i, (sym, st, q, k) in enumerate(posts):
            text, v = lines[2 * i], parse_verif(lines[2 * i + 1])
            if v is None or v[0] != q:
                ctx.violation("C04:parse:quantity", "posting %d (%s %r) read as %r" % (i, q, sym, v), replay)
                okall = False
                continue
            # learned style = union of the styles it was written in (here: one style per commodity)
            fl = flags.get(sym)
            saw_thou = any(s2 == sym and st2.thou and abs(q2) >= 1000 for s2, st2, q2, k2 in posts)
            want_style = Style(st.suf, st.sep, saw_thou, st.dc and pmax[sym] > 0)
            if fl is None or fl.bits() != want_style.bits():
                ctx.violation("C04:learn:style", "commodity %r written in style %s (marks seen: %s) was learned as %s" %
                              (sym, st.bits(), saw_thou, fl), replay)
                okall = False
                continue
            mm = ml.get(sym)
            if mm is None or mm[0] != fl.bits():
                ctx.tie_broken("corr:amt.learn", "learned style of %r: model %r, ledger %s\n%r" % (sym, mm, fl.bits(), j))
            bad, val, d = oracle_text(text, sym, fl, fl.dc, q, pmax[sym], pmax[sym], False)
            for kk, msg in bad:
                fp = "C04:precision-max-seen" if kk == "decimals" else "C04:fmt:" + kk
                ctx.violation(fp, msg, replay)
                okall = False
            if mm is not None and d is not None and mm[1] != d:
                ctx.tie_broken("corr:amt.learn", "precision of %r: model %d, ledger displays %d decimals\n%r" % (sym, mm[1], d, j))
        # print | ledger -f -
        def qc(regout):
            return [(v[0], v[3]) if v else None for v in (parse_verif(l) for l in regout.split(b"\n")[1::2])]
        if rc3 != 0 or qc(reg2) != qc(reg):
            ctx.violation("C04:print-reread", "`ledger print` output does not re-read to the same amounts: %s" %
                          (err3[-300:] if rc3 != 0 else "amounts differ"),
                          dict(replay, printed=printed.decode("utf-8", "replace")))
            okall = False
        if okall:
            ctx.traces_validated += 1
            if len(pmax) >= 2 or any(pmax[s] > k for s, st, q, k in posts):
                ctx.nontrivial(("journal", j.hex()[:400]))
        ctx.feature("print-journal")


# ---------------------------------------------------------------------------


def witness_cases(rng):
    """Inputs excluded by the guards of C04.print_parse_roundtrip_partial, always run on the binary."""
    out = []
    S = Style
    # decimal comma learned from the data, display precision a multiple of three
    out.append(make_fmt_case(rng, "EUR", S(1, 1, 0, 1), 3, False, "learn", "amount", Fraction(3, 2), 2, False))
    out.append(make_fmt_case(rng, "EUR", S(1, 1, 1, 1), 3, False, "learn", "amount", Fraction(2469135, 2), 1, True))
    out.append(make_fmt_case(rng, "kr", S(1, 1, 0, 1), 6, False, "format", "amount", Fraction(1, 8), 3, False))
    # symbols the printer does not protect
    for s in BAD_SYMS:
        out.append(make_fmt_case(rng, s, S(1, 1, 0, 0), 2, False, "learn", "amount", Fraction(5), 0, False))
    return out


def fix_bad_symbol_case(c):
    """symbols containing a backslash / quote must be written with escapes inside quotes."""
    sym = bytes.fromhex(c["sym"])
    if not special(sym):
        return c
    esc = b'"' + sym.replace(b"\\", b"\\\\").replace(b'"', b'\\"') + b'"'
    plain = (b'"' + sym + b'"') if oracle_needs_quotes(sym) else sym

    def sub(h):
        t = bytes.fromhex(h)
        return t.replace(plain, esc, 1).hex() if plain in t else t.hex()
    c = dict(c)
    c["items"] = [(a, sub(b)) for a, b in c["items"]]
    c["ptext"] = sub(c["ptext"])
    return c


def exhaustive_cases(rng, full):
    """every style x {plain, quoted, non-ASCII symbol} x precision {0, 2, 3} x a fixed quantity set,
    through the format-directive set-up; a rotating subset also through amount*K and unrounded."""
    out = []
    qs = [(Fraction(0), 0), (Fraction(999), 0), (Fraction(-1000), 0), (Fraction(1234567), 0),
          (Fraction(-1234567891, 1000), 3), (Fraction(5, 1000), 3), (Fraction(-5, 1000), 3),
          (Fraction(999995, 1000), 3), (Fraction(-9999995, 10), 1), (Fraction(12345678901234567, 100), 2), (Fraction(1, 8), 3)]
    n = 0
    for bits in itertools.product([0, 1], repeat=4):
        st = Style(*bits)
        for si, sym in enumerate(["$", "A B", "€"]):
            for P in (0, 2, 3):
                dcg = bool(st.dc and P == 0)
                if not full and (si + P + sum(bits)) % 3 != 0:
                    continue        # quick tier: one of the three symbol kinds per (style, precision), rotating
                for q, k in qs:
                    n += 1
                    out.append(make_fmt_case(rng, sym, st, P, dcg, "format", "amount", q, k, True))
                    if n % 4 == 0:
                        out.append(make_fmt_case(rng, sym, st, P, dcg, "learn", rng.choice(["mul", "unrounded"]), q, k, False))
    return out


def boundary_cases(rng, full):
    """Edges of every comparison in the printer: 3/4, 6/7, 9/10 ... integer digits with thousands marks at
    precision 0-3 (positive and negative), carries that add a digit group (999.5 -> 1,000), ties and the
    values one unit either side, negative values that round to zero, trailing-zero trimming of unrounded
    amounts at prec = P, P+1, P+6, P+7."""
    out = []
    S = Style
    styles = [S(0, 0, 1, 0), S(1, 1, 1, 0), S(0, 1, 1, 1), S(1, 0, 1, 1), S(0, 0, 0, 0), S(1, 1, 0, 1)]
    syms = ["$", "EUR", "A B", "€", "kr", "X-1"]
    if not full:
        styles, syms = styles[:3] + styles[5:], syms[:3] + syms[5:]
    for si, st in enumerate(styles):
        sym = syms[si]
        for P in (0, 1, 2, 3):
            dcg = bool(st.dc and P == 0)
            for idig in ((1, 2, 3, 4, 5, 6, 7, 8, 9, 10, 12, 13, 15, 16) if full else (1, 3, 4, 6, 7, 9, 10, 13, 16)):
                for sign in (1, -1):
                    out.append(make_fmt_case(rng, sym, st, P, dcg, "format", "amount", sign * Fraction(10 ** idig - 1), 0, True))
                    out.append(make_fmt_case(rng, sym, st, P, dcg, "learn", "amount", sign * Fraction(10 ** (idig - 1)), 0, idig % 2 == 0))
            for idig in (0, 1, 2, 3, 6, 9):
                top = 10 ** idig - 1
                for sign in (1, -1):
                    half = Fraction(5, 10 ** (P + 1))
                    for delta in (Fraction(0), Fraction(1, 10 ** (P + 3)), -Fraction(1, 10 ** (P + 3))):
                        q = sign * (top + 1 - half + delta)
                        out.append(make_fmt_case(rng, sym, st, P, dcg, "learn", "mul", q, P + 3, False))
                        q = sign * (Fraction(top) + half + delta - 1 + Fraction(2, 10 ** P) if False else Fraction(top) - 1 + half + delta)
                        out.append(make_fmt_case(rng, sym, st, P, dcg, "format", "amount", q, P + 3, True))
            # below a power of ten, rounding up across it (0.9.. -> 1, 9.9.. -> 10, 99.9.. -> 100): is_zero's "prints as
            # zero" test and the integer-digit count both sit on this edge; and the value just too small to carry
            for j in (0, 1, 2, 3):
                for sign in (1, -1):
                    for k in (P + 1, P + 2, P + 4):
                        out.append(make_fmt_case(rng, sym, st, P, dcg, "format", "amount",
                                                 sign * (10 ** j - Fraction(1, 10 ** k)), k, True))
                    out.append(make_fmt_case(rng, sym, st, P, dcg, "learn", "mul",
                                             sign * (10 ** j - Fraction(4, 10 ** (P + 1))), P + 1, False))
                    out.append(make_fmt_case(rng, sym, st, P, dcg, "format", "amount",
                                             sign * (10 ** j - Fraction(6, 10 ** (P + 1))), P + 1, False))
            # negative values that display as zero, smallest displayed unit
            for q, k in ((Fraction(-4, 10 ** (P + 1)), P + 1), (Fraction(4, 10 ** (P + 1)), P + 1), (Fraction(-1, 10 ** P), P),
                         (Fraction(-6, 10 ** (P + 1)), P + 1)):
                out.append(make_fmt_case(rng, sym, st, P, dcg, "format", "amount", q, k, False))
            # unrounded: trailing zeros are trimmed down to, never below, the commodity precision
            for k, digits in ((P, "1" * P), (P + 1, "1" * P + "0"), (P + 2, "1" * P + "50"), (P + 3, "0" * P + "000"),
                              (P + 6, "1" * P + "000001"), (P + 7, "1" * P + "0000005"), (P + 8, "9" * (P + 8))):
                q = Fraction(int("7" + digits), 10 ** k)
                out.append(make_fmt_case(rng, sym, st, P, dcg, "learn", "unrounded", q, k, False))
                out.append(make_fmt_case(rng, sym, st, P, dcg, "learn", "unrounded", -q, k, False))
    return out


def boundary_parse_texts():
    """Edges of the reader: the 255-character quantity buffer (one less after a sign), the 255-byte symbol
    buffer, group sizes 2/3/4 around a mark, marks at either end."""
    out = []
    for n in (253, 254, 255, 256, 257):
        out += [b"1" * n + b" X", b"$" + b"1" * n, b"-" + b"1" * n + b" X", b"$-" + b"1" * n, b"1" * (n - 3) + b".25 X",
                b"9" * (n - 4) + b",000 X"]
    for n in (254, 255, 256):
        out += [b"5 " + b"S" * n, b'5 "' + b"a b" * (n // 3) + b"x" * (n % 3) + b'"', b"S" * n + b" 5"]
    for t in ("1,00 X", "1,000 X", "1,0000 X", "10,00 X", "100,000 X", "1000,000 X", "1,000,00 X", "1,000,000 X", "1,000,0000 X",
              "1.000,5 X", "1.00,5 X", "1.0000,5 X", ",100 X", "100, X", "1,000. X", "0,000 X", "1.000.000,00 X", "1,000,000.00 X",
              "1.000 X", "1.000.000 X", "-1,000 X", "$-1,000", "-$1,000", "1,000,000,000,000,000,000.123456789012 X",
              "0.1234567890123456789012345678901234567890 X"):
        out.append(t.encode())
    return out


def random_fmt_case(rng):
    sym = rng.choice(PLAIN_SYMS) if rng.random() < 0.55 else rng.choice(QUOTED_SYMS)
    st = Style(rng.random() < .5, rng.random() < .5, rng.random() < .6, rng.random() < .35)
    P = rng.choice([0, 1, 2, 2, 2, 3, 4, 5, 6, 8, 9, 10, 12])
    dcg = rng.random() < 0.12
    if st.dc and P == 0:
        dcg = True
    q, k = gen_quantity(rng)
    setup = rng.choice(["learn", "format", "format"])
    channel = rng.choice(["amount", "amount", "mul", "unrounded"])
    return make_fmt_case(rng, sym, st, P, dcg, setup, channel, q, k, rng.random() < 0.7)


def run(tier, seed):
    ctx = Check("C04", tier, seed)
    ctx.mism = []
    ctx.rule = ("one-posting journals: quantity (sign, 0-15 integer digits, 0-14 decimals, biased to ties/near-ties) x commodity style "
                "(prefix/suffix x separated x thousands x decimal comma, learned from postings or fixed by a format directive, with or "
                "without --decimal-comma) x display precision 0-12 x symbol (plain, non-ASCII, quoted with spaces/digits/punctuation) x "
                "channel (written amount / amount*K / unrounded); every printed text is re-read in a fresh process and after the same "
                "set-up; plus amount texts incl. a malformed stream for the reader, roundto batches, multi-commodity journals through "
                "`print | ledger -f -`. Non-trivial = rounding changes a digit, or >=7 integer digits with thousands marks, or "
                "quoted/non-ASCII symbol, or decimal comma; distinct by (symbol, style, precision, quantity, channel)")
    ctx.assumptions = ["MPFR %.*RNf rounds the exact rational to a nearest decimal; tie direction unspecified (either neighbour accepted at exact ties only)",
                       "GMP rational arithmetic is exact", "no lot annotations, no time-colon style, no commodity conversions (h/m/s) in the generated amounts",
                       "text is modelled as bytes; symbols are valid UTF-8 without NUL/newline"]
    if not ctx.prepare():
        return ctx.finish()
    rng = ctx.rng
    work = Work()
    # a broken proof obligation / extractor / pin aims the search: every stream is widened
    search = bool(ctx.ties_broken)
    if search:
        ctx.feature("search-mode")

    def streams(full):
        ex = exhaustive_cases(rng, full)
        ctx.extra_cov["exhaustive_style_cases"] = len(ex)
        process_fmt_cases(ctx, work, ex, "exhaustive")
        bd = boundary_cases(rng, full)
        ctx.extra_cov["boundary_cases"] = len(bd)
        process_fmt_cases(ctx, work, bd, "boundary")
        process_parse_cases(ctx, work, boundary_parse_texts())
        nr = 12000 if full else 500
        for i in range(0, nr, 2000):
            process_fmt_cases(ctx, work, [random_fmt_case(rng) for _ in range(min(2000, nr - i))], "random")
        np_ = 12000 if full else 600
        process_parse_cases(ctx, work, [gen_parse_text(rng) for _ in range(np_)])
        process_parse_cases(ctx, work, [gen_parse_text(rng) for _ in range(np_ // 4)], dcg=True)
        process_roundto(ctx, 40000 if full else 1500)
        process_print_journals(ctx, work, 1500 if full else 60)
    try:
        wit = [fix_bad_symbol_case(c) for c in witness_cases(rng)]
        process_fmt_cases(ctx, work, wit, "witness")
        full = search or ctx.tier != "quick"
        streams(full)
        if not full and ctx.ties_broken and not any(v[3] for v in ctx.violations):
            # model and binary disagree but the property oracle found nothing yet: widen before giving up
            ctx.feature("search-mode")
            streams(True)
    finally:
        work.close()
    if ctx.mism:
        ctx.extra_cov["mismatches"] = ctx.mism[:10]
    return ctx.finish()


def replay(obj):
    r = obj.get("replay", {})
    vflib.ensure_ledger()
    work = Work()
    try:
        if r.get("kind") in ("fmt", "reread", "listing"):
            c = r["case"]
            o = observe_fmt(work, c)
            print("journal:\n" + o["journal"].decode("utf-8", "replace"))
            print("ledger prints:", o["text"], "exact:", o["verif"])
            if o["text"] is None:
                return 1
            sym = bytes.fromhex(c["sym"])
            st = Style.of_bits(c["style"])
            vq, vprec, vkeep, vsym = o["verif"]
            dmin = c["p_eff"]
            dmax = max(c["p_eff"], vprec) if vkeep else c["p_eff"]
            bad, val, d = oracle_text(o["text"], sym, st, st.dc, vq, dmin, dmax, vkeep)
            for k, msg in bad:
                print("VIOLATED:", k, msg)
            rc = 1 if bad else 0
            li = o.get("listing")
            if li and val is not None and val != 0:
                shown = (li["shown"] or b"").strip()
                want = listing_text(o["text"], sym, st)
                print("default listing shows:", shown, "| reg:", li["reg"], "| bal:", li["bal"])
                if shown != want or want not in (li["reg"] or b"") or want not in (li["bal"] or b""):
                    print("VIOLATED: listing does not show", want)
                    rc = 1
            if val is not None:
                for known in (False, True):
                    rr = reread(work, c, o["text"], known)
                    ok = rr["verif"] is not None and rr["verif"][0] == val and same_symbol(rr["verif"][3], sym)
                    print("re-read (%s): %s %s" % ("same set-up" if known else "fresh", rr["verif"], "ok" if ok else "DIFFERS " + rr["err"].decode("utf-8", "replace")[-200:]))
                    if not ok:
                        rc = 1
            return rc
        if r.get("kind") == "roundto":
            rc, out, err = run_ledger(["eval", "verif_rational(roundto(%d / %d, %d))" % (r["a"], r["b"], r["p"])] if r["a"] >= 0 else
                                      ["eval", "verif_rational(roundto((0 - %d) / %d, %d))" % (-r["a"], r["b"], r["p"])])
            v = parse_verif(out.strip())
            q = Fraction(r["a"], r["b"])
            print("roundto(%s, %d) =" % (q, r["p"]), v)
            ok = v is not None and (v[0] * 10 ** r["p"]).denominator == 1 and abs(v[0] - q) * 2 * 10 ** r["p"] <= 1
            return 0 if ok else 1
        if r.get("kind") == "journal":
            j = bytes.fromhex(r["journal_hex"])
            p = work.path(j)
            fmt = "%(verif_rational(amount))\n"
            rc, reg, err = run_ledger(["-f", p, "reg", "^A", "--empty", "--format", fmt])
            rc2, printed, err2 = run_ledger(["-f", p, "print"])
            rc3, reg2, err3 = run_ledger(["-f", "-", "reg", "^A", "--empty", "--format", fmt], stdin=printed)
            print(printed.decode("utf-8", "replace"))
            def qc(regout):
                return [(v[0], v[3]) if v else None for v in (parse_verif(l) for l in regout.split(b"\n"))]
            print("same amounts after print | ledger -f - :", rc3 == 0 and qc(reg) == qc(reg2))
            return 0 if rc3 == 0 and qc(reg) == qc(reg2) else 1
        if r.get("kind") == "parse":
            t = r["text"].encode()
            p = work.path(b"2020/02/01 case\n    A    " + t + b"\n    B\n")
            rc, out, err = run_ledger(["-f", p, "reg", "^A$", "--empty", "--format", "%(verif_rational(amount))\n"])
            v = parse_verif(out.split(b"\n")[0]) if rc == 0 else None
            print(t, "->", v, "want", r.get("want"))
            return 0 if v is not None and str(v[0]) == r.get("want") else 1
    finally:
        work.close()
    print(json.dumps(obj, indent=1)[:2000])
    return 1
