"""C05 — balance, register and account-tree totals agree.

Theorems: lean/LedgerModel/Props/C05.lean (fold/induction proofs over the posting
list, parametric in the valuation and the posting predicate).
Tie: Gen/Chain.lean (handler order of chain.cc evaluated per scenario, option
tables of report.h, pinned code texts) + this differential check of the model's
`rep.raw` / `rep.reg` / `rep.bal` rows against `ledger reg|bal --empty --format …`
with exact rationals.
Oracle on the implementation: the identities of the property evaluated with
Python Fractions on ledger's OWN reg and bal outputs (no model involved).
"""
import os, re, json, tempfile, itertools
from fractions import Fraction
import vflib, jgen
from vflib import Check

MANIFEST = dict(
    text="Machine-checked proof (Lean 4) that, for every finalised journal, every per-posting valuation (amount, cost for -B) and "
         "every posting predicate (--real/--cleared/--uncleared/--pending/account-or-payee query), an account's balance equals the "
         "exact per-commodity sum of the register's postings to it and its sub-accounts, a parent's total is its own postings plus its "
         "children's totals (also for the recursive computation account_t::total performs), the register's running total on row k is "
         "the sum of rows 0..k and its last value is the balance report's grand total, --flat/--depth only regroup (flat rows and the "
         "depth-N cut of the tree-mode rows sum to the grand total) and stripping lot annotations commutes with summation and never "
         "changes a per-base-commodity sum. The handler order of chain.cc (limit before calc_posts, collapse before calc_posts) and the "
         "option tables of report.h are re-extracted on every run and compared by `decide`/`rfl`; the model's reg/bal rows are compared "
         "row by row with the rebuilt binary over random account trees (depth 1-6), 1-5 commodities, costs, lots, virtual postings and "
         "states under random option sets; an independent Fraction oracle evaluates the identities on ledger's own two outputs.",
    note="The journal is taken as accepted and finalised: elided amounts, computed lot annotations and final costs are read from "
         "ledger's own unfiltered register listing (the finalize model belongs to C01/C02). Regex matching is limited to literal, "
         "case-insensitive substrings. Rows are observed with --empty; the default listing is checked to be that listing minus "
         "display-zero rows. `reg --depth N` rows of one transaction are compared as a multiset (their order is address order, C19). "
         "--lots-actual, fixated prices, -V/-X, --collapse, --subtotal, periods and sorting are outside this check.",
    technique="Lean 4 proofs by induction over the posting list + regenerated handler-order tables + differential model/binary check + "
              "implementation-side Fraction oracle",
    ref="DESIGN.md §5 C05")

L = vflib.ledger_run

RAW_FMT = ("%(xact.beg_line)|%(beg_line)|%(account)|%(virtual)|%(cleared)|%(pending)|%(payee)|%(verif_rational(amount))"
           "|%(verif_rational(lot_price(amount)))|%(has_cost)|%(verif_rational(cost))|%(verif_rational(lot_price(cost)))\n")
REG_FMT = ("%(beg_line)|%(account)|%(verif_rational(display_amount))|%(verif_rational(display_total))"
           "|%(verif_rational(scrub(display_amount)))|%(verif_rational(scrub(display_total)))|%(scrub(display_amount))\n")
BAL_FMT = ("%(account)|%(partial_account(options.flat))|%(verif_rational(amount))|%(verif_rational(total))"
           "|%(verif_rational(scrub(amount)))|%(verif_rational(scrub(display_total)))|%(scrub(display_total))\n")

RESERVED = {"and", "or", "not", "show", "bold", "for", "since", "until", "expr", "payee", "code", "note", "desc", "tag",
            "meta", "data", "only", "from", "to"}

NAMES = ["Assets", "Bank", "Checking", "Savings", "Cash", "Broker", "Expenses", "Food", "Out", "Rent", "Income", "Salary",
         "Liabilities", "Card", "Equity", "Opening", "Env", "Joint", "Lunch", "Work", "Friday", "a", "B", "Zed", "Taxes", "Fed",
         "bank", "Misc", "X1", "Sub Acct"]


# ---------------------------------------------------------------------------
# generation


def gen_accounts(rng, n):
    """A random account tree: n posting accounts of depth 1..6, with shared prefixes,
    single-child chains and parents that also receive postings."""
    accts = []
    tries = 0
    while len(accts) < n and tries < 200:
        tries += 1
        if accts and rng.random() < 0.55:
            base = rng.choice(accts).split(":")
            cut = rng.randint(1, len(base))
            path = base[:cut]
            for _ in range(rng.choice([0, 1, 1, 1, 2, 3])):
                path = path + [rng.choice(NAMES)]
        else:
            path = [rng.choice(NAMES) for _ in range(rng.choice([1, 1, 2, 2, 3, 3, 4, 5, 6]))]
        path = path[:6]
        a = ":".join(path)
        if a not in accts:
            accts.append(a)
    return accts


def lot_text(lot, comms):
    s = ""
    if lot.get("price"):
        s += " {" + jgen.render_amount(lot["price"], comms) + "}"
    if lot.get("date") is not None:
        s += " [" + jgen.date_text(lot["date"]) + "]"
    if lot.get("tag"):
        s += " (" + lot["tag"] + ")"
    return s


def render_post(p, comms):
    lot = (p.get("amount") or {}).get("lot")
    if not lot:
        return jgen.render_post(p, comms)
    s = jgen.render_post(dict(p, cost=None, note="", **{"assert": None}), comms) + lot_text(lot, comms)
    if p["cost"]:
        s += (" @ " if p["cost"]["per_unit"] else " @@ ") + jgen.render_amount(p["cost"], comms)
    if p.get("note"):
        s += "  ; " + p["note"]
    return s


def render(journal, comms):
    out = []
    for x in journal["xacts"]:
        head = jgen.render_xact(dict(x, posts=[]), comms)[0]
        x["line"] = len(out) + 1
        out.append(head)
        for p in x["posts"]:
            p["line"] = len(out) + 1
            out.append(render_post(p, comms))
        x["end_line"] = len(out)
        out.append("")
    return "\n".join(out) + "\n"


def lot_xacts(rng, g, comms, accounts, k):
    """Purchases and sales of lots: `{price} [date] (tag)` annotations, the same lot spread over
    several accounts and transactions, lots sharing a price but not a date and vice versa."""
    if len(comms) < 2:
        return []
    stock = rng.choice(comms)
    money = rng.choice([c for c in comms if c.name != stock.name])
    xs = []
    lots = []
    start = g.kw["start"]
    for i in range(k):
        day = start + rng.randint(0, g.kw["n_days"])
        if lots and rng.random() < 0.5:
            lot = dict(rng.choice(lots))
        else:
            price = Fraction(rng.randint(1, 50 * 10 ** money.dec), 10 ** money.dec)
            priced = [l for l in lots if l["price"]]
            if priced and rng.random() < 0.35:
                price = jgen.amt_q(rng.choice(priced)["price"])
            lot = {"price": jgen.amt(price, money), "date": rng.choice([day, day, None, start + rng.randint(0, 30)]),
                   "tag": rng.choice(["", "", "lotA", "b2"])}
            if rng.random() < 0.15:
                lot["price"] = None
                if lot["date"] is None and not lot["tag"]:
                    lot["date"] = day
            lots.append(lot)
        qty = Fraction(rng.randint(1, 50 * 10 ** stock.dec), 10 ** stock.dec)
        sell = rng.random() < 0.45
        a = dict(jgen.amt(-qty if sell else qty, stock), lot=lot)
        posts = [{"account": rng.choice(accounts), "kind": "real", "state": rng.choice([0, 0, 1, 2]), "amount": a, "cost": None,
                  "assert": None, "note": ""}]
        if lot["price"] and rng.random() < 0.7:
            cp = jgen.amt_q(lot["price"]) if not sell or rng.random() < 0.3 else \
                Fraction(rng.randint(1, 80 * 10 ** money.dec), 10 ** money.dec)
            posts[0]["cost"] = dict(jgen.amt(cp, money), per_unit=True)
        if sell and rng.random() < 0.6:
            posts.append({"account": rng.choice(accounts), "kind": "real", "state": 0,
                          "amount": jgen.amt(Fraction(rng.randint(1, 2000 * 10 ** money.dec), 10 ** money.dec), money),
                          "cost": None, "assert": None, "note": ""})
        posts.append({"account": rng.choice(accounts), "kind": "real", "state": 0, "amount": None, "cost": None,
                      "assert": None, "note": ""})
        xs.append({"date": day, "aux": None, "state": rng.choice([0, 0, 1, 2]), "code": "", "payee": rng.choice(["buy lot", "sell Lot", "Broker fee"]),
                   "note": "", "posts": posts})
    return xs


def gen_case(rng, big=False):
    n_acc = rng.choice([1, 2, 3, 5, 6, 8, 10, 12]) if not big else rng.randint(8, 20)
    accounts = gen_accounts(rng, n_acc)
    ncomm = rng.choice([1, 2, 2, 3, 3, 4, 5])
    comms = rng.sample(jgen.STD_COMMS, ncomm)
    g = jgen.Gen(rng, comms=comms, accounts=accounts, p_virtual=0.12, p_bvirtual=0.1, p_cost=0.2 if ncomm > 1 else 0.0,
                 p_elide=0.4, p_state=0.45, max_posts=5, magnitudes=[10, 1000, 10 ** 6], p_multi=0.3, n_days=200)
    n = rng.choice([1, 2, 4, 6, 10, 16]) if not big else rng.randint(30, 120)
    j = g.journal(n, sort_dates=False)
    j["xacts"] += lot_xacts(rng, g, comms, accounts, rng.choice([0, 0, 1, 2, 4]) if not big else rng.randint(2, 10))
    if ncomm > 1 and rng.random() < 0.3:
        # a cost far below the display precision: the elided posting gets an amount that DISPLAYS as zero
        a, b = rng.sample(comms, 2)
        for _ in range(rng.choice([1, 2])):
            tiny = Fraction(rng.randint(1, 4), 10 ** (b.dec + 2))
            j["xacts"].append({"date": g.kw["start"] + rng.randint(0, 200), "aux": None, "state": rng.choice([0, 1]), "code": "", "payee": "tiny fee",
                               "note": "", "posts": [
                dict(g.posting(c=a, q=Fraction(rng.randint(1, 3)), kind="real"), cost=dict(jgen.amt(tiny, b, b.dec + 2), per_unit=True)),
                {"account": rng.choice(accounts), "kind": "real", "state": 0, "amount": None, "cost": None, "assert": None, "note": ""}]})
    j["xacts"].sort(key=lambda x: x["date"])
    text = render(j, comms)
    return {"ast": j, "comms": [c.name for c in comms], "accounts": accounts, "text": text}


# ---------------------------------------------------------------------------
# boundary stream: the edges of every comparison in the mirrored code


def _c(name):
    return next(c for c in jgen.STD_COMMS if c.name == name)


def _post(account, q=None, comm="$", kind="real", state=0, cost=None, lot=None, dec=None):
    """cost = (q, comm, per_unit); lot = dict(price=(q, comm) | None, date=day | None, tag=str)."""
    p = {"account": account, "kind": kind, "state": state, "amount": None, "cost": None, "assert": None, "note": ""}
    if q is not None:
        p["amount"] = jgen.amt(Fraction(q), _c(comm), dec)
        if lot:
            p["amount"]["lot"] = {"price": jgen.amt(Fraction(lot["price"][0]), _c(lot["price"][1])) if lot.get("price") else None,
                                  "date": lot.get("date"), "tag": lot.get("tag", "")}
    if cost:
        p["cost"] = dict(jgen.amt(Fraction(cost[0]), _c(cost[1]), cost[3] if len(cost) > 3 else None), per_unit=cost[2])
    return p


def _xact(day, payee, posts, state=0):
    return {"date": jgen.day_of(2020, 1, 1) + day, "aux": None, "state": state, "code": "", "payee": payee, "note": "", "posts": posts}


def boundary_journals():
    D = jgen.day_of(2020, 1, 1)
    J = {}
    chain = ["A", "A:B", "A:B:C", "A:B:C:D", "A:B:C:D:E", "A:B:C:D:E:F"]
    # postings at every depth of one chain: --depth N against depth N-1, N, N+1
    J["chain-all-depths"] = [_xact(i, "p%d" % i, [_post(a, i + 1), _post("Eq")]) for i, a in enumerate(chain)]
    # only the leaf posts: every ancestor is a single-child parent without postings
    J["chain-leaf-only"] = [_xact(0, "leaf", [_post(chain[4], 7), _post("Eq:Open:Bal")])]
    # parents with no own postings and 1 / 2 / 3 children; parents with own postings and one child
    J["parents"] = [_xact(0, "two kids", [_post("P:a", 1), _post("P:b", 2), _post("Q:only", 3), _post("R", 4), _post("R:kid", 5),
                                            _post("S:x:deep", 6), _post("S:y", 7), _post("S:z", 8), _post("Eq")])]
    # totals that cancel: across siblings, inside one account, per lot, and only after stripping lots
    J["cancel"] = [_xact(0, "sib", [_post("A:B", 5), _post("A:C", -5)]),
                   _xact(1, "own", [_post("Z", 5), _post("Z", -5)]),
                   _xact(2, "buy lot", [_post("L:same", 5, "AAA", lot={"price": (1, "$"), "date": D}), _post("L:cash")]),
                   _xact(3, "sell lot", [_post("L:same", -5, "AAA", lot={"price": (1, "$"), "date": D}), _post("L:cash")]),
                   _xact(4, "buy lot", [_post("M:mixed", 5, "AAA", lot={"price": (1, "$"), "date": D + 4}), _post("M:cash")]),
                   _xact(5, "sell lot", [_post("M:mixed", -5, "AAA", lot={"price": (2, "$"), "date": D + 5}), _post("M:cash")]),
                   _xact(6, "sell lot", [_post("N:dates", 3, "AAA", lot={"price": (2, "$"), "date": D + 4, "tag": "t"}), _post("N:dates", -3, "AAA", lot={"price": (2, "$"), "date": D + 9})])]
    # a single posting; a single transaction
    J["single-posting"] = [_xact(0, "one", [_post("A:B", 1, kind="virtual")])]
    J["single-xact"] = [_xact(0, "one", [_post("A", 1), _post("B", -1)])]
    # accounts that hold only virtual postings (vanish under --real), next to real ones
    J["virtual-only"] = [_xact(0, "v", [_post("V:only", 9, kind="virtual"), _post("V:sub:bal", 4, kind="bvirtual"), _post("V:sub:bal2", -4, kind="bvirtual"),
                                        _post("R:real", 2), _post("R", -2)]),
                         _xact(1, "w", [_post("V", 1, kind="virtual"), _post("R:real", 3), _post("Eq")])]
    # states: nothing cleared / nothing pending / posting marks overriding the transaction's
    J["states-none"] = [_xact(0, "u", [_post("A:x", 1), _post("B", -1)]), _xact(1, "u2", [_post("A:y", 2), _post("B", -2)])]
    J["states-all-cleared"] = [_xact(0, "c", [_post("A:x", 1), _post("B", -1)], state=1), _xact(1, "c2", [_post("A:y", 2, state=1), _post("B", -2, state=1)])]
    J["states-mixed"] = [_xact(0, "m", [_post("A:x", 1, state=2), _post("A:y", 2, state=1), _post("B", -3)], state=1),
                         _xact(1, "m2", [_post("A:x", 1, state=1), _post("A:z", 2), _post("B", -3)], state=2),
                         _xact(2, "m3", [_post("A:x", 1, state=2), _post("A:z", 2, state=1), _post("B", -3)])]
    # amounts below the display precision: rows hidden without --empty, still part of every total
    J["display-zero"] = [_xact(0, "tiny", [_post("T:stock", 1, "AAA", cost=(Fraction(1, 1000), "$", True, 3)), _post("T:cash")]),
                         _xact(1, "big", [_post("T:cash", Fraction(1234, 100)), _post("T:other")]),
                         _xact(2, "tiny", [_post("U:stock", 3, "AAA", cost=(Fraction(1, 1000), "$", True, 3)), _post("U:cash:in")]),
                         _xact(3, "zero", [_post("W:z", 0), _post("W:y", 0)])]
    # costs: per-unit, total, negative quantities; -B against the plain report
    J["costs"] = [_xact(0, "buy", [_post("S:aaa", 10, "AAA", cost=(Fraction(5, 2), "$", True)), _post("C:bank")]),
                  _xact(1, "buy2", [_post("S:aaa", -4, "AAA", cost=(11, "$", False)), _post("C:bank")]),
                  _xact(2, "fx", [_post("C:eur", 100, "EUR", cost=(Fraction(11, 10), "$", True)), _post("C:bank", -110)])]
    # several commodities balanced by one elided posting
    J["multi-elided"] = [_xact(0, "open", [_post("A:usd", 10), _post("A:eur", 20, "EUR"), _post("A:aaa", 3, "AAA"), _post("Eq:Open")])]
    # account names that are prefixes of each other as STRINGS but not as paths; case differences
    J["name-prefix"] = [_xact(0, "n", [_post("Ab", 1), _post("Ab:c", 2), _post("Abc", 4), _post("ab", 8), _post("Ab c:d", 16), _post("Eq")])]
    return J


def boundary_optsets(name):
    sets = []
    lims = [[], ["real"], ["cleared"], ["uncleared"], ["pending"], ["real", "cleared"]]
    for flat in (False, True):
        for depth in (None, 1, 2, 3, 4, 5, 6):
            for lim in lims:
                sets.append(dict(PLAIN, flat=flat, depth=depth, limit=list(lim)))
    for flat, depth in ((False, None), (True, None), (False, 2), (False, 1)):
        for lots in (None, "lots", "lot_prices", "lot_dates"):
            for basis in (False, True):
                if lots or basis:
                    sets.append(dict(PLAIN, flat=flat, depth=depth, lots=lots, basis=basis))
    for q in ([["a", "A"]], [["a", "a:b"]], [["a", "nomatch"]], [["a", "Ab"]], [["p", "lot"]], [["a", "B"], ["p", "one"]], [["p", "nomatch"]]):
        for depth in (None, 2):
            sets.append(dict(PLAIN, query=q, depth=depth))
            sets.append(dict(PLAIN, query=q, depth=depth, flat=True, limit=["real"]))
    return sets


def boundary_items():
    items = []
    for name, xs in boundary_journals().items():
        j = {"xacts": xs}
        comms = list(jgen.STD_COMMS)
        text = render(j, comms)
        accounts = sorted({p["account"] for x in xs for p in x["posts"]})
        case = {"ast": j, "comms": sorted({(p["amount"] or {}).get("comm", "$") for x in xs for p in x["posts"]}), "accounts": accounts,
                "text": text, "name": name}
        items.append((case, boundary_optsets(name), 10 ** 6 if name in ("display-zero", "cancel", "states-mixed") else 12))
    return items


# ---------------------------------------------------------------------------
# ledger's values -> canonical components


ANN = re.compile(r"^(.*?)(?: \{(=?[^}]*)\})?(?: \[([^\]]*)\])?(?: \(([^)]*)\))?$")


def split_comm(text):
    """printed (possibly annotated) commodity -> (base, price text, date text, tag)."""
    m = ANN.match(text)
    return (m.group(1), m.group(2) or "", m.group(3) or "", m.group(4) or "")


def parse_vr(s):
    """verif_rational text -> list of (Fraction, prec, printed commodity), None for void."""
    tag, _, rest = s.partition(":")
    if tag == "N":
        return []
    if tag == "I":
        n = int(rest)
        return [(Fraction(n), 0, "")] if n else []
    if tag == "A":
        parts = [rest]
    elif tag == "B":
        parts = rest.split(";") if rest else []
    else:
        raise ValueError("unexpected value " + s)
    out = []
    for p in parts:
        q, prec, keep, comm = p.split(":", 3)
        n, d = q.split("/")
        out.append((Fraction(int(n), int(d)), int(prec), comm))
    return out


def den(parts):
    """components -> {(base, price text, date, tag): Fraction}, zero entries dropped."""
    d = {}
    for q, prec, comm in parts:
        k = split_comm(comm)
        d[k] = d.get(k, 0) + q
    return {k: v for k, v in d.items() if v != 0}


def den_add(a, b, sign=1):
    r = dict(a)
    for k, v in b.items():
        r[k] = r.get(k, 0) + sign * v
    return {k: v for k, v in r.items() if v != 0}


def den_sum(ds):
    r = {}
    for d in ds:
        r = den_add(r, d)
    return r


def strip_den(d, keep):
    """what strip_annotations must produce: merge lots whose kept details coincide."""
    kp, kd, kt = keep
    r = {}
    for (b, p, dt, t), v in d.items():
        k = (b, p if kp else "", dt if kd else "", t if kt else "")
        r[k] = r.get(k, 0) + v
    return {k: v for k, v in r.items() if v != 0}


def base_den(d):
    return strip_den(d, (False, False, False))


def show_den(d):
    return {"%s{%s}[%s](%s)" % k if any(k[1:]) else k[0]: str(v) for k, v in sorted(d.items())}


def model_den(s, price_text):
    """model canon `comm=q;…` -> same dictionary shape (exact lot price -> ledger's printed text)."""
    d = {}
    if not s:
        return d
    for part in s.split(";"):
        comm, _, q = part.rpartition("=")
        m = re.match(r"^(.*?)\{(.*)\}\[(.*)\]\((.*)\)$", comm)
        if m:
            k = (m.group(1), price_text.get(m.group(2), "?" + m.group(2)) if m.group(2) else "", m.group(3), m.group(4))
        else:
            k = (comm, "", "", "")
        d[k] = d.get(k, 0) + Fraction(q)
    return {k: v for k, v in d.items() if v != 0}


# ---------------------------------------------------------------------------
# finalisation: ledger's own unfiltered listing fills elided amounts, computed lots, final costs


def eff_state(x, p):
    return x["state"] if p["state"] == 0 else p["state"]


def finalise(case, path):
    """Returns (finalised AST, raw rows, price text map, problems) or None when ledger rejects the journal."""
    rc, out, err = L(["-f", path, "reg", "--empty", "--format", RAW_FMT])
    if rc != 0 or err.strip():
        return None
    rows = [l.split("|") for l in out.split("\n") if l]
    by_line = {}
    for x in case["ast"]["xacts"]:
        for p in x["posts"]:
            by_line[p["line"]] = (x, p)
    problems = []
    price_text = {}
    fx = {}
    order = []
    raw = []
    for r in rows:
        if len(r) != 12:
            problems.append("raw row with %d fields: %r" % (len(r), r))
            continue
        xl, pl, acct, virt, cleared, pending, payee, amt, lprice, has_cost, cost, cprice = r
        xl, pl = int(xl), int(pl)
        if pl not in by_line or by_line[pl][0]["line"] != xl:
            problems.append("listing row at line %d/%d has no posting in the AST" % (xl, pl))
            continue
        x, p = by_line[pl]
        a = parse_vr(amt)
        if len(a) != 1:
            problems.append("posting amount is not a single amount: " + amt)
            continue
        q, prec, comm = a[0]

        def encode(comm, lprice):
            """printed annotated commodity + exact lot price -> the model's commodity key."""
            base, ptxt, dtxt, tag = split_comm(comm)
            exact = ""
            if ptxt:
                lp = parse_vr(lprice)
                if len(lp) != 1:
                    problems.append("lot price not an amount: " + lprice)
                    return base, base, exact, dtxt, tag
                exact = "%d/%d %s" % (lp[0][0].numerator, lp[0][0].denominator, lp[0][2])
                price_text.setdefault(exact, ptxt)
                if price_text[exact] != ptxt:
                    problems.append("one lot price printed two ways: %s / %s" % (price_text[exact], ptxt))
            return (base if not (ptxt or dtxt or tag) else "%s{%s}[%s](%s)" % (base, exact, dtxt, tag)), base, exact, dtxt, tag
        enc, base, exact, dtxt, tag = encode(comm, lprice)
        fp = dict(p)
        fp["amount"] = {"q": "%d/%d" % (q.numerator, q.denominator), "prec": prec, "comm": enc}
        if has_cost == "true":
            c = parse_vr(cost)
            if len(c) != 1:
                problems.append("cost is not a single amount: " + cost)
                continue
            fp["cost"] = {"q": "%d/%d" % (c[0][0].numerator, c[0][0].denominator), "prec": c[0][1], "comm": encode(c[0][2], cprice)[0],
                          "per_unit": False}
        else:
            fp["cost"] = None
        if xl not in fx:
            fx[xl] = dict(x, posts=[])
            order.append(xl)
        fx[xl]["posts"].append(fp)
        st = 1 if cleared == "true" else 2 if pending == "true" else 0
        cden = den(parse_vr(cost)) if has_cost == "true" else den(a)
        raw.append({"line": pl, "account": acct, "real": virt == "false", "state": st, "payee": payee, "amount": den(a), "cost": cden})
        # the textual reader against the generator's AST
        if acct != p["account"] or (virt == "false") != (p["kind"] == "real") or payee != x["payee"] or st != eff_state(x, p):
            problems.append("posting at line %d read differently from what was written" % pl)
        if p["amount"] is not None:
            if jgen.amt_q(p["amount"]) != q or p["amount"]["comm"] != base:
                problems.append("amount at line %d read differently from what was written" % pl)
            lot = p["amount"].get("lot")
            if lot:
                if (lot.get("tag") or "") != tag or (lot.get("date") is not None and jgen.date_text(lot["date"]) != dtxt):
                    problems.append("lot at line %d read differently from what was written" % pl)
                if lot.get("price") and exact != "%d/%d %s" % (jgen.amt_q(lot["price"]).numerator, jgen.amt_q(lot["price"]).denominator, lot["price"]["comm"]):
                    problems.append("lot price at line %d read differently from what was written" % pl)
    n_ast = sum(1 for x in case["ast"]["xacts"] for p in x["posts"])
    lines_seen = {r["line"] for r in raw}
    if any(l not in lines_seen for l in by_line):
        problems.append("a written posting is missing from the unfiltered register")
    fin = {"xacts": [fx[k] for k in order]}
    return fin, raw, price_text, problems


# ---------------------------------------------------------------------------
# option sets


def gen_optset(rng, case):
    o = {"flat": rng.random() < 0.3, "depth": rng.choice([None, None, None, 1, 2, 3, 4]), "limit": [], "query": [],
         "basis": rng.random() < 0.25, "lots": rng.choice([None, None, None, "lots", "lot_prices", "lot_dates"])}
    if rng.random() < 0.3:
        o["limit"].append("real")
    r = rng.random()
    if r < 0.15:
        o["limit"].append("cleared")
    elif r < 0.3:
        o["limit"].append("uncleared")
    elif r < 0.42:
        o["limit"].append("pending")
    r = rng.random()
    if r < 0.35:
        for _ in range(rng.choice([1, 1, 2])):
            comp = rng.choice(rng.choice(case["accounts"]).split(":"))
            i = rng.randint(0, max(0, len(comp) - 2))
            pat = comp[i:i + rng.randint(1, 5)]
            pat = "".join(ch.upper() if rng.random() < 0.2 else ch.lower() if rng.random() < 0.2 else ch for ch in pat)
            if pat.strip() != pat or pat.lower() in RESERVED or not pat:
                pat = comp
            if pat.lower() in RESERVED:
                continue
            o["query"].append(["a", pat])
    if r > 0.8 or (0.3 < r < 0.35):
        o["query"].append(["p", rng.choice(["ee 1", "1", "2", "lot", "LOT", "payee 3", "fee", "ayee"])])
    return o


PLAIN = {"flat": False, "depth": None, "limit": [], "query": [], "basis": False, "lots": None}


def filt_args(o):
    a = []
    for l in o["limit"]:
        a.append("--" + l)
    if o["basis"]:
        a.append("-B")
    if o["lots"]:
        a.append("--" + o["lots"].replace("_", "-"))
    return a


def query_args(o):
    return [("@" if k == "p" else "") + pat for k, pat in o["query"]]


def model_fields(o):
    return ["cost" if o["basis"] else "amount", ",".join(o["limit"]), ";".join("%s:%s" % (k, p) for k, p in o["query"]),
            o["lots"] or ""]


def keep_flags(o):
    return {"lots": (True, True, True), "lot_prices": (True, False, False), "lot_dates": (False, True, False), None: (False, False, False)}[o["lots"]]


# ---------------------------------------------------------------------------
# running ledger


ADJ = [0]


def parse_reg(out):
    rows = []
    lines = out.split("\n")
    i = 0
    cur = None
    # the last field is free text and may span lines (multi-commodity amounts)
    for l in lines:
        f = l.split("|")
        if len(f) >= 7 and re.match(r"^-?\d+$", f[0]) and f[2][:2] in ("A:", "B:", "I:", "N"):
            cur = {"line": int(f[0]), "account": f[1], "amount": den(parse_vr(f[2])), "total": den(parse_vr(f[3])),
                   "samount": den(parse_vr(f[4])), "stotal": den(parse_vr(f[5])), "text": "|".join(f[6:])}
            if cur["line"] == 0 and cur["account"] in ("<Adjustment>", "<Revalued>"):
                # display_filter_posts / changed_value_posts (filters.cc 524-587): rows generated AFTER calc_posts under
                # --revalued (-B) to keep the *rounded* display consistent; they are not postings and carry a truncated total
                ADJ[0] += 1
                cur = dict(cur)
                continue
            rows.append(cur)
        elif cur is not None and l != "":
            cur["text"] += "\n" + l
    return rows


def parse_bal(out):
    rows = []
    cur = None
    for l in out.split("\n"):
        f = l.split("|")
        if len(f) >= 7 and f[2][:2] in ("A:", "B:", "I:", "N"):
            cur = {"account": f[0], "partial": f[1], "amount": den(parse_vr(f[2])), "total": den(parse_vr(f[3])),
                   "samount": den(parse_vr(f[4])), "stotal": den(parse_vr(f[5])), "text": "|".join(f[6:])}
            rows.append(cur)
        elif cur is not None and l != "":
            cur["text"] += "\n" + l
    footer = None
    if rows and rows[-1]["account"] == "":
        footer = rows.pop()
    return rows, footer


def run_reg(path, o, depth=None, empty=True):
    args = ["-f", path, "reg"] + (["--empty"] if empty else []) + filt_args(o) + (["--depth", str(depth)] if depth else []) + \
           ["--format", REG_FMT] + query_args(o)
    rc, out, err = L(args)
    return rc, parse_reg(out) if rc == 0 else [], err, args


def run_bal(path, o, flat, depth, empty=True):
    args = ["-f", path, "bal"] + (["--empty"] if empty else []) + filt_args(o) + (["--flat"] if flat else []) + \
           (["--depth", str(depth)] if depth else []) + ["--format", BAL_FMT] + query_args(o)
    rc, out, err = L(args)
    rows, footer = parse_bal(out) if rc == 0 else ([], None)
    return rc, rows, footer, err, args


def observe(path, o, with_default):
    """Everything the oracle and the correspondence need for one (journal, option set)."""
    ob = {"o": o}
    ob["reg"] = run_reg(path, o)
    ob["tree"] = run_bal(path, o, False, None)
    variant = (o["flat"], o["depth"])
    ob["var"] = run_bal(path, o, *variant) if variant != (False, None) else ob["tree"]
    ob["regd"] = run_reg(path, o, depth=o["depth"]) if o["depth"] else None
    if with_default:
        ob["reg0"] = run_reg(path, o, empty=False)
        ob["flat1"] = run_bal(path, o, True, None)
        ob["flat0"] = run_bal(path, o, True, None, empty=False)
    return ob


# ---------------------------------------------------------------------------
# the implementation-side oracle: identities of the property on ledger's own outputs


def under(a, b):
    """account a is b or a sub-account of b."""
    return a == b or a.startswith(b + ":")


SYMS = sorted((c.name for c in jgen.STD_COMMS), key=len, reverse=True)


def displays_zero(text):
    """does ledger's own rendering of the (stripped) amount show no non-zero digit?
    Only used without lot options (annotations contain digits); commodity symbols hold no digits."""
    t = text
    for s in SYMS:
        t = t.replace(s, "")
    return not re.search(r"[1-9]", t)


def oracle(ob):
    """Returns a list of (identity, detail, args) failures."""
    o = ob["o"]
    bad = []
    rc, reg, err, rargs = ob["reg"]
    if rc != 0:
        return [("reg-failed", err[-300:], rargs)]
    keep = keep_flags(o)
    # (1) running total of row k = sum of the amounts of rows 0..k; stripping is per-row consistent
    run = {}
    for k, r in enumerate(reg):
        run = den_add(run, r["amount"])
        if r["total"] != run:
            bad.append(("running-total", "row %d (%s): total %s, sum of amounts so far %s" % (k, r["account"], show_den(r["total"]), show_den(run)), rargs))
            break
    for k, r in enumerate(reg):
        if r["samount"] != strip_den(r["amount"], keep) or r["stotal"] != strip_den(r["total"], keep):
            bad.append(("strip-hom", "row %d (%s): shown %s / %s, exact %s / %s" % (k, r["account"], show_den(r["samount"]), show_den(r["stotal"]),
                                                                                   show_den(r["amount"]), show_den(r["total"])), rargs))
            break
        if base_den(r["stotal"]) != base_den(r["total"]):
            bad.append(("lots-change-sum", "row %d" % k, rargs))
            break
    last = reg[-1]["total"] if reg else {}
    for name in ("tree", "var"):
        rc, rows, footer, err, bargs = ob[name]
        if rc != 0:
            bad.append(("bal-failed", err[-300:], bargs))
            continue
        flat = name == "var" and o["flat"]
        depth = o["depth"] if name == "var" else None
        # (2) every shown balance = sum of the register's postings to the account / its subtree
        for b in rows:
            own = den_sum(r["amount"] for r in reg if r["account"] == b["account"])
            sub = den_sum(r["amount"] for r in reg if under(r["account"], b["account"]))
            if b["amount"] != own:
                bad.append(("bal-amount-vs-reg", "%s: bal amount %s, register sum %s" % (b["account"], show_den(b["amount"]), show_den(own)), bargs))
                break
            if b["total"] != sub:
                bad.append(("bal-total-vs-reg", "%s: bal total %s, register subtree sum %s" % (b["account"], show_den(b["total"]), show_den(sub)), bargs))
                break
            if b["stotal"] != strip_den(b["total"], keep) or b["samount"] != strip_den(b["amount"], keep):
                bad.append(("strip-hom", "%s: shown total %s, exact %s" % (b["account"], show_den(b["stotal"]), show_den(b["total"])), bargs))
                break
        # (3) grand total = last running total (footer shown only when more than one row is)
        if footer is not None:
            if footer["total"] != last:
                bad.append(("grand-total-vs-last-running", "footer %s, last running total %s" % (show_den(footer["total"]), show_den(last)), bargs))
            if footer["stotal"] != strip_den(footer["total"], keep):
                bad.append(("strip-hom", "footer", bargs))
        elif len(rows) > 1:
            bad.append(("grand-total-missing", "%d rows but no total line" % len(rows), bargs))
        elif len(rows) == 1 and not depth and rows[0]["total" if not flat else "amount"] != last:
            bad.append(("grand-total-vs-last-running", "single row %s, last running total %s" % (show_den(rows[0]["total"]), show_den(last)), bargs))
        names = [b["account"] for b in rows]
        if len(set(names)) != len(names):
            bad.append(("duplicate-account-row", str(names), bargs))
        byname = {b["account"]: b for b in rows}
        if not flat:
            # (4) parent total = own amount + totals of its nearest displayed descendants
            for b in rows:
                d = len(b["account"].split(":"))
                if depth and d >= depth:
                    continue
                kids = [c for c in rows if c["account"] != b["account"] and under(c["account"], b["account"]) and
                        not any(m != c["account"] and m != b["account"] and under(c["account"], m) and under(m, b["account"]) for m in names)]
                want = den_sum([b["amount"]] + [c["total"] for c in kids])
                if b["total"] != want:
                    bad.append(("parent-vs-children", "%s: total %s, own + children %s" % (b["account"], show_den(b["total"]), show_den(want)), bargs))
                    break
            # --depth only regroups: the cut at depth N still sums to the grand total
            tops = [b for b in rows if not any(m != b["account"] and under(b["account"], m) for m in names)]
            if den_sum(b["total"] for b in tops) != last:
                bad.append(("depth-regroup", "top rows sum to %s, grand total %s" % (show_den(den_sum(b["total"] for b in tops)), show_den(last)), bargs))
        elif not depth:
            # --flat only regroups: the rows' own amounts sum to the grand total
            if den_sum(b["amount"] for b in rows) != last:
                bad.append(("flat-regroup", "flat amounts sum to %s, grand total %s" % (show_den(den_sum(b["amount"] for b in rows)), show_den(last)), bargs))
    # (5) reg --depth N: collapsed rows keep running totals, grand total and per-account sums
    if ob.get("regd"):
        rc, regd, err, dargs = ob["regd"]
        if rc != 0:
            bad.append(("reg-depth-failed", err[-300:], dargs))
        else:
            run = {}
            for k, r in enumerate(regd):
                run = den_add(run, r["amount"])
                if r["total"] != run:
                    bad.append(("running-total", "reg --depth row %d (%s): total %s, sum so far %s" % (k, r["account"], show_den(r["total"]), show_den(run)), dargs))
                    break
            if (regd[-1]["total"] if regd else {}) != last:
                bad.append(("depth-regroup", "reg --depth last total %s, reg last total %s" % (show_den(regd[-1]["total"] if regd else {}), show_den(last)), dargs))
            n = o["depth"]
            trunc = lambda a: ":".join(a.split(":")[:n])
            for acct in sorted({trunc(r["account"]) for r in reg} | {r["account"] for r in regd}):
                a = den_sum(r["amount"] for r in regd if r["account"] == acct)
                b = den_sum(r["amount"] for r in reg if trunc(r["account"]) == acct)
                if a != b:
                    bad.append(("depth-regroup", "reg --depth %d rows of %s sum to %s, postings to it %s" % (n, acct, show_den(a), show_den(b)), dargs))
                    break
    # (6) the default listing is the --empty listing minus display-zero rows
    if "reg0" in ob and not o["lots"]:
        rc0, reg0, err0, a0 = ob["reg0"]
        if rc0 == 0:
            want = [(r["line"], r["account"], tuple(sorted(r["amount"].items())), tuple(sorted(r["total"].items()))) for r in reg if not displays_zero(r["text"])]
            got = [(r["line"], r["account"], tuple(sorted(r["amount"].items())), tuple(sorted(r["total"].items()))) for r in reg0]
            if want != got:
                bad.append(("default-vs-empty", "reg without --empty shows %d rows, --empty minus display-zero rows is %d" % (len(got), len(want)), a0))
        rc1, f1, ft1, e1, a1 = ob["flat1"]
        rc0, f0, ft0, e0, a0 = ob["flat0"]
        if rc1 == 0 and rc0 == 0:
            want = [(b["account"], tuple(sorted(b["total"].items()))) for b in f1 if not displays_zero(b["text"])]
            got = [(b["account"], tuple(sorted(b["total"].items()))) for b in f0]
            if want != got:
                bad.append(("default-vs-empty", "bal --flat without --empty shows %s, --empty minus display-zero rows is %s" % ([g[0] for g in got], [w[0] for w in want]), a0))
    return bad


# ---------------------------------------------------------------------------
# self-test of the oracle: perturb ledger's answers the way a realistic C++ slip would and
# require the oracle to object (evidence that the oracle is live, not vacuous)


def clone(ob):
    """deep copy of an observation (dict keys are tuples, values Fractions)."""
    import copy
    return copy.deepcopy(ob)


def perturbations():
    def total_forgets_own(ob):          # account_t::total without `temp = amount(...)`
        for name in ("tree", "var"):
            for b in ob[name][1]:
                if b["amount"] and b["total"] != b["amount"]:
                    b["total"] = den_add(b["total"], b["amount"], -1)
                    b["stotal"] = den_add(b["stotal"], b["samount"], -1)
                    return True

    def total_counts_child_twice(ob):   # a child's total added twice
        rows = ob["tree"][1]
        for b in rows:
            kids = [c for c in rows if c["account"].startswith(b["account"] + ":") and c["total"]]
            if kids:
                b["total"] = den_add(b["total"], kids[0]["total"])
                b["stotal"] = den_add(b["stotal"], kids[0]["stotal"])
                return True

    def running_total_lags(ob):         # calc_posts adds the amount after passing the posting on
        reg = ob["reg"][1]
        if len(reg) >= 2 and any(r["amount"] for r in reg):
            prev = {}
            for r in reg:
                r["total"], prev = prev, r["total"]
                r["stotal"] = strip_den(r["total"], keep_flags(ob["o"]))
            return True

    def running_total_skips_row(ob):    # one posting does not enter the running total
        reg = ob["reg"][1]
        for k, r in enumerate(reg):
            if r["amount"] and k + 1 < len(reg):
                for r2 in reg[k:]:
                    r2["total"] = den_add(r2["total"], r["amount"], -1)
                    r2["stotal"] = strip_den(r2["total"], keep_flags(ob["o"]))
                return True

    def footer_is_last_row(ob):         # grand total taken from the last displayed account
        rc, rows, footer, err, args = ob["tree"]
        if footer is not None and rows and rows[-1]["total"] != footer["total"]:
            footer["total"], footer["stotal"] = rows[-1]["total"], rows[-1]["stotal"]
            return True

    def bal_ignores_filter(ob):         # the limit predicate is not applied to the accounts report
        for b in ob["tree"][1]:
            if b["amount"]:
                k = next(iter(b["amount"]))
                b["amount"] = den_add(b["amount"], {k: Fraction(1)})
                b["samount"] = strip_den(b["amount"], keep_flags(ob["o"]))
                return True

    def strip_drops_a_lot(ob):          # strip_annotations loses one component instead of merging it
        for r in ob["reg"][1]:
            if len(r["stotal"]) >= 1 and r["stotal"]:
                k = next(iter(r["stotal"]))
                r["stotal"] = {kk: v for kk, v in r["stotal"].items() if kk != k}
                return True

    def sign_flip(ob):                  # one posting enters an account with the wrong sign
        for r in ob["reg"][1]:
            if r["amount"]:
                r["amount"] = {k: -v for k, v in r["amount"].items()}
                r["samount"] = {k: -v for k, v in r["samount"].items()}
                return True
    return [total_forgets_own, total_counts_child_twice, running_total_lags, running_total_skips_row, footer_is_last_row,
            bal_ignores_filter, strip_drops_a_lot, sign_flip]


def oracle_selftest(observations):
    """{perturbation name: caught on how many of the observations it applied to}."""
    res = {}
    for pert in perturbations():
        applied = caught = 0
        for ob in observations:
            if oracle(ob):
                continue
            m = clone(ob)
            if m["var"] is ob["var"] or (ob["o"]["flat"], ob["o"]["depth"]) == (False, None):
                m["var"] = m["tree"]
            if pert(m):
                applied += 1
                if oracle(m):
                    caught += 1
        res[pert.__name__] = (applied, caught)
    return res


# ---------------------------------------------------------------------------
# correspondence with the model


def model_lines(fin_json, o):
    mf = model_fields(o)
    lines = ["\t".join(["rep.reg"] + mf + ["", fin_json]),
             "\t".join(["rep.bal"] + mf + ["0", "", fin_json])]
    if (o["flat"], o["depth"]) != (False, None):
        lines.append("\t".join(["rep.bal"] + mf + ["1" if o["flat"] else "0", str(o["depth"] or ""), fin_json]))
    if o["depth"]:
        lines.append("\t".join(["rep.reg"] + mf + [str(o["depth"]), fin_json]))
    return lines


def cmp_reg(ans, reg, pt):
    if not ans.startswith("ok"):
        return "model answered " + ans[:200]
    mrows = [r.split("|") for r in ans.split("\t")[1:]]
    if len(mrows) != len(reg):
        return "model has %d register rows, ledger %d" % (len(mrows), len(reg))
    for k, (m, r) in enumerate(zip(mrows, reg)):
        got = (int(m[0]), m[1], model_den(m[2], pt), model_den(m[3], pt), model_den(m[4], pt), model_den(m[5], pt))
        want = (r["line"], r["account"], r["amount"], r["total"], r["samount"], r["stotal"])
        if got != want:
            return "register row %d: model %s, ledger %s" % (k, [got[0], got[1]] + [show_den(x) for x in got[2:]],
                                                            [want[0], want[1]] + [show_den(x) for x in want[2:]])
    return None


def cmp_bal(ans, rows, footer, pt):
    if not ans.startswith("ok"):
        return "model answered " + ans[:200]
    parts = [r.split("|") for r in ans.split("\t")[1:]]
    mf = parts[-1]
    mrows = parts[:-1]
    if [m[0] for m in mrows] != [r["account"] for r in rows]:
        return "model shows accounts %s, ledger %s" % ([m[0] for m in mrows], [r["account"] for r in rows])
    for m, r in zip(mrows, rows):
        got = (m[1], model_den(m[2], pt), model_den(m[3], pt), model_den(m[4], pt), model_den(m[5], pt))
        want = (r["partial"], r["amount"], r["total"], r["samount"], r["stotal"])
        if got != want:
            return "balance row %s: model %s, ledger %s" % (m[0], [got[0]] + [show_den(x) for x in got[1:]], [want[0]] + [show_den(x) for x in want[1:]])
    if footer is not None:
        if (model_den(mf[2], pt), model_den(mf[3], pt)) != (footer["total"], footer["stotal"]):
            return "grand total: model %s, ledger %s" % (show_den(model_den(mf[2], pt)), show_den(footer["total"]))
    if (footer is not None) != (int(mf[1]) > 1):
        return "total line: ledger %s, model shows %s rows" % ("prints one" if footer else "prints none", mf[1])
    return None


def cmp_regd(ans, regd, pt):
    if not ans.startswith("ok"):
        return "model answered " + ans[:200]
    parts = [r.split("|") for r in ans.split("\t")[1:]]
    mf = parts[-1]
    got = sorted((m[1], tuple(sorted(model_den(m[2], pt).items())), tuple(sorted(model_den(m[3], pt).items()))) for m in parts[:-1])
    want = sorted((r["account"], tuple(sorted(r["amount"].items())), tuple(sorted(r["samount"].items()))) for r in regd)
    if got != want:
        return "reg --depth rows differ as multisets: model %d rows, ledger %d rows; first difference %s" % (
            len(got), len(want), next(((g, w) for g, w in itertools.zip_longest(got, want) if g != w), None))
    lt = regd[-1]["total"] if regd else {}
    if model_den(mf[1], pt) != lt:
        return "reg --depth last total: model %s, ledger %s" % (show_den(model_den(mf[1], pt)), show_den(lt))
    return None


def cmp_raw(ans, raw, pt):
    if not ans.startswith("ok"):
        return "model answered " + ans[:200]
    mrows = [r.split("|") for r in ans.split("\t")[1:]]
    if len(mrows) != len(raw):
        return "model has %d postings, ledger lists %d" % (len(mrows), len(raw))
    for m, r in zip(mrows, raw):
        got = (int(m[0]), m[1], m[2] == "1", int(m[3]), m[4], model_den(m[5], pt), model_den(m[6], pt))
        want = (r["line"], r["account"], r["real"], r["state"], r["payee"], r["amount"], r["cost"])
        if got != want:
            return "posting at line %s: model %s, ledger %s" % (m[0], got[:5], want[:5])
    return None


# ---------------------------------------------------------------------------
# per-case work (runs in the thread pool)


def depth_of(case):
    return max(len(a.split(":")) for a in case["accounts"])


def work(item):
    case, optsets, with_default = item
    path = jgen.write_tmp(case["text"])
    try:
        fin = finalise(case, path)
        if fin is None:
            rc, out, err = L(["-f", path, "reg"])
            return {"rejected": err.strip().split("\n")[-1][:200] if err.strip() else "rc=%s" % rc}
        fin_ast, raw, pt, problems = fin
        obs = [observe(path, o, i < with_default) for i, o in enumerate(optsets)]
        return {"fin": fin_ast, "raw": raw, "pt": pt, "problems": problems, "obs": obs}
    finally:
        os.unlink(path)


def fails_identity(text, o, ident):
    """Does this journal text still break `ident` under option set o on the current binary?"""
    path = jgen.write_tmp(text)
    try:
        rc, out, err = L(["-f", path, "reg", "--empty"])
        if rc != 0:
            return False
        ob = observe(path, o, True)
        return any(b[0] == ident for b in oracle(ob))
    finally:
        os.unlink(path)


def shrink(case, o, ident):
    """Delta-debug over transactions, then over postings-free simplifications of the option set."""
    xs = list(case["ast"]["xacts"])
    comms = [c for c in jgen.STD_COMMS if c.name in case["comms"]]

    def text_of(xl):
        return render({"xacts": [json.loads(json.dumps(x)) for x in xl]}, comms)
    n = 2
    while len(xs) >= 2 and n <= len(xs):
        chunk = max(1, len(xs) // n)
        reduced = False
        for i in range(0, len(xs), chunk):
            cand = xs[:i] + xs[i + chunk:]
            if cand and fails_identity(text_of(cand), o, ident):
                xs = cand
                n = max(n - 1, 2)
                reduced = True
                break
        if not reduced:
            if chunk == 1:
                break
            n = min(len(xs), n * 2)
    o2 = dict(o)
    for key, val in (("lots", None), ("basis", False), ("flat", False), ("depth", None), ("limit", []), ("query", [])):
        if o2[key] != val:
            cand = dict(o2)
            cand[key] = val
            if fails_identity(text_of(xs), cand, ident):
                o2 = cand
    return text_of(xs), o2


def opt_class(o):
    return "+".join([k for k in ("flat", "basis") if o[k]] + (["depth"] if o["depth"] else []) + ([o["lots"]] if o["lots"] else []) +
                    sorted(o["limit"]) + (["query"] if o["query"] else [])) or "plain"


def cmdline(args):
    return "ledger " + " ".join("'%s'" % a.replace("\n", "\\n") if re.search(r"[^A-Za-z0-9_./:=@-]", a) else a for a in args[2:])


def run(tier, seed):
    ctx = Check("C05", tier, seed)
    ctx.rule = ("random account trees (1-20 posting accounts, depth 1-6, shared prefixes, single-child chains, posting parents), 1-5 commodities, "
                "1-120 transactions with costs, lots ({price} [date] (tag), computed lots from @ costs), virtual/[balanced] postings, states, "
                "elided amounts; per journal the plain option set plus random sets from {--flat, --depth 1-4, --real, --cleared|--uncleared|--pending, "
                "-B, --lots|--lot-prices|--lot-dates, account substrings, @payee}; non-trivial = (tree depth >= 3 and >= 2 commodities) or a "
                "lot/cost option on; distinct by (journal text, option set)")
    ctx.assumptions = ["journals are accepted and finalised by ledger itself (elided amounts, computed lot annotations, final costs are read "
                       "from the unfiltered `reg --empty` listing and cross-checked against the generator's AST)",
                       "regular expressions restricted to literal case-insensitive substrings",
                       "account names without leading/trailing blanks; no account/alias/auto-transaction directives"]
    ctx.trusted = ["tools/extract_reports.py evaluates chain.cc's guards with a small boolean evaluator"]
    if not ctx.prepare():
        return ctx.finish()
    rng = ctx.rng
    quick = ctx.tier == "quick"
    n_cases = 120 if quick else 1500
    n_big = 5 if quick else 60
    per = 5 if quick else 8
    if ctx.ties_broken:
        # search mode: a proof obligation or an extractor broke; widen every stream to look for a failing input
        n_cases, n_big, per = n_cases * 3, n_big * 2, per + 3
        ctx.feature("search-mode")
    items = []
    # corpus first
    cdir = os.path.join(vflib.ROOT, "corpus", "C05")
    if os.path.isdir(cdir):
        for fn in sorted(os.listdir(cdir)):
            if fn.endswith(".json"):
                with open(os.path.join(cdir, fn)) as f:
                    c = json.load(f)
                comms = [x for x in jgen.STD_COMMS if x.name in c["comms"]]
                c["text"] = render(c["ast"], comms)
                items.append((c, [PLAIN] + c.get("optsets", []), 10 ** 6))
    n_corpus = len(items)
    items += boundary_items()
    n_boundary = len(items) - n_corpus
    ctx.exhaustive = {"boundary_journals": n_boundary, "option_sets_each": len(boundary_optsets(""))}
    for i in range(n_cases + n_big):
        case = gen_case(rng, big=i >= n_cases)
        optsets = [PLAIN] + [gen_optset(rng, case) for _ in range(per)]
        items.append((case, optsets, 2 if i % 3 == 0 else 0))
    results = vflib.pmap(work, items)
    # model side, one driver run for everything
    lines = []
    index = []
    for ci, ((case, optsets, wd), res) in enumerate(zip(items, results)):
        if "rejected" in res:
            continue
        fj = json.dumps(res["fin"], ensure_ascii=False)
        index.append((ci, None, len(lines)))
        lines.append("rep.raw\t" + fj)
        for oi, o in enumerate(optsets):
            index.append((ci, oi, len(lines)))
            lines += model_lines(fj, o)
    # malformed stream for the driver ops
    bad_ops = ["rep.reg\tamount\t\t\t\t\t{\"xacts\": 3}", "rep.bal\tamount\tnosuch\t\t\t0\t\t{\"xacts\": []}", "rep.raw",
               "rep.reg\tprice\t\t\t\t\t{\"xacts\": []}", "rep.bal\tamount\t\tx:1\t\t0\t\t{\"xacts\": []}",
               "rep.raw\t" + json.dumps({"xacts": [{"date": 1, "posts": [{"account": "A", "kind": "real", "amount": None}]}]})]
    answers = vflib.driver_run(lines + bad_ops, timeout=1800)
    for op, a in zip(bad_ops, answers[len(lines):]):
        ctx.count()
        ctx.feature("malformed-op")
        if not a.startswith("err\t"):
            ctx.tie_broken("corr:malformed", "driver accepted malformed op %r: %r" % (op[:80], a[:80]))
    failures = []
    for ci, oi, li in index:
        case, optsets, wd = items[ci]
        res = results[ci]
        pt = res["pt"]
        if oi is None:
            ctx.count()
            for pr in res["problems"]:
                ctx.tie_broken("corr:finalised-listing", pr + "\n" + case["text"][:1500])
            d = cmp_raw(answers[li], res["raw"], pt)
            if d:
                ctx.tie_broken("corr:rep.raw", d + "\n" + case["text"][:1500])
            continue
        o = optsets[oi]
        ob = res["obs"][oi]
        ctx.count()
        ctx.feature("opt:" + opt_class(o))
        k = li
        diffs = []
        rc, reg, err, rargs = ob["reg"]
        if rc == 0:
            d = cmp_reg(answers[k], reg, pt)
            if d:
                diffs.append(("rep.reg", d, rargs))
        k += 1
        rc, rows, footer, err, bargs = ob["tree"]
        if rc == 0:
            d = cmp_bal(answers[k], rows, footer, pt)
            if d:
                diffs.append(("rep.bal", d, bargs))
        k += 1
        if (o["flat"], o["depth"]) != (False, None):
            rc, rows, footer, err, bargs = ob["var"]
            if rc == 0:
                d = cmp_bal(answers[k], rows, footer, pt)
                if d:
                    diffs.append(("rep.bal:" + ("flat" if o["flat"] else "") + ("depth" if o["depth"] else ""), d, bargs))
            k += 1
        if o["depth"]:
            rc, regd, err, dargs = ob["regd"]
            if rc == 0:
                d = cmp_regd(answers[k], regd, pt)
                if d:
                    diffs.append(("rep.reg:depth", d, dargs))
            k += 1
        for name, d, args in diffs:
            ctx.tie_broken("corr:" + name, "%s\n%s\n%s" % (d, cmdline(args), case["text"][:3000]))
        bad = oracle(ob)
        for ident, detail, args in bad[:1]:       # the first identity that fails localises the case; the rest follow from it
            failures.append((ident, detail, args, case, o))
        if not diffs and not bad:
            ctx.traces_validated += 1
        ncomm = len(case["comms"])
        if (depth_of(case) >= 3 and ncomm >= 2) or o["basis"] or o["lots"]:
            ctx.nontrivial((case["text"], json.dumps(o, sort_keys=True)))
        ctx.feature("rows:reg", len(ob["reg"][1]))
        ctx.feature("rows:bal", len(ob["tree"][1]))
        if ob.get("regd"):
            ctx.feature("rows:reg-depth", len(ob["regd"][1]))
        if "reg0" in ob:
            ctx.feature("default-listing-checked")
            ctx.feature("rows:hidden-display-zero", len(ob["reg"][1]) - len(ob["reg0"][1]))
        if oi == 0:
            if case.get("name"):
                ctx.feature("case:" + case["name"])
            ctx.feature("tree-depth:%d" % depth_of(case))
            ctx.feature("commodities:%d" % ncomm)
            ctx.feature("postings", len(res["raw"]))
            ctx.feature("lot-postings", sum(1 for r in res["raw"] if any(k[1] or k[2] or k[3] for k in r["amount"])))
            ctx.feature("cost-postings", sum(1 for r in res["raw"] if r["cost"] != r["amount"]))
            ctx.feature("virtual-postings", sum(1 for r in res["raw"] if not r["real"]))
            ctx.sample({"journal": case["text"][:600], "options": o, "reg_rows": len(ob["reg"][1]), "bal_rows": len(ob["tree"][1])}, cap=3)
    rej = [r["rejected"] for r in results if "rejected" in r]
    ctx.feature("journals", len(results) - len(rej))
    if rej:
        ctx.feature("journals-rejected-by-ledger", len(rej))
        ctx.extra_cov["rejected_examples"] = rej[:3]
    if len(rej) > len(results) // 4:
        ctx.tie_broken("gen:rejected", "ledger rejected %d of %d generated journals, e.g. %s" % (len(rej), len(results), rej[:2]))
    # report oracle failures: one per (identity, option class), smallest journal first, shrunk
    seen = set()
    for ident, detail, args, case, o in sorted(failures, key=lambda f: len(f[3]["text"])):
        fp = "C05:%s:%s" % (ident, opt_class(o))
        if fp in seen or len(seen) >= 5:
            continue
        seen.add(fp)
        try:
            text, o2 = shrink(case, o, ident)
        except Exception as e:  # shrinking must never hide the finding
            text, o2 = case["text"], o
        path = jgen.write_tmp(text)
        try:
            ob = observe(path, o2, True)
            now = [b for b in oracle(ob) if b[0] == ident]
        finally:
            os.unlink(path)
        if now:
            detail, args = now[0][1], now[0][2]
            fp = "C05:%s:%s" % (ident, opt_class(o2))
        else:
            text, o2 = case["text"], o
        ctx.violation(fp, "ledger's own reports disagree (%s): %s" % (ident, detail),
                      {"journal": text, "options": o2, "identity": ident, "detail": detail,
                       "how": cmdline(["", "", "-f", "J.dat"] + args[2:]) + "   (and the matching reg/bal run; `./vf replay` re-evaluates all identities)"})
    # the oracle must object to every seeded perturbation of ledger's answers
    pool = [ob for (case, optsets, wd), res in zip(items, results) if "obs" in res and case.get("name") in
            ("parents", "chain-all-depths", "cancel", "costs", "virtual-only") for ob in res["obs"][:40:3]]
    st = oracle_selftest(pool)
    ctx.extra_cov["oracle_selftest"] = {k: "%d/%d" % (c, a) for k, (a, c) in st.items()}
    for k, (a, c) in st.items():
        if a == 0 or c < a:
            ctx.tie_broken("oracle:selftest:" + k, "perturbation %s applied to %d observations, the oracle objected to %d" % (k, a, c))
    ctx.extra_cov["oracle_failures"] = len(failures)
    ctx.feature("adjustment-rows-skipped", ADJ[0])
    return ctx.finish()


def replay(obj):
    r = obj.get("replay", {})
    if "journal" not in r:
        print(json.dumps(obj, indent=1)[:3000])
        return 1
    vflib.ensure_ledger()
    path = jgen.write_tmp(r["journal"])
    try:
        ob = observe(path, r["options"], True)
        bad = oracle(ob)
    finally:
        os.unlink(path)
    print(r["journal"])
    print("options:", r["options"])
    for ident, detail, args in bad:
        print("FAILS %s: %s\n   %s" % (ident, detail, cmdline(args)))
    if not bad:
        print("all identities hold on the current binary")
    return 1 if bad else 0
